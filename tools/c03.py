"""C03 - JSON round trip.
tie T: tools/py2coq/jsonrules.py regenerates gen/Gen_JsonRules.v from the JSON adapter; theorems in props/C03.v
       (generic round trip from `compat`, and `compat json_tables json_meta = true` by vm_compute).
tie C: the *interpretation* of the rule tables (model/Codec.v enc_auto / dec) is run against the real encoder on
       generated objects (hash of the JSON value), and the model's dec(enc v) is evaluated on the same values.
oracle: canonical form (tools/aasgen.canon, independent of the adapters) before == after the SDK's own strict
       JSON write/read, for whole stores through path / text stream / binary stream and for single objects through
       the encoder / decoder classes."""
import io
import json
import os
import re
import tempfile

import common
import aasgen
import codec_terms
from codec_terms import q

THEOREMS = ["C03_codec_roundtrip", "C03_json_compat", "C03_json_roundtrip", "C03_no_incompatible_rows", "C03_example",
            "C03_identifiables_dispatch", "C03_store_roundtrip"]

PRELUDE = ("From Coq Require Import List ZArith String.\n"
           "From Basyx Require Import model.Codec model.CodecObs gen.Gen_JsonRules.\nOpen Scope string_scope.")


def strip_type(c):
    if isinstance(c, dict):
        return {k: strip_type(v) for k, v in c.items() if k != "_type"}
    if isinstance(c, list):
        return [strip_type(x) for x in c]
    return c


def sig_of_diff(d):
    path, _, rest = d.partition(": ")
    attrs = [p.split("[")[0] for p in path.split("/") if re.fullmatch(r"[A-Za-z_]+(\[\d+\])*", p)]
    tail = "/".join(attrs[-2:])
    kind = "value-changed"
    if rest.endswith("!= None"):
        kind = "present->None"
    elif rest.startswith("None !=") or rest.startswith("'missing'"):
        kind = "None->present"
    elif rest.startswith("length"):
        kind = "length"
    return f"C03:roundtrip:{tail}:{kind}"


STREAM_KINDS = ("text", "binary", "path", "pathlib", "tmp-binary", "tmp-text", "spooled", "file-binary", "file-text",
                "file-text:ascii", "file-text:cp1252", "file-text:utf-16", "file-text:latin-1")


def oracle_store(store, how):
    """write + strict read through one kind of destination/source; returns None or a diff string / exception text"""
    import pathlib
    from basyx.aas.adapter.json import write_aas_json_file, read_aas_json_file
    before = strip_type(aasgen.canon_store(store))
    try:
        if how == "text":
            buf = io.StringIO()
            write_aas_json_file(buf, store)
            buf.seek(0)
            st2 = read_aas_json_file(buf, failsafe=False)
        elif how == "binary":
            buf = io.BytesIO()
            write_aas_json_file(buf, store)
            buf.seek(0)
            st2 = read_aas_json_file(buf, failsafe=False)
        elif how in ("tmp-binary", "tmp-text", "spooled"):
            # file proxies from tempfile: binary / text streams that are not io.* subclasses
            if how == "tmp-binary":
                f = tempfile.NamedTemporaryFile(prefix="verif-c03-")
            elif how == "tmp-text":
                f = tempfile.NamedTemporaryFile("w+", encoding="utf-8", prefix="verif-c03-")
            else:
                f = tempfile.SpooledTemporaryFile(max_size=64)
            with f:
                write_aas_json_file(f, store)
                f.seek(0)
                st2 = read_aas_json_file(f, failsafe=False)
        else:
            fd, path = tempfile.mkstemp(suffix=".json", prefix="verif-c03-")
            os.close(fd)
            try:
                if how == "path":
                    write_aas_json_file(path, store)
                    st2 = read_aas_json_file(path, failsafe=False)
                elif how == "pathlib":
                    write_aas_json_file(pathlib.Path(path), store)
                    st2 = read_aas_json_file(pathlib.Path(path), failsafe=False)
                elif how == "file-binary":
                    with open(path, "wb") as f:
                        write_aas_json_file(f, store)
                    with open(path, "rb") as f:
                        st2 = read_aas_json_file(f, failsafe=False)
                else:
                    # a text file in the encoding its owner chose (the writer cannot know it: the document must survive any)
                    enc = how.partition(":")[2] or "utf-8"
                    with open(path, "w", encoding=enc) as f:
                        write_aas_json_file(f, store)
                    with open(path, "r", encoding=enc) as f:
                        st2 = read_aas_json_file(f, failsafe=False)
            finally:
                os.remove(path)
    except Exception as e:
        return f"/: raised {type(e).__name__}: {str(e)[:150]}"
    after = strip_type(aasgen.canon_store(st2))
    return aasgen.diff(before, after)


# ---- mixed transports: the document is written through one kind of destination and read back through another kind of
# source.  Every UTF-8 destination must leave the same bytes behind - the UTF-8 encoding of the JSON text, nothing before
# it (RFC 8259, 8.1: no byte order mark) - and every kind of source must accept them.
WRITE_KINDS = ("path", "pathlib", "binary", "file-binary", "tmp-binary", "spooled", "text", "file-text", "tmp-text")
READ_KINDS = ("text", "file-text", "binary", "file-binary", "path", "pathlib", "tmp-binary", "tmp-text")


def write_bytes(store, how):
    """the bytes that write_aas_json_file leaves behind in a UTF-8 destination of kind `how` (WRITE_KINDS)"""
    import pathlib
    from basyx.aas.adapter.json import write_aas_json_file
    if how == "text":
        buf = io.StringIO()
        write_aas_json_file(buf, store)
        return buf.getvalue().encode("utf-8")
    if how == "binary":
        buf = io.BytesIO()
        write_aas_json_file(buf, store)
        return buf.getvalue()
    if how == "spooled":
        with tempfile.SpooledTemporaryFile(max_size=64) as f:
            write_aas_json_file(f, store)
            f.seek(0)
            return f.read()
    fd, path = tempfile.mkstemp(suffix=".json", prefix="verif-c03-")
    os.close(fd)
    try:
        if how == "path":
            write_aas_json_file(path, store)
        elif how == "pathlib":
            write_aas_json_file(pathlib.Path(path), store)
        elif how in ("file-binary", "tmp-binary"):
            with (open(path, "wb") if how == "file-binary" else
                  tempfile.NamedTemporaryFile(prefix="verif-c03-")) as f:
                write_aas_json_file(f, store)
                if how == "tmp-binary":
                    f.seek(0)
                    return f.read()
        else:
            with (open(path, "w", encoding="utf-8") if how == "file-text" else
                  tempfile.NamedTemporaryFile("w+", encoding="utf-8", prefix="verif-c03-")) as f:
                write_aas_json_file(f, store)
                if how == "tmp-text":
                    f.seek(0)
                    return f.read().encode("utf-8")
        with open(path, "rb") as f:
            return f.read()
    finally:
        os.remove(path)


def read_bytes(data, how):
    """strict read of the document `data` (bytes) through a source of kind `how` (READ_KINDS); text sources are opened by
    the caller as plain UTF-8, the way `open(p, encoding="utf-8")` / io.StringIO(text) do"""
    import pathlib
    from basyx.aas.adapter.json import read_aas_json_file
    if how == "text":
        return read_aas_json_file(io.StringIO(data.decode("utf-8")), failsafe=False)
    if how == "binary":
        return read_aas_json_file(io.BytesIO(data), failsafe=False)
    if how in ("tmp-binary", "tmp-text"):
        with (tempfile.NamedTemporaryFile(prefix="verif-c03-") if how == "tmp-binary" else
              tempfile.NamedTemporaryFile("w+", encoding="utf-8", prefix="verif-c03-")) as f:
            f.write(data if how == "tmp-binary" else data.decode("utf-8"))
            f.seek(0)
            return read_aas_json_file(f, failsafe=False)
    fd, path = tempfile.mkstemp(suffix=".json", prefix="verif-c03-")
    try:
        with os.fdopen(fd, "wb") as f:
            f.write(data)
        if how == "path":
            return read_aas_json_file(path, failsafe=False)
        if how == "pathlib":
            return read_aas_json_file(pathlib.Path(path), failsafe=False)
        if how == "file-binary":
            with open(path, "rb") as f:
                return read_aas_json_file(f, failsafe=False)
        with open(path, "r", encoding="utf-8") as f:
            return read_aas_json_file(f, failsafe=False)
    finally:
        os.remove(path)


def oracle_cross(store, w, r):
    """write through a destination of kind w, read the bytes back through a source of kind r.  Judged independently of
    the adapters: (1) the bytes are a UTF-8 JSON text without byte order mark (json.loads of the decoded text, first
    byte '{'), (2) canonical form before == after.  Returns (None or diff / exception text, first bytes)"""
    before = strip_type(aasgen.canon_store(store))
    try:
        data = write_bytes(store, w)
    except Exception as e:
        return f"/: raised {type(e).__name__}: {str(e)[:150]}", ""
    head = data[:8].hex()
    bad_bytes = None
    if not data.startswith(b"{"):
        bad_bytes = f"/: document-bytes: the document written through {w} does not start with '{{' (first bytes {head}): " \
                    f"not the UTF-8 encoding of a JSON text"
    else:
        try:
            json.loads(data.decode("utf-8"))
        except Exception as e:
            bad_bytes = f"/: document-bytes: written through {w}: {type(e).__name__}: {str(e)[:120]}"
    try:
        st2 = read_bytes(data, r)
    except Exception as e:
        return f"/: raised {type(e).__name__}: {str(e)[:150]}" + (f" [{bad_bytes[3:]}]" if bad_bytes else ""), head
    return aasgen.diff(before, strip_type(aasgen.canon_store(st2))) or bad_bytes, head


def transport_class(kind):
    return "path" if kind.startswith("path") else "text" if "text" in kind else "binary"


def write_json(store, how, **kw):
    """the JSON document that write_aas_json_file / object_store_to_json produce for `store` through one kind of
    destination (STREAM_KINDS + 'string' = object_store_to_json), as text; kw is passed on (stripped=..., encoder=...)"""
    import pathlib
    from basyx.aas.adapter.json import write_aas_json_file, object_store_to_json
    if how == "string":
        return object_store_to_json(store, **kw)
    if how == "text":
        buf = io.StringIO()
        write_aas_json_file(buf, store, **kw)
        return buf.getvalue()
    if how == "binary":
        buf = io.BytesIO()
        write_aas_json_file(buf, store, **kw)
        return buf.getvalue().decode("utf-8")
    if how in ("tmp-binary", "tmp-text", "spooled"):
        if how == "tmp-binary":
            f = tempfile.NamedTemporaryFile(prefix="verif-c03-")
        elif how == "tmp-text":
            f = tempfile.NamedTemporaryFile("w+", encoding="utf-8", prefix="verif-c03-")
        else:
            f = tempfile.SpooledTemporaryFile(max_size=64)
        with f:
            write_aas_json_file(f, store, **kw)
            f.seek(0)
            d = f.read()
            return d if isinstance(d, str) else d.decode("utf-8")
    fd, path = tempfile.mkstemp(suffix=".json", prefix="verif-c03-")
    os.close(fd)
    try:
        if how == "path":
            write_aas_json_file(path, store, **kw)
        elif how == "pathlib":
            write_aas_json_file(pathlib.Path(path), store, **kw)
        elif how == "file-binary":
            with open(path, "wb") as f:
                write_aas_json_file(f, store, **kw)
        else:
            with open(path, "w", encoding=how.partition(":")[2] or "utf-8") as f:
                write_aas_json_file(f, store, **kw)
        with open(path, "r", encoding=(how.partition(":")[2] or "utf-8") if how.startswith("file-text") else "utf-8") as f:
            return f.read()
    finally:
        os.remove(path)


def scribble(obj, seen=None):
    """changes, in place, every mutable value object reachable from obj (binary values, durations, lang string sets): what a
    client may do with the objects a reader returned; returns the number of values changed"""
    from dateutil.relativedelta import relativedelta
    n = 0
    seen = set() if seen is None else seen
    if id(obj) in seen:
        return 0
    seen.add(id(obj))
    for a, kind in aasgen.META.get(aasgen.meta_class_name(obj), []):
        v = getattr(obj, a, None)
        if isinstance(v, bytearray):
            v.extend(b"!scribble")
            n += 1
        elif isinstance(v, relativedelta):
            v.days += 3
            n += 1
        elif v is None or isinstance(v, (str, bytes, int, float, bool, type)):
            continue
        elif hasattr(v, "_dict") and isinstance(getattr(v, "_dict"), dict) and v._dict:
            v._dict[next(iter(v._dict))] = "scribbled"
            n += 1
        elif isinstance(v, (list, set, frozenset, tuple)) or hasattr(v, "__iter__") and not isinstance(v, dict):
            for x in list(v):
                try:
                    n += scribble(x, seen)
                except TypeError:
                    pass
        else:
            try:
                n += scribble(v, seen)
            except TypeError:
                pass
    return n


def oracle_reread(store):
    """Readers must be functions of the document: read it, change the returned objects in place, read the same text again
    (same process) - the second result must equal the original.  Returns (diff or None, number of values changed)."""
    from basyx.aas.adapter.json import write_aas_json_file, read_aas_json_file
    before = strip_type(aasgen.canon_store(store))
    buf = io.StringIO()
    write_aas_json_file(buf, store)
    text = buf.getvalue()
    try:
        st1 = read_aas_json_file(io.StringIO(text), failsafe=False)
        n = sum(scribble(o) for o in st1)
        st2 = read_aas_json_file(io.StringIO(text), failsafe=False)
    except Exception as e:
        return f"/: raised {type(e).__name__}: {str(e)[:150]}", 0
    return aasgen.diff(before, strip_type(aasgen.canon_store(st2))), n


def oracle_object(obj):
    from basyx.aas.adapter.json import AASToJsonEncoder, StrictAASFromJsonDecoder
    before = strip_type(aasgen.canon(obj))
    try:
        o2 = json.loads(json.dumps(obj, cls=AASToJsonEncoder), cls=StrictAASFromJsonDecoder)
        after = strip_type(aasgen.canon(o2))
    except Exception as e:
        return f"/: raised {type(e).__name__}: {str(e)[:150]}"
    return aasgen.diff(before, after)


def coq_case(obj, stripped=False):
    from basyx.aas.adapter.json import AASToJsonEncoder, StrippedAASToJsonEncoder
    falsy = set()
    v = codec_terms.to_value(obj, falsy)
    enc = StrippedAASToJsonEncoder if stripped else AASToJsonEncoder
    real = json.loads(json.dumps(obj, cls=enc))
    h = codec_terms.hdoc(0, real)
    cls = aasgen.meta_class_name(obj)
    return (f"({q(cls)}, {v.term()}, ([" + "; ".join(q(x) for x in sorted(falsy)) + "] : list string), "
            f"{'true' if stripped else 'false'}, {common.coq_z(h)})"), real


TOP_CLASSES = [c for c in aasgen.META if c not in ("EmbeddedDataSpecification",)]
MODELTYPE_CLASSES = aasgen.IDENTIFIABLES + aasgen.SUBMODEL_ELEMENTS


def regenerate(chk):
    try:
        import py2coq.jsonrules as jr
        msg = jr.regenerate()
        chk.notes.append(msg)
        return True
    except Exception as e:
        chk.tie_broken("translator", f"{type(e).__name__}: {e}")
        return False


def run(chk):
    import logging
    logging.disable(logging.WARNING)   # the readers warn about every reference whose last key type is not its Python type
    try:
        return _run(chk)
    finally:
        logging.disable(logging.NOTSET)


def _run(chk):
    rng = chk.rng
    quick = chk.tier == "quick"
    n_obj, n_store = (260, 120) if quick else (3000, 1500)
    gen_ok = regenerate(chk)
    if gen_ok:
        ok = chk.theorems("props.C03", THEOREMS, ["theories/props/C03.vo", "theories/model/CodecObs.vo"])
        if not ok:
            # name the (class, attribute) rows on which writer rule, reader rule and attribute table disagree
            common.coq_make(["theories/gen/Gen_JsonRules.vo", "theories/model/CodecSpec.vo", "theories/model/CodecObs.vo"])
            rows = common.coq_eval("C03rows", "From Basyx Require Import model.Codec model.CodecSpec gen.Gen_JsonRules.",
                                   "incompatible_rows json_tables json_meta")
            chk.tie_broken("incompatible-rows", re.sub(r"\s+", " ", rows)[:1500])
    else:
        for t in THEOREMS:
            chk.obligations.append((t, "not-checked", []))
    probs = aasgen.meta_crosscheck()
    if probs:
        chk.tie_broken("meta-crosscheck", probs)

    # ---- oracle on whole stores (three stream kinds) and single objects
    store_terms = []
    n_sweep = 2
    for i in range(-n_sweep, n_store):
        how = STREAM_KINDS[i % len(STREAM_KINDS)]
        g = aasgen.Gen(rng, strings="json" if i % 2 else "plain", depth=3, wide_lists=True, calendar_edges=True)
        try:
            # stores -2, -1: the deterministic sweep (every edge value of every XSD type in all four typed holders)
            store = g.sweep_store() if i < 0 else g.store(rng.randint(1, 4))
        except Exception as e:
            chk.tie_broken("generator", f"{type(e).__name__}: {e}")
            continue
        chk.seen(("store", i, sorted(o.id for o in store)))
        chk.count("store:" + how)
        for k, n in g.features.items():
            chk.count("elem:" + k, n)
        if i % 2 == 0 and len(store_terms) < (40 if quick else 300):
            try:
                from basyx.aas.adapter.json import object_store_to_json
                falsy = set()
                vals = [codec_terms.to_value(o, falsy) for o in store]
                h = codec_terms.hdoc(0, json.loads(object_store_to_json(store)))
                store_terms.append("([" + "; ".join(v.term() for v in vals) + "], ([" +
                                   "; ".join(q(x) for x in sorted(falsy)) + "] : list string), " + common.coq_z(h) + ")")
            except ValueError:
                pass
        if i % 3 == 0:
            d2, nchg = oracle_reread(store)
            chk.count("reread-after-scribble")
            chk.cov["values_changed_in_place_before_rereading"] = chk.cov.get("values_changed_in_place_before_rereading", 0) + nchg
            if d2:
                chk.fail(sig_of_diff(d2) + ":reread", f"reading the same JSON text a second time, after the objects of the first "
                         f"read were changed in place, differs from the original: {d2}",
                         {"how": f"seed={chk.seed} store #{i}: read, scribble, read again", "diff": d2,
                          "canon_before": strip_type(aasgen.canon_store(store))})
        d = oracle_store(store, how)
        if d:
            chk.fail(sig_of_diff(d) + (f":{how}" if d.startswith("/: raised") else ""),
                     f"JSON {how} round trip of a generated store differs: {d}",
                     {"how": f"seed={chk.seed} store #{i} via {how}; re-run ./check C03", "diff": d,
                      "canon_before": strip_type(aasgen.canon_store(store))})
        # mixed transports: all pairs (destination kind, source kind) over the run, one pair per store
        k = i + n_sweep
        w, rd = WRITE_KINDS[k % len(WRITE_KINDS)], READ_KINDS[(k // len(WRITE_KINDS)) % len(READ_KINDS)]
        chk.count("cross:" + w + "->" + rd)
        dx, head = oracle_cross(store, w, rd)
        if dx:
            chk.fail(sig_of_diff(dx) + (f":document-bytes:{transport_class(w)}" if dx.startswith("/: document-bytes") else
                                        f":{transport_class(w)}->{transport_class(rd)}" if dx.startswith("/: ") else ""),
                     f"JSON round trip of a generated store, written through {w} and read back through {rd}, differs: {dx}",
                     {"how": f"seed={chk.seed} store #{i} written via {w}, strict read via {rd}; re-run ./check C03",
                      "diff": dx, "first_bytes_hex": head, "canon_before": strip_type(aasgen.canon_store(store))})
    # ---- correspondence of the interpreter + oracle on single objects
    terms, meta = [], []
    for i in range(n_obj):
        cls = TOP_CLASSES[i % len(TOP_CLASSES)]
        g = aasgen.Gen(rng, strings="plain", depth=2, wide_lists=True, calendar_edges=True)
        try:
            obj = g.obj(cls)
            if cls in MODELTYPE_CLASSES:
                d = oracle_object(obj)
                if d:
                    chk.fail(sig_of_diff(d), f"encoder/decoder class round trip of a {cls} differs: {d}",
                             {"class": cls, "diff": d, "canon_before": strip_type(aasgen.canon(obj))})
            for stripped in ((False, True) if i % 4 == 0 else (False,)):
                t, real = coq_case(obj, stripped)
                terms.append(t)
                meta.append((cls, stripped, real))
            chk.seen(("obj", cls, i))
            chk.count("object:" + cls)
        except ValueError as e:
            if "control character" in str(e):
                continue
            chk.tie_broken("case-construction", f"{cls}: {type(e).__name__}: {e}")
        except Exception as e:
            chk.tie_broken("case-construction", f"{cls}: {type(e).__name__}: {e}")
    if gen_ok and terms:
        bad, errs = common.run_mismatch_shards("C03enc", PRELUDE, terms, "(check_enc json_tables)", shard=12, jobs=16)
        n1 = common.run_mismatch_shards.evaluated
        bad2, errs2 = common.run_mismatch_shards("C03rt", PRELUDE, terms, "(check_rt json_tables json_meta)", shard=12, jobs=16)
        chk.traces = n1 + common.run_mismatch_shards.evaluated - len(bad) - len(bad2)
        for e in (errs + errs2)[:3]:
            chk.tie_broken("correspondence-run", e)
        if bad:
            cls, stripped, real = meta[bad[0]]
            model = common.coq_eval("C03", PRELUDE, "let '(cls, v, falsy, st, _) := " + terms[bad[0]] +
                                    " in enc_auto json_tables (lt_of falsy) st v")
            chk.tie_broken("correspondence-enc", {"n": len(bad), "class": cls, "stripped": stripped,
                                                  "sdk_json": real, "model_doc": model[:3000]})
        if bad2:
            cls, stripped, real = meta[bad2[0]]
            chk.tie_broken("correspondence-dec", {"n": len(bad2), "class": cls, "sdk_json": real})
        if len(chk.samples) < 3:
            chk.samples.append({"class": meta[0][0], "sdk_json": meta[0][2], "coq_case_prefix": terms[0][:400]})
    if gen_ok and store_terms:
        bad3, errs3 = common.run_mismatch_shards("C03st", PRELUDE, store_terms, "(check_store json_tables json_meta)",
                                                 shard=3, jobs=16)
        chk.traces += common.run_mismatch_shards.evaluated - len(bad3)
        for e in errs3[:2]:
            chk.tie_broken("correspondence-run", e)
        if bad3:
            chk.tie_broken("correspondence-store", {"n": len(bad3), "first_case_prefix": store_terms[bad3[0]][:1500]})
    chk.trusted = [
        "Coq 8.16.1 kernel; vm_compute for the finite compat check over the generated tables and for the correspondence; no native_compute",
        "translator tools/py2coq/jsonrules.py (fail-closed Python-ast; flattens the isinstance blocks of the two abstract helpers with the live class hierarchy)",
        "metamodel attribute table tools/aasgen.py META (specification side; cross-checked against constructor signatures each run)",
        "typed XSD values / bytes are leaves identified by their canonical literal: from_xsd(xsd_repr v) = v is property C06; base64 inverse",
        "JSON text layer (json.dumps / json.loads) between the abstract doc and bytes; ModelReference.type (a Python typing aid) is not a metamodel attribute",
        "generated idShorts of SubmodelElementList children canonicalised to None",
        "harness tools/c03.py, tools/codec_terms.py, tools/aasgen.py (generator, canonicaliser, oracle)",
    ]
    chk.assumptions = ["C06 (lexical round trip of typed values)", "json module round-trips str/bool/list/dict"]
    return chk.finish(level="proof",
                      rule="seeded generator tools/aasgen.py: stores of 1-4 identifiables (depth<=3, every class, optional attrs p=.5, "
                           "31 XSD types with edge values incl. every calendar edge x time-zone class, JSON lexical stress strings on every "
                           "second store) through text/binary/path and, per store, one pair (destination kind -> source kind) of the "
                           "mixed-transport matrix (document bytes must be BOM-free UTF-8 JSON); "
                           "single objects of every META class (plain strings) for the interpreter correspondence; "
                           "non-trivial = every generated case; distinct by ids/class+index")


def replay(path):
    r = json.load(open(path))
    print(json.dumps(r, indent=1)[:4000])
    return 1
