"""usage: cov_report.py <rcfile> <repo>  - per function: executed / missing lines and partial branches (coverage.py data)"""
import ast
import sys

import coverage

rc, repo = sys.argv[1:3]
cov = coverage.Coverage(config_file=rc)
cov.load()
for fn in sorted(cov.get_data().measured_files()):
    _, stmts, _, missing, _ = cov.analysis2(fn)
    try:
        arcs_missing = cov._analyze(fn).missing_branch_arcs()
    except Exception:
        arcs_missing = {}
    tree = ast.parse(open(fn).read())
    spans = []

    def walk(node, prefix):
        for ch in ast.iter_child_nodes(node):
            if isinstance(ch, (ast.FunctionDef, ast.AsyncFunctionDef, ast.ClassDef)):
                name = prefix + ch.name
                if not isinstance(ch, ast.ClassDef):
                    spans.append((ch.body[0].lineno, ch.end_lineno, name))
                walk(ch, name + ".")
            else:
                walk(ch, prefix)
    walk(tree, "")
    print(f"## {fn.replace(repo + '/', '')}: {len(stmts) - len(missing)}/{len(stmts)} statements executed")
    rows = []
    for a, b, name in spans:
        st = [x for x in stmts if a <= x <= b]
        # innermost function owns a line
        inner = [(a2, b2) for a2, b2, n2 in spans if a < a2 and b2 <= b]
        st = [x for x in st if not any(a2 <= x <= b2 for a2, b2 in inner)]
        ms = [x for x in st if x in missing]
        br = sorted(x for x in arcs_missing if a <= x <= b and not any(a2 <= x <= b2 for a2, b2 in inner) and x not in missing)
        if not st:
            continue
        rows.append((name, len(st), ms, br))
    never = [r for r in rows if len(r[2]) == r[1]]
    part = [r for r in rows if r[2] and len(r[2]) < r[1] or (not r[2] and r[3])]
    print(f"never entered ({len(never)}): " + ", ".join(r[0] for r in never))
    print("partly executed:")
    for name, n, ms, br in part:
        print(f"  {name}: missing lines {ms}" + (f"; branches never taken from lines {br}" if br else ""))
