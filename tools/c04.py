"""C04 - XML serialization round-trips every model without loss.

Theorems: coq/theories/props/C04.v (generic codec law over rule tables + `compat` of the generated tables by
vm_compute).  Tie T: tools/py2coq/xmlrules.py regenerates gen/Gen_XmlWriter.v / Gen_XmlReader.v from the current
xml_serialization.py / xml_deserialization.py / _generic.py before the theorems are re-checked.  Tie C: the
*interpretation* of the tables (enc_obj / dec_obj / write_store / read_store in model/XmlCodec.v) is run against
the real writer / reader on generated objects (trees and values compared through hashes, model/XmlObs.v).
Oracle: aasgen.canon before == after write_aas_xml_file -> read_aas_xml_file(failsafe=False) on whole stores and
object_to_xml_element -> read_aas_xml_element on single objects of every supported class.
"""
import base64
import enum
import inspect
import io
import json
import os
import random
import re

import common

THEOREMS = ["C04_codec_roundtrip", "C04_xml_compat", "C04_xml_pairs_closed", "C04_xml", "C04_top_lists",
            "C04_xml_store", "C04_single_roundtrip", "C04_single_members", "C04_single_classes",
            "C04_truthy_on_typed_value_rejected", "C04_example", "C04_store_example"]
LSS_CLASSES = ["MultiLanguageNameType", "MultiLanguageTextType", "DefinitionTypeIEC61360", "PreferredNameTypeIEC61360",
               "ShortNameTypeIEC61360"]
_META = [None]       # the metamodel table of the running check (for the oracle's own canonical form)
PRELUDE = ("From Coq Require Import List ZArith String.\n"
           "From Basyx Require Import model.XmlCodec model.XmlCompat model.XmlMeta model.XmlEntry model.XmlObs "
           "gen.Gen_XmlWriter gen.Gen_XmlReader.\nOpen Scope string_scope.")
NS = "{https://admin-shell.io/aas/3/0}"
IEC_STRS = ("unit", "source_of_definition", "symbol", "value_format")


# ------------------------------------------------------------------ parsing Coq-printed terms

def coq_parse(text):
    """Parses what `Eval vm_compute` prints for lists / tuples / strings / constructor applications."""
    text = text.split("\n     :")[0] if "\n     :" in text else text
    text = text.strip()
    if text.startswith("="):
        text = text[1:]
    toks = re.findall(r'"(?:[^"]|"")*"|[\[\]();,]|[A-Za-z_][\w.\']*|-?\d+|%\w+|::', text)
    toks = [t for t in toks if not t.startswith("%")]
    pos = [0]

    def peek():
        return toks[pos[0]] if pos[0] < len(toks) else None

    def nxt():
        t = toks[pos[0]]
        pos[0] += 1
        return t

    def atom():
        t = nxt()
        if t.startswith('"'):
            return t[1:-1].replace('""', '"')
        if t == "[":
            items = []
            if peek() == "]":
                nxt()
                return items
            while True:
                items.append(expr())
                t2 = nxt()
                if t2 == "]":
                    return items
                assert t2 == ";", t2
        if t == "(":
            items = [expr()]
            while peek() == ",":
                nxt()
                items.append(expr())
            assert nxt() == ")"
            return items[0] if len(items) == 1 else tuple(items)
        if re.fullmatch(r"-?\d+", t):
            return int(t)
        return ("@", t)

    def expr():
        a = atom()
        if isinstance(a, tuple) and len(a) == 2 and a[0] == "@":
            args = []
            while peek() is not None and peek() not in ("]", ")", ";", ",", "::"):
                args.append(atom())
            a = (a[1],) + tuple(args) if args else a[1]
            if a == "true":
                a = True
            elif a == "false":
                a = False
            elif a == "nil":
                a = []
        if peek() == "::":
            nxt()
            rest = expr()
            return [a] + rest
        return a
    res = expr()
    return res


def flat_tuple(t):
    """((a, b), c) -> (a, b, c)"""
    out = []
    while isinstance(t, tuple) and len(t) == 2 and isinstance(t[0], tuple) and not (t[0] and isinstance(t[0][0], str) and t[0][0][:1].isupper() and False):
        out.insert(0, t[1])
        t = t[0]
    return tuple(t) + tuple(out) if isinstance(t, tuple) else (t,) + tuple(out)


# ------------------------------------------------------------------ Coq term printing / flattening

def cstr(s):
    b = s.encode("utf-8")
    if all(32 <= x < 127 for x in b):
        return '"' + s.replace('"', '""') + '"'
    return "(sb [" + ";".join(str(x) for x in b) + "])"


def codes(s):
    return list(s.encode("utf-8"))


def cval(v):
    k = v[0]
    if k == "none":
        return "VNone"
    if k == "str":
        return f"(VStr {cstr(v[1])})"
    if k == "bool":
        return f"(VBool {'true' if v[1] else 'false'})"
    if k == "enum":
        return f"(VEnum {cstr(v[1])})"
    if k == "leaf":
        return f"(VLeaf {cstr(v[1])} {cstr(v[2])})"
    if k == "bytes":
        return f"(VBytes {cstr(v[1])})"
    if k == "list":
        return "(VList [" + "; ".join(cval(x) for x in v[1]) + "])"
    if k == "obj":
        return f"(VObj {cstr(v[1])} [" + "; ".join(f"({cstr(a)}, {cval(x)})" for a, x in v[2]) + "])"
    raise ValueError(v)


def flat_val(v, out):
    k = v[0]
    if k == "none":
        out.append(0)
    elif k == "str":
        out.append(1); out.extend(codes(v[1])); out.append(-1)
    elif k == "bool":
        out.extend([2, 1 if v[1] else 0])
    elif k == "enum":
        out.append(3); out.extend(codes(v[1])); out.append(-1)
    elif k == "leaf":
        out.append(4); out.extend(codes(v[1])); out.append(-1); out.extend(codes(v[2])); out.append(-1)
    elif k == "bytes":
        out.append(5); out.extend(codes(v[1])); out.append(-1)
    elif k == "list":
        out.append(6)
        for x in v[1]:
            flat_val(x, out)
        out.append(-2)
    elif k == "obj":
        out.append(7); out.extend(codes(v[1])); out.append(-1)
        for a, x in v[2]:
            out.extend(codes(a)); out.append(-1)
            flat_val(x, out)
        out.append(-2)
    return out


def cxml(x):
    tag, text, kids = x
    t = "None" if text is None else f"(Some {cstr(text)})"
    return f"(XE {cstr(tag)} {t} [" + "; ".join(cxml(k) for k in kids) + "])"


def flat_xml(x, out):
    tag, text, kids = x
    out.append(1); out.extend(codes(tag)); out.append(-1)
    if text is None:
        out.append(3)
    else:
        out.append(2); out.extend(codes(text)); out.append(-1)
    for k in kids:
        flat_xml(k, out)
    out.append(-2)
    return out


def ftable(falsy):
    if not falsy:
        return "(@nil (string * string))"
    return "[" + "; ".join(f"({cstr(a)}, {cstr(b)})" for a, b in sorted(falsy)) + "]"


def zh(lst):
    return common.zhash_d(lst, 1)


def xml_abs(el):
    """lxml element -> (local tag, text-or-None, children); empty text == no text (the XML text layer)"""
    tag = el.tag
    if not isinstance(tag, str) or not tag.startswith(NS):
        raise ValueError(f"foreign element {tag!r}")
    kids = [xml_abs(k) for k in el]
    text = el.text
    if text == "" or (kids and text is not None and not text.strip()):
        text = None
    return (tag[len(NS):], text, kids)


# ------------------------------------------------------------------ metamodel table (from Coq) and abstract values

class Meta:
    def __init__(self, table):
        self.table = table
        self.cls = {}
        for row in table:
            cname, attrs = row
            self.cls[cname] = [(a, k) for a, k in attrs]
        from basyx.aas.model import datatypes as D
        from py2coq import xmlrules
        self.xsd_names = {getattr(D, n): n for n, _ in xmlrules.translate_tables()["XSD_TYPE_NAMES"]}

    def kind_name(self, k):
        return k if isinstance(k, str) else k[0]


def class_name(obj):
    if isinstance(obj, (set, frozenset)):
        return "ValueList"
    return type(obj).__name__


def xval(meta, obj, falsy, in_list=False):
    """SDK object -> abstract value over exactly the attributes of the metamodel table (public attributes only)."""
    from basyx.aas import model
    cname = class_name(obj)
    if cname not in meta.cls:
        raise TypeError(f"no metamodel class {cname}")
    fs = []
    for a, k in meta.cls[cname]:
        kn = meta.kind_name(k)
        if cname == "ValueList":
            raw = list(obj)
        elif a == "items":
            raw = [_LS(l, t) for l, t in obj.items()]
        else:
            raw = getattr(obj, a)
        if kn == "KStr":
            if a == "id_short" and in_list:
                raw = None
            v = ("none",) if raw is None else ("str", raw)
        elif kn == "KBool":
            v = ("bool", bool(raw))
        elif kn == "KEnum":
            if raw is None:
                v = ("none",)
            elif isinstance(raw, enum.Enum):
                v = ("enum", raw.name)
            else:
                v = ("enum", meta.xsd_names.get(raw, getattr(raw, "__name__", str(raw))))
        elif kn in ("KXsd", "KXsdFixed"):
            if raw is None:
                v = ("none",)
            else:
                if kn == "KXsd":
                    ty = meta.xsd_names.get(getattr(obj, k[1]), "?")
                else:
                    ty = k[1]
                lit = model.datatypes.xsd_repr(raw)
                if not raw:
                    falsy.add((ty, lit))
                v = ("leaf", ty, lit)
        elif kn == "KBytes":
            v = ("none",) if raw is None else ("bytes", base64.b64encode(bytes(raw)).decode())
        elif kn == "KObj":
            v = ("none",) if raw is None else xval(meta, raw, falsy)
        elif kn == "KList":
            il = cname == "SubmodelElementList" and a == "value"
            v = ("list", [xval(meta, x, falsy, il) for x in raw], isinstance(raw, (set, frozenset)) or cname == "ValueList" or unordered(cname, a))
        elif kn == "KLevel":
            names = {x.name for x in raw}
            v = ("list", [("enum", m) for m in k[1] if m in names], False)
        else:
            raise TypeError(kn)
        fs.append((a, v))
    return ("obj", cname, fs)


def unordered(cname, a):
    """collections without a defined order (aasgen.META, specification side): the reader may rebuild them through a
    Python set (specific asset ids), so only their membership is compared"""
    import aasgen
    kind = dict(aasgen.META.get(cname, [])).get(a, "")
    return kind.startswith("set:") or kind.startswith("oset:") or kind == "refset"


class _LS:
    """a (language, text) item of a lang string set"""
    def __init__(self, language, text):
        self.language, self.text = language, text


_LS.__name__ = "LangString"


def nkey(v):
    """order-insensitive key: unordered collections sorted recursively"""
    if v[0] == "obj":
        return json.dumps(["obj", v[1], [[a, nkey(x)] for a, x in v[2]]])
    if v[0] == "list":
        ks = [nkey(x) for x in v[1]]
        if len(v) > 2 and v[2]:
            ks = sorted(ks)
        return json.dumps(["list", ks])
    return json.dumps(list(v), default=str)


def align(read, orig):
    """unordered collections come back in an order unrelated to the document (Python sets): when the value read is
    equal to the original up to the order of unordered collections, the original (= document order) is taken"""
    if read[0] == "obj" and orig[0] == "obj" and read[1] == orig[1]:
        return ("obj", read[1], [(a, align(v, dict(orig[2]).get(a, v))) for a, v in read[2]])
    if read[0] == "list" and orig[0] == "list":
        if len(read) > 2 and read[2]:
            return orig if nkey(read) == nkey(orig) else read
        if len(read[1]) == len(orig[1]):
            return ("list", [align(a, b) for a, b in zip(read[1], orig[1])], False)
    return read


# ------------------------------------------------------------------ SDK drivers and the oracle

# Process history: the strict full read that the property is about must give the same result whatever was read before
# in the same process.  In the main process the very first XML read, and every third one after it, is preceded by a
# stripped read (strict / failsafe alternating) of the same document; a short "plain" history (no stripped read at
# all) runs in a child process (plain_history()).
HISTORY = {"mode": "stripped-first", "n": 0, "stripped_reads": 0, "stripped_read_errors": 0}


def _history_prelude(raw, member=None):
    n = HISTORY["n"]
    HISTORY["n"] = n + 1
    if HISTORY["mode"] != "stripped-first" or n % 3:
        return
    from basyx.aas.adapter.xml import read_aas_xml_file, read_aas_xml_element, XMLConstructables
    failsafe = bool((n // 3) % 2)
    HISTORY["stripped_reads"] += 1
    try:
        if member is None:
            read_aas_xml_file(io.BytesIO(raw), failsafe=failsafe, stripped=True)
        else:
            read_aas_xml_element(io.BytesIO(raw), getattr(XMLConstructables, member), failsafe=failsafe, stripped=True)
    except Exception:           # what a stripped read yields is property C18's business
        HISTORY["stripped_read_errors"] += 1


def history_warmup(meta, seed, members_of):
    """Before the first strict full read of the process: stripped reads (strict and failsafe) of one object of every
    class through every matching single-object constructable (incl. the dispatching ones) and of one store."""
    if HISTORY["mode"] != "stripped-first":
        return
    from lxml import etree
    from basyx.aas.adapter.xml import read_aas_xml_element, read_aas_xml_file, write_aas_xml_file, XMLConstructables
    from basyx.aas.adapter.xml.xml_serialization import object_to_xml_element
    for i, cls in enumerate(SINGLE_GEN):
        cname, obj = gen_single_case(meta, seed, 2 * 10 ** 6 + i, 2, {}, cls=cls)
        try:
            raw = etree.tostring(object_to_xml_element(obj), encoding="UTF-8", xml_declaration=True)
        except Exception:
            continue
        for m in members_of.get(cname, []):
            for failsafe in (False, True):
                HISTORY["stripped_reads"] += 1
                try:
                    read_aas_xml_element(io.BytesIO(raw), getattr(XMLConstructables, m), failsafe=failsafe, stripped=True)
                except Exception:
                    HISTORY["stripped_read_errors"] += 1
    st, _ = gen_store_case(meta, seed, 2 * 10 ** 6, 3, 3, {})
    b = io.BytesIO()
    write_aas_xml_file(b, st)
    for failsafe in (False, True):
        HISTORY["stripped_reads"] += 1
        try:
            read_aas_xml_file(io.BytesIO(b.getvalue()), failsafe=failsafe, stripped=True)
        except Exception:
            HISTORY["stripped_read_errors"] += 1


def write_read_store(store):
    from basyx.aas.adapter.xml import write_aas_xml_file, read_aas_xml_file
    b = io.BytesIO()
    write_aas_xml_file(b, store)
    raw = b.getvalue()
    _history_prelude(raw)
    return raw, read_aas_xml_file(io.BytesIO(raw), failsafe=False)


def strip_type(c):
    """ModelReference.type is a Python typing aid, not a metamodel attribute (the reader derives it from the keys):
    drop aasgen's `_type` and re-sort the unordered collections, whose order may have depended on it."""
    import aasgen
    if isinstance(c, dict):
        kinds = dict(aasgen.META.get(c.get("_class"), []))
        out = {}
        for k, v in c.items():
            if k == "_type":
                continue
            v = strip_type(v)
            kind = kinds.get(k, "")
            if isinstance(v, list) and (kind.startswith("set:") or kind.startswith("oset:") or kind == "refset") \
                    and kind != "set:enum:IEC61360LevelType":
                v = sorted(v, key=aasgen._sortkey)
            out[k] = v
        return out
    if isinstance(c, list):
        return [strip_type(x) for x in c]
    return c


def xdiff(a, b):
    """second, independent opinion: this module's canonical form (typed values by their exact XSD literal, so
    nothing is rounded or normalised by the comparison itself); unordered collections by membership.
    -> None or 'path: x != y'"""
    if _META[0] is None:
        return None
    va, vb = xval(_META[0], a, set()), xval(_META[0], b, set())
    if nkey(va) == nkey(vb):
        return None

    def walk(x, y, path):
        if x[0] != y[0] or (x[0] == "obj" and x[1] != y[1]):
            return f"{path}: {cval(x)[:150]} != {cval(y)[:150]}"
        if x[0] == "obj":
            for (n1, v1), (n2, v2) in zip(x[2], y[2]):
                if nkey(v1) != nkey(v2):
                    return walk(v1, v2, f"{path}/{n1}")
        if x[0] == "list":
            if len(x[1]) != len(y[1]):
                return f"{path}: length {len(x[1])} != {len(y[1])}"
            xs, ys = x[1], y[1]
            if len(x) > 2 and x[2]:
                xs, ys = sorted(xs, key=nkey), sorted(ys, key=nkey)
            for k, (p, q) in enumerate(zip(xs, ys)):
                if nkey(p) != nkey(q):
                    return walk(p, q, f"{path}[{k}]")
        return f"{path}: {cval(x)[:150]} != {cval(y)[:150]}"
    return walk(va, vb, "")


def norm_path(d):
    d = d or ""
    path = d.split(":")[0] if ": " in d else d
    path = re.sub(r"\[\d+\]", "[]", path)
    parts = [p for p in path.split("/") if p]
    return "/".join(parts[-3:])


def oracle_store(store):
    """-> None or (signature, message)"""
    import aasgen
    before = strip_type(aasgen.canon_store(store))
    try:
        raw, back = write_read_store(store)
    except Exception as e:
        return (f"C04:store:raises:{type(e).__name__}", f"{type(e).__name__}: {str(e)[:300]}")
    after = strip_type(aasgen.canon_store(back))
    if sorted(before) != sorted(after):
        return ("C04:store:identifiables", f"ids before {sorted(before)} after {sorted(after)}")
    for i in before:
        if type(store.get_identifiable(i)) is not type(back.get_identifiable(i)):
            return ("C04:store:type", f"{i}: type changed")
        d = aasgen.diff(before[i], after[i], "")
        if d:
            return ("C04:store:diff:" + norm_path(d), d[:400])
        d = xdiff(store.get_identifiable(i), back.get_identifiable(i))
        if d:
            return ("C04:store:diff:" + norm_path(d), d[:400])
    return None


def single_roundtrip(obj, member):
    from lxml import etree
    from basyx.aas.adapter.xml import read_aas_xml_element, XMLConstructables
    from basyx.aas.adapter.xml.xml_serialization import object_to_xml_element
    el = object_to_xml_element(obj)
    # the single-object reader needs the namespace declaration on the element itself
    raw = etree.tostring(el, encoding="UTF-8", xml_declaration=True)
    _history_prelude(raw, member)
    return el, read_aas_xml_element(io.BytesIO(raw), getattr(XMLConstructables, member), failsafe=False)


def oracle_single(obj, member, twin=None):
    """twin: an equal object whose element tree is built before the first tree is serialised (two trees alive at the
    same time: a writer that shares prebuilt sub-elements between calls moves them out of the first tree)"""
    try:
        if twin is None:
            el, back = single_roundtrip(obj, member)
            pairs = [(obj, back)]
        else:
            from lxml import etree
            from basyx.aas.adapter.xml import read_aas_xml_element, XMLConstructables
            from basyx.aas.adapter.xml.xml_serialization import object_to_xml_element
            els = [object_to_xml_element(obj), object_to_xml_element(twin)]
            raws = [etree.tostring(e, encoding="UTF-8", xml_declaration=True) for e in els]
            _history_prelude(raws[0], member)
            backs = [read_aas_xml_element(io.BytesIO(r), getattr(XMLConstructables, member), failsafe=False)
                     for r in raws]
            pairs = [(obj, backs[0]), (twin, backs[1])]
    except Exception as e:
        return (f"C04:single:{member}:raises:{type(e).__name__}", f"{type(e).__name__}: {str(e)[:300]}")
    for o, b in pairs:
        bad = compare_single(o, b, member)
        if bad:
            return bad
    return None


def compare_single(obj, back, member):
    import aasgen
    if type(back) is not type(obj):
        return (f"C04:single:{member}:type", f"{type(obj).__name__} came back as {type(back).__name__}")
    if class_name(obj) in LSS_CLASSES + ["ValueList"]:
        # bare lang string sets / value lists are no aasgen.META classes, and ValueReferencePair has identity
        # equality: compare through this module's canonical form (unordered collections by membership)
        a, b = xval(_META[0], obj, set()), xval(_META[0], back, set())
        if nkey(a) != nkey(b):
            return (f"C04:single:{member}:diff:items", f"{cval(a)[:180]} != {cval(b)[:180]}")
        if class_name(obj) in LSS_CLASSES and list(obj.items()) != list(back.items()):
            return (f"C04:single:{member}:diff:order", "language order changed")
        return None
    d = aasgen.diff(strip_type(aasgen.canon(obj)), strip_type(aasgen.canon(back)), "") or xdiff(obj, back)
    if d:
        return (f"C04:single:{member}:diff:" + norm_path(d), d[:400])
    return None


# ------------------------------------------------------------------ generation

def case_rng(seed, kind, i):
    return random.Random(f"C04:{seed}:{kind}:{i}")


def sanitise(meta, obj, stats, seen=None):
    """AASd-100 (strings have at least one character) is not enforced by the SDK for four IEC 61360 attributes;
    empty strings there are outside the model space of C04 and are replaced by None."""
    from basyx.aas import model
    seen = seen if seen is not None else set()
    if id(obj) in seen or obj is None:
        return
    seen.add(id(obj))
    if isinstance(obj, model.base.DataSpecificationIEC61360):
        for a in IEC_STRS:
            if getattr(obj, a) == "":
                setattr(obj, a, None)
                stats["sanitised_empty_iec61360_strings"] = stats.get("sanitised_empty_iec61360_strings", 0) + 1
    cname = class_name(obj)
    for a, k in meta.cls.get(cname, []):
        kn = meta.kind_name(k)
        if cname == "ValueList" or a == "items":
            continue
        if kn == "KObj":
            v = getattr(obj, a)
            if v is not None and not isinstance(v, (set, frozenset, dict)) and class_name(v) in meta.cls \
                    and not hasattr(v, "items"):
                sanitise(meta, v, stats, seen)
        elif kn == "KList":
            for x in getattr(obj, a):
                sanitise(meta, x, stats, seen)


def gen_store_case(meta, seed, i, size, depth, stats, twins=False):
    """twins: every identifiable occurs a second time with equal content under another id, so that every element
    with a non-default value occurs at least twice in the document"""
    import aasgen
    from basyx.aas import model
    rng = case_rng(seed, "store", i)
    g = aasgen.Gen(rng, depth=depth, strings=rng.choice(["xml", "xml", "json", "plain"]), wide_lists=True)
    st = g.store(size)
    for o in st:
        sanitise(meta, o, stats)
    if twins:
        rng2 = case_rng(seed, "store", i)
        g2 = aasgen.Gen(rng2, depth=depth, strings=rng2.choice(["xml", "xml", "json", "plain"]), wide_lists=True)
        both = list(st)
        for o in g2.store(size):
            sanitise(meta, o, {})
            o.id = o.id + "#twin"
            both.append(o)
        st = model.DictObjectStore(both)
    return st, g.features


SINGLE_GEN = ["Key", "ExternalReference", "ModelReference", "AdministrativeInformation", "Qualifier", "Extension",
              "SpecificAssetId", "AssetInformation", "Resource", "ConceptDescription", "EmbeddedDataSpecification",
              "DataSpecificationIEC61360", "AssetAdministrationShell", "Submodel", "Property",
              "MultiLanguageProperty", "Range", "Blob", "File", "ReferenceElement", "SubmodelElementCollection",
              "SubmodelElementList", "RelationshipElement", "AnnotatedRelationshipElement", "Operation", "Capability",
              "Entity", "BasicEventElement"] + LSS_CLASSES + ["ValueList"]


def gen_single_case(meta, seed, i, depth, stats, cls=None):
    import aasgen
    from basyx.aas import model
    rng = case_rng(seed, "single", i)
    cname = cls or rng.choice(SINGLE_GEN + ["ValueReferencePair"])
    g = aasgen.Gen(rng, depth=depth, strings=rng.choice(["xml", "xml", "json", "plain"]), wide_lists=True)
    if cname == "ValueReferencePair":
        obj = model.ValueReferencePair(g.text(2000), g.ref())
    elif cname == "ValueList":
        obj = {model.ValueReferencePair(g.text(2000), g.ref()) for _ in range(rng.randint(1, 4))}
    elif cname in LSS_CLASSES:
        obj = g.lang(cname)
    else:
        obj = g.obj(cname)
    sanitise(meta, obj, stats)
    return cname, obj


# ------------------------------------------------------------------ metamodel cross checks

def meta_crosscheck(meta):
    """the hand-written Coq table vs. the SDK: constructor parameters, enumerations, truthiness of classes"""
    from basyx.aas import model
    import aasgen
    probs = []
    for cname, attrs in meta.cls.items():
        if cname in ("LangString", "ValueList") or cname.endswith("IEC61360") and cname != "DataSpecificationIEC61360" \
                or cname.startswith("MultiLanguage"):
            continue
        cls = getattr(model, cname, None) or getattr(model.base, cname)
        params = [p for p in inspect.signature(cls.__init__).parameters if p not in ("self", "parent")]
        norm = {p.rstrip("_") for p in params}
        if cname == "ModelReference":
            norm.discard("type")
        names = {a for a, _ in attrs}
        if norm != names:
            probs.append(f"{cname}: constructor-only {sorted(norm - names)}, table-only {sorted(names - norm)}")
        if "__bool__" in dir(cls) or "__len__" in dir(cls):
            probs.append(f"{cname} defines __bool__/__len__ (the model treats its instances as truthy)")
        # against the coordinator's independent table
        if cname in aasgen.META and {a for a, _ in aasgen.META[cname]} != names:
            probs.append(f"{cname}: differs from aasgen.META")
    enums = {"KeyTypes": None, "EntityType": "e_entity_type", "ModellingKind": None}
    want = {("Key", "type"): [m.name for m in model.KeyTypes if not m.name.startswith("_")],
            ("Entity", "entity_type"): [m.name for m in model.EntityType],
            ("Submodel", "kind"): [m.name for m in model.ModellingKind],
            ("AssetInformation", "asset_kind"): [m.name for m in model.AssetKind],
            ("Qualifier", "kind"): [m.name for m in model.QualifierKind],
            ("BasicEventElement", "direction"): [m.name for m in model.Direction],
            ("BasicEventElement", "state"): [m.name for m in model.StateOfEvent],
            ("DataSpecificationIEC61360", "data_type"): [m.name for m in model.base.DataTypeIEC61360],
            ("Property", "value_type"): sorted(meta.xsd_names.values()),
            ("SubmodelElementList", "type_value_list_element"):
                sorted(c.__name__ for c in model.KEY_TYPES_CLASSES if issubclass(c, model.SubmodelElement))}
    for (c, a), members in want.items():
        k = dict(meta.cls[c])[a]
        if sorted(k[1]) != sorted(members):
            probs.append(f"{c}.{a}: enumeration differs from the SDK's: {sorted(set(k[1]) ^ set(members))}")
    lv = dict(meta.cls["DataSpecificationIEC61360"])["level_types"][1]
    if sorted(lv) != sorted(m.name for m in model.base.IEC61360LevelType):
        probs.append("level types differ")
    return probs


# ------------------------------------------------------------------ the check

def load_tables(chk):
    ok, log = common.coq_make(["theories/model/XmlObs.vo"])
    if not ok:
        chk.tie_broken("model-build", log[-1500:])
        return None
    out = common.coq_eval("C04meta", PRELUDE, "(xml_meta, xml_w_single, single_triples, single_unsupported, compat_failures)")
    try:
        res = coq_parse(out)
        res = flat_tuple(res)
        meta_t, wsingle, striples, unsupported, failures = res
    except Exception as e:
        chk.tie_broken("model-eval", f"{type(e).__name__}: {e}: {out[-800:]}")
        return None
    _META[0] = Meta(meta_t)
    return _META[0], wsingle, striples, unsupported, failures


def triple_of(x):
    return flat_tuple(x)


def run(chk):
    from py2coq import xmlrules
    quick = chk.tier == "quick"
    # ---- tie T
    try:
        chk.notes.append(xmlrules.regenerate())
    except Exception as e:
        chk.tie_broken("translator", f"{type(e).__name__}: {e}")
    tabs = load_tables(chk)
    chk.theorems("props.C04", THEOREMS, ["theories/props/C04.vo", "theories/model/XmlObs.vo"])
    if tabs is None:
        return chk.finish(level="proof", rule="tables could not be evaluated")
    meta, wsingle, striples, unsupported, failures = tabs
    wsingle = {c: flat_tuple(v) for c, v in wsingle}
    members_of = {}
    for m, t in striples:
        fn, c, ctor = flat_tuple(t)
        members_of.setdefault(c, []).append(m)
    history_warmup(meta, chk.seed, members_of)
    chk.cov["single_object_api"] = {"supported_pairs": len(striples),
                                    "constructables_without_writer_support": unsupported}
    failures = [(tuple(flat_tuple(e)[:3]), flat_tuple(e)[3]) for e in failures]
    chk.cov["compat_failures"] = [[list(p), attrs] for p, attrs in failures]
    for p in meta_crosscheck(meta):
        chk.tie_broken("metamodel-table", p)
    stats = chk.hist
    seed = chk.seed

    # ---- directed search on incompatible rows (if any): objects of that class until the attribute is present
    directed = []
    for p, attrs in failures:
        fn, c, ctor = p
        for a in attrs:
            directed.append((c, a))

    # ---- oracle on whole stores
    n_store = 120 if quick else 1500
    for i in range(n_store):
        st, feats = gen_store_case(meta, seed, i, size=3, depth=3, stats=stats, twins=True)
        chk.seen(("store", i), nontrivial=True)
        for k, v in feats.items():
            chk.count("feature:" + k, v)
        for o in st:
            chk.count("top:" + type(o).__name__)
        bad = oracle_store(st)
        if bad:
            # shrink: one identifiable at a time
            from basyx.aas import model
            small = None
            for o in st:
                one = model.DictObjectStore([o])
                b2 = oracle_store(one)
                if b2:
                    small, bad = o.id, b2
                    break
            chk.fail(bad[0], bad[1], {"how": "tools/c04.py replay: gen_store_case(seed, i) -> write_aas_xml_file -> "
                                             "read_aas_xml_file(failsafe=False) -> aasgen.canon_store",
                                      "kind": "store", "i": i, "only_id": small, "diff": bad[1]})
    # ---- oracle on single objects of every supported class (+ directed ones)
    n_single = 600 if quick else 6000
    singles = []
    for i in range(n_single):
        cls = SINGLE_GEN[i % len(SINGLE_GEN)] if i < 4 * len(SINGLE_GEN) else None
        cname, obj = gen_single_case(meta, seed, i, depth=2, stats=stats, cls=cls)
        chk.seen(("single", i), nontrivial=True)
        chk.count("single:" + cname)
        _, twin = gen_single_case(meta, seed, i, depth=2, stats={}, cls=cls)      # same PRNG: an equal object
        for m in members_of.get(cname, []):
            bad = oracle_single(obj, m, twin)
            if bad:
                chk.fail(bad[0], bad[1], {"how": "tools/c04.py replay: gen_single_case(seed, i) twice -> object_to_xml_element"
                                                 " -> read_aas_xml_element(failsafe=False) -> aasgen.canon",
                                          "kind": "single", "i": i, "member": m, "class": cname, "diff": bad[1]})
        singles.append((i, cname, obj))
    for (c, a) in directed:
        if c not in SINGLE_GEN:
            continue
        for j in range(300):
            cname, obj = gen_single_case(meta, seed, 10 ** 6 + j, depth=1, stats={}, cls=c)
            v = getattr(obj, a, None)
            if v is None or (hasattr(v, "__len__") and not isinstance(v, (str, bytes)) and len(v) == 0):
                continue
            for m in members_of.get(cname, []):
                bad = oracle_single(obj, m)
                if bad:
                    chk.fail(bad[0], bad[1], {"kind": "single", "i": 10 ** 6 + j, "member": m, "class": cname,
                                              "directed": [c, a], "diff": bad[1]})
                    break
    # ---- constructables the reader offers but object_to_xml_element cannot produce (it raises)
    single_writer_gaps(chk, unsupported)
    # ---- every key type in every reference position (typed and untyped model references, external references)
    reference_stress(chk)
    # ---- long / extreme typed values in every value position
    value_stress(chk)
    blob_stress(chk)
    plain_history(chk, meta.table, seed, 12 if quick else 120)
    # ---- XML lexical stress through a Property / MultiLanguageProperty / File / Blob in one submodel
    lex_fail = lexical_stress(chk)

    # ---- tie C: enc / dec of the model against the SDK on the same objects
    enc_terms, dec_terms, wf_terms, index = [], [], [], []
    n_corr = 260 if quick else 1500
    from basyx.aas.adapter.xml.xml_serialization import object_to_xml_element
    for (i, cname, obj) in singles[:n_corr]:
        if cname not in wsingle or wsingle[cname][2]:
            continue
        fn, tag, _ = wsingle[cname]
        try:
            falsy = set()
            v = xval(meta, obj, falsy)
            el = object_to_xml_element(obj)
            tree = xml_abs(el)
        except Exception as e:
            chk.tie_broken("correspondence-observe", f"case {i} {cname}: {type(e).__name__}: {e}")
            continue
        ftab = ftable(falsy)
        enc_terms.append(f"({cstr(fn)}, {cstr(tag)}, {cval(v)}, {ftab}, {common.coq_z(zh(flat_xml(tree, [])))})")
        wf_terms.append(cval(v))
        for m in members_of.get(cname, [])[:1]:
            try:
                _, back = single_roundtrip(obj, m)
                rv = align(xval(meta, back, set()), v)
                ctor = [flat_tuple(t)[2] for mm, t in striples if mm == m and flat_tuple(t)[1] == cname][0]
                dec_terms.append(f"({cstr(ctor)}, {cxml(tree)}, {common.coq_z(zh(flat_val(rv, [])))})")
            except Exception as e:
                dec_terms.append(f"({cstr('?')}, {cxml(tree)}, 0)")
        index.append((i, cname))
    # hand-made documents for the xs:boolean lexical space read by _str_to_bool (orderRelevant, levelType children)
    nbool = 0
    for (i, cname, obj) in singles:
        if cname not in ("SubmodelElementList", "DataSpecificationIEC61360") or nbool >= (8 if quick else 40):
            continue
        try:
            v = xval(meta, obj, set())
            tree = xml_abs(object_to_xml_element(obj))
            m = members_of[cname][0]
            ctor = [flat_tuple(t)[2] for mm, t in striples if mm == m and flat_tuple(t)[1] == cname][0]
            variants = bool_variants(tree, cname)
        except Exception as e:
            chk.tie_broken("correspondence-observe", f"boolean case {i} {cname}: {type(e).__name__}: {e}")
            continue
        if not variants:
            continue
        nbool += 1
        for t2 in variants:
            chk.count("boolean_lexical_variant")
            dec_terms.append(f"({cstr(ctor)}, {cxml(t2)}, {common.coq_z(sdk_read_hash(meta, t2, m, v))})")
    # stores through write_store / read_store
    store_terms, read_terms, sidx = [], [], []
    from basyx.aas.adapter.xml.xml_serialization import object_store_to_xml_element
    for i in range(12 if quick else 80):
        st, _ = gen_store_case(meta, seed, 10 ** 5 + i, size=3, depth=1, stats={})
        try:
            falsy = set()
            vs = [xval(meta, o, falsy) for o in st]
            tree = xml_abs(object_store_to_xml_element(st))
            raw, back = write_read_store(st)
            # reader's result in document order
            doc_ids = [[k[1] for k in e[2] if k[0] == "id"][0] for lst in tree[2] for e in lst[2]]
            rvs = [align(xval(meta, back.get_identifiable(x), set()), [v for v in vs if dict(v[2])["id"] == ("str", x)][0])
                   for x in doc_ids]
        except Exception as e:
            chk.tie_broken("correspondence-observe", f"store case {i}: {type(e).__name__}: {e}")
            continue
        ftab = ftable(falsy)
        store_terms.append(f"([{'; '.join(cval(v) for v in vs)}], {ftab}, {common.coq_z(zh(flat_xml(tree, [])))})")
        read_terms.append(f"({cxml(tree)}, {common.coq_z(zh(flat_val(('list', rvs), [])))})")
        sidx.append(i)
    total = 0
    for tag, terms, fnname, shard in (("C04enc", enc_terms, "check_enc", 30), ("C04dec", dec_terms, "check_dec", 30),
                                      ("C04wf", wf_terms, "check_wf", 40), ("C04st", store_terms, "check_store", 4),
                                      ("C04rd", read_terms, "check_read", 4)):
        if not terms:
            continue
        bad, errs = common.run_mismatch_shards(tag, PRELUDE, terms, fnname, shard=shard, jobs=12)
        total += common.run_mismatch_shards.evaluated - len(bad)
        for e in errs:
            chk.tie_broken("correspondence-run", e[-800:])
        if bad:
            k = bad[0]
            which = index[k] if tag in ("C04enc", "C04dec", "C04wf") and k < len(index) else sidx[k] if k < len(sidx) else k
            detail = {"check": fnname, "n_disagreements": len(bad), "first_case": which}
            if tag == "C04enc":
                i, cname = index[k]
                _, obj = gen_single_case(meta, seed, i, depth=2, stats={}, cls=SINGLE_GEN[i % len(SINGLE_GEN)] if i < 4 * len(SINGLE_GEN) else None)
                from lxml import etree
                detail["sdk_xml"] = etree.tostring(object_to_xml_element(obj)).decode()[:1500]
                fn, tg, _ = wsingle[cname]
                fal = set()
                v = xval(meta, obj, fal)
                ftab = "[" + "; ".join(f"({cstr(a)}, {cstr(b)})" for a, b in sorted(fal)) + "]"
                detail["model_xml"] = common.coq_eval("C04dbg", PRELUDE, f"enc_obj (falsy_of {ftab}) gen_xml_w fuel {cstr(fn)} {cstr(tg)} {cval(v)}")[:1500]
            chk.tie_broken("correspondence", detail)
    chk.traces = total
    chk.samples = [{"kind": "single", "i": i, "class": c} for i, c in index[:4]] + \
                  [{"kind": "store", "i": 0, "ids": [o.id for o in gen_store_case(meta, seed, 0, 3, 3, {})[0]]}]
    chk.count("history:stripped_reads_before_strict_reads", HISTORY["stripped_reads"])
    chk.count("history:stripped_reads_raising", HISTORY["stripped_read_errors"])
    chk.trusted = [
        "Coq 8.16.1 kernel (coqc; vm_compute for compat over the whole generated tables, the Example and the correspondence)",
        "tools/py2coq/xmlrules.py (fail-closed ast translator; helper functions pinned by AST fingerprint) and the "
        "hand-written interpretation of the text/child helpers in model/XmlCodec.v, both validated by the enc/dec "
        "correspondence against the SDK on generated objects",
        "model/XmlMeta.v (metamodel attribute table; cross-checked against the SDK constructor signatures, the live "
        "enumerations and aasgen.META on every run); strings are non-empty by AASd-100",
        "lxml printing/parsing is the identity on (tag, text, children) trees with empty text == no text (exercised by "
        "the oracle incl. whitespace-only, CR, LF, TAB, '<', '&', ']]>', astral code points; not proved)",
        "typed XSD values are identified by (type, canonical literal): from_xsd(xsd_repr v) = v is property C06; "
        "base64 decode(encode b) = b",
        "tools/aasgen.py generator and canonicaliser (oracle), tools/c04.py, tools/common.py",
    ]
    chk.assumptions = ["AASd-100: every plain string attribute has at least one character (the SDK does not enforce it for "
                       "DataSpecificationIEC61360.unit/source_of_definition/symbol/value_format; such inputs are replaced "
                       "by None, counted in input_distribution.sanitised_empty_iec61360_strings)",
                       "ModelReference.type (Python typing aid) is not a metamodel attribute",
                       "a lang string set has unique languages (dict), so the reader's dict collapse is the identity"]
    return chk.finish(level="proof",
                      rule="per-case PRNG random.Random('C04:seed:kind:i'); stores of 3 identifiables at depth 3 from "
                           "aasgen.Gen (all classes, optional attributes present/absent, all XSD types with edge values, "
                           "lexical stress strings); single objects of 35 classes (incl. bare lang string sets and value lists) through every matching "
                           "XMLConstructables member; correspondence on the single objects (enc, dec, wf) and on small "
                           "stores (write_store/read_store); non-trivial = every case (distinct by kind and index)")


def reference_chains():
    """All short key chains over the whole KeyTypes enumeration that the SDK's Reference constructors accept
    (AASd-121..128 are enforced there, so the set follows the implementation): the domain of Key.type at the
    last / middle position of model and external references, which random generation covers only sparsely."""
    from basyx.aas import model
    KT = model.KeyTypes
    kts = [k for k in KT if not k.name.startswith("_")]
    cands = []
    for first in (KT.SUBMODEL, KT.ASSET_ADMINISTRATION_SHELL, KT.CONCEPT_DESCRIPTION, KT.GLOBAL_REFERENCE):
        cands.append([first])
        for k in kts:
            cands.append([first, k])
            for mid in (KT.FILE, KT.BLOB, KT.SUBMODEL_ELEMENT_LIST, KT.SUBMODEL_ELEMENT_COLLECTION, KT.ENTITY,
                        KT.FRAGMENT_REFERENCE, KT.GLOBAL_REFERENCE):
                cands.append([first, mid, k])
    out = []
    for n, chain in enumerate(cands):
        keys = tuple(model.Key(kt, "urn:x:%d" % n if j == 0 else ("3" if j and chain[j - 1] is KT.SUBMODEL_ELEMENT_LIST
                                                                  else "el%d" % j))
                     for j, kt in enumerate(chain))
        for mk in (lambda: model.ModelReference(keys, model.Referable), lambda: model.ExternalReference(keys)):
            try:
                out.append(mk())
            except Exception:       # AASConstraintViolation / ValueError: not a valid reference
                pass
    return out


def reference_store(ref, with_rs=None):
    """one submodel (+ shell, concept description) carrying `ref` in every reference-valued attribute it fits"""
    from basyx.aas import model
    D = model.datatypes
    is_model = isinstance(ref, model.ModelReference)
    if with_rs is not None:
        ref = type(ref)(ref.key, *([model.Referable] if is_model else []), referred_semantic_id=with_rs) \
            if not is_model else model.ModelReference(ref.key, model.Referable, with_rs)
    g = model.ExternalReference((model.Key(model.KeyTypes.GLOBAL_REFERENCE, "urn:g"),))
    sm_ref = model.ModelReference((model.Key(model.KeyTypes.SUBMODEL, "urn:refs:sm"),), model.Submodel)
    elems = [
        model.ReferenceElement("re", value=ref),
        model.RelationshipElement("rel", first=ref, second=ref),
        model.Property("p", D.Int, 0, value_id=ref, semantic_id=ref, supplemental_semantic_id=[g, ref],
                       qualifier=[model.Qualifier("q", D.Int, 0, value_id=ref, semantic_id=ref)]),
        model.BasicEventElement("ev", observed=ref if is_model else sm_ref, direction=model.Direction.OUTPUT,
                                state=model.StateOfEvent.ON, message_broker=ref),
        model.SubmodelElementList("l", model.ReferenceElement, semantic_id_list_element=ref,
                                  value=[model.ReferenceElement(None, value=ref)]),
    ]
    if is_model:
        elems.append(model.Capability("cap", extension=[model.Extension("x", D.String, "", refers_to=[ref, sm_ref])]))
    sm = model.Submodel("urn:refs:sm", submodel_element=elems, semantic_id=ref,
                        administration=model.AdministrativeInformation("1", creator=ref))
    objs = [sm]
    cd = model.ConceptDescription("urn:refs:cd", is_case_of={ref, g})
    objs.append(cd)
    if is_model:
        objs.append(model.AssetAdministrationShell(model.AssetInformation(global_asset_id="urn:a"), "urn:refs:aas",
                                                   submodel={ref, sm_ref}, derived_from=ref))
    else:
        cd.embedded_data_specifications.append(model.EmbeddedDataSpecification(
            ref, model.base.DataSpecificationIEC61360(model.PreferredNameTypeIEC61360({"en": "n"}), unit_id=ref)))
        objs.append(model.AssetAdministrationShell(model.AssetInformation(
            global_asset_id="urn:a", specific_asset_id=[model.SpecificAssetId("n", "v", external_subject_id=ref,
                                                                              semantic_id=ref)]), "urn:refs:aas"))
    return model.DictObjectStore(objs)


def reference_stress(chk, only=None):
    import logging
    prev = logging.root.manager.disable
    logging.disable(logging.WARNING)     # the reader warns about every last key that does not name the expected class
    try:
        _reference_stress(chk, only)
    finally:
        logging.disable(prev)


def _reference_stress(chk, only=None):
    refs = reference_chains()
    for k, ref in enumerate(refs):
        if only is not None and k != only:
            continue
        chk.seen(("ref", k), nontrivial=True)
        chk.count("reference_stress:" + type(ref).__name__)
        chk.count("reference_last_key:" + ref.key[-1].type.name)
        try:
            st = reference_store(ref, with_rs=refs[(k * 7 + 3) % len(refs)] if k % 3 == 0 else None)
        except Exception as e:          # the SDK refuses the reference in one of the positions: not a valid model
            chk.count("reference_stress_rejected_by_sdk:" + type(e).__name__)
            continue
        bad = oracle_store(st)
        if bad:
            chain = "/".join(x.type.name for x in ref.key)
            chk.fail(bad[0].replace("C04:store", "C04:refs"), f"{type(ref).__name__} {chain}: {bad[1]}",
                     {"kind": "refs", "k": k, "reference": chain, "class": type(ref).__name__, "diff": bad[1]})


def value_pool():
    """typed values whose literal is long or extreme: more significant digits than any arithmetic context default,
    long fractions, Decimals given in exponent form, integers beyond 64 bit, extreme doubles"""
    import decimal
    from basyx.aas import model
    D = model.datatypes
    dec = ["1234567890123456789012345678.9", "12345678901234567890123456789", "0." + "0" * 30 + "1234567890123456789",
           "-" + "9" * 45 + "." + "9" * 15, "3." + "1415926535897932384626433832795028841971693993751058209749445923",
           "1E+40", "-1.5E+35", "1E-40", "7" * 60, "0.1" + "0" * 40 + "1", "100000000000000000000000000001E-29"]
    pool = [(D.Decimal, decimal.Decimal(x)) for x in dec]
    pool += [(D.Integer, D.Integer(x)) for x in (10 ** 40 + 1, -(10 ** 60) - 7, 2 ** 64, -2 ** 63 - 1)]
    pool += [(D.NonNegativeInteger, D.NonNegativeInteger(10 ** 30 + 3)), (D.PositiveInteger, D.PositiveInteger(10 ** 29 + 1)),
             (D.NonPositiveInteger, D.NonPositiveInteger(-10 ** 30 - 3)), (D.NegativeInteger, D.NegativeInteger(-10 ** 29 - 1)),
             (D.UnsignedLong, D.UnsignedLong(2 ** 64 - 1)), (D.Long, D.Long(-2 ** 63))]
    pool += [(D.Double, x) for x in (1.7976931348623157e308, 5e-324, 0.1 + 0.2, -2.2250738585072014e-308, 1e22, 123456789.12345679)]
    pool += [(D.Float, D.Float(x)) for x in (3.4028234663852886e38, 1.401298464324817e-45, 16777217.0, 0.30000001192092896)]
    # xs:duration: every field alone, every field together with a fractional second, some full combinations - each
    # with both signs (the sign belongs to the duration as a whole)
    fields = ["years", "months", "days", "hours", "minutes", "seconds", "microseconds"]
    combos = [{f: 3} for f in fields[:-1]] + [{"microseconds": 500000}, {"microseconds": 1}, {"microseconds": 999999}]
    combos += [{f: 2, "microseconds": 500000} for f in fields[:-1]]
    combos += [{"seconds": 1, "microseconds": 500000}, {"minutes": 1, "seconds": 1, "microseconds": 250000},
               {"years": 1, "months": 2, "days": 3, "hours": 4, "minutes": 5, "seconds": 6, "microseconds": 700000},
               {"years": 1, "seconds": 59, "microseconds": 999999}, {"days": 1, "microseconds": 1},
               {"hours": 23, "minutes": 59, "seconds": 59, "microseconds": 999999}, {"months": 11, "days": 30}]
    for c in combos:
        for sign in (1, -1):
            pool.append((D.Duration, D.Duration(**{k: sign * v for k, v in c.items()})))
    import datetime
    tz = datetime.timezone(datetime.timedelta(hours=-11, minutes=-30))
    pool += [(D.DateTime, x) for x in (datetime.datetime(1, 1, 1, 0, 0, 0, 1), datetime.datetime(9999, 12, 31, 23, 59, 59, 999999),
                                       datetime.datetime(2024, 2, 29, 12, 0, 0, 500000, tzinfo=tz),
                                       datetime.datetime(2000, 1, 1, tzinfo=datetime.timezone.utc))]
    # every string-like XSD type the SDK offers (xs:string, xs:anyURI, xs:normalizedString, ...) crossed with the whole
    # XML lexical stress list; values a type's constructor refuses are no members of its value space and are skipped
    for t in D.XSD_TYPE_NAMES:
        if isinstance(t, type) and issubclass(t, str):
            for x in LEX + ["", "a b", " a  b ", "http://example.org/a b", "urn:x\ty", "\r\n"]:
                try:
                    pool.append((t, t(x)))
                except (ValueError, TypeError):
                    pass
    return pool


def value_stress(chk, only=None):
    from basyx.aas import model
    pool = value_pool()
    for k, (t, v) in enumerate(pool):
        if only is not None and k != only:
            continue
        chk.seen(("value", k), nontrivial=True)
        chk.count("value_stress:" + t.__name__)
        try:
            elems = [model.Property("p", t, v, qualifier=[model.Qualifier("q", t, v)],
                                    extension=[model.Extension("e", t, v)]),
                     model.Range("r", t, min=v, max=v),
                     # the same values a second time in the same document
                     model.SubmodelElementCollection("c", value=[model.Property("p", t, v), model.Range("r", t, max=v)])]
            if t in (model.datatypes.Duration, model.datatypes.DateTime):
                # the two attributes of fixed XSD type: BasicEventElement.min_interval / max_interval, last_update
                obs = model.ModelReference((model.Key(model.KeyTypes.SUBMODEL, "urn:values:sm"),), model.Submodel)
                kw = dict(min_interval=v, max_interval=v) if t is model.datatypes.Duration else dict(last_update=v)
                try:
                    for name in ("ev", "ev2"):
                        elems.append(model.BasicEventElement(name, obs, model.Direction.OUTPUT, model.StateOfEvent.OFF,
                                                             **kw))
                    chk.count("value_stress_via_basic_event_element")
                except ValueError:      # e.g. last_update must be UTC: the value stays in the other positions
                    elems = [e for e in elems if not isinstance(e, model.BasicEventElement)]
            st = model.DictObjectStore([model.Submodel("urn:values:sm", submodel_element=elems,
                                                       qualifier=[model.Qualifier("q", t, v)])])
        except Exception as e:
            chk.count("value_stress_rejected_by_sdk:" + type(e).__name__ + ":" + str(e)[:60])
            continue
        bad = oracle_store(st)
        if bad:
            chk.fail(bad[0].replace("C04:store", "C04:values"), f"{t.__name__} {v!r}: {bad[1]}",
                     {"kind": "values", "k": k, "type": t.__name__, "value": repr(v), "diff": bad[1]})


BLOB_SIZES = [0, 1, 2, 3, 57, 65535, 65536, 65537, 98304, 131072, 200000]


def blob_stress(chk, only=None):
    """Blob values around every power-of-two buffer size up to 200 000 bytes (store and single-object API)"""
    from basyx.aas import model
    for k, n in enumerate(BLOB_SIZES):
        if only is not None and k != only:
            continue
        data = bytes((i * 31 + (i >> 8) * 7) % 256 for i in range(n))
        chk.seen(("blob", n), nontrivial=True)
        chk.count("blob_stress")
        mk = lambda: model.Blob("b", "application/octet-stream", value=data)
        st = model.DictObjectStore([model.Submodel("urn:blob:sm", submodel_element=[
            mk(), model.SubmodelElementCollection("c", value=[mk()])])])
        bad = oracle_store(st)
        if not bad:
            for m in ("BLOB", "DATA_ELEMENT", "SUBMODEL_ELEMENT"):
                bad = oracle_single(mk(), m, mk())
                if bad:
                    break
        if bad:
            chk.fail(re.sub(r"^C04:(store|single)", "C04:blob", bad[0]), f"Blob value of {n} bytes: {bad[1][:200]}",
                     {"kind": "blob", "k": k, "size": n})


def plain_history(chk, meta_table, seed, n):
    """the same store oracle in a fresh process that never performs a stripped read"""
    import subprocess
    import sys
    os.makedirs(common.BUILD, exist_ok=True)
    mpath = os.path.join(common.BUILD, "c04_meta.json")
    with open(mpath, "w") as fh:
        json.dump(meta_table, fh)
    p = subprocess.run([sys.executable, os.path.abspath(__file__), "--plain-history", mpath, str(seed), str(n)],
                       stdout=subprocess.PIPE, stderr=subprocess.PIPE, text=True, timeout=600)
    try:
        res = json.loads(p.stdout.strip().splitlines()[-1])
    except Exception:
        chk.tie_broken("plain-history-run", (p.stdout + p.stderr)[-800:])
        return
    chk.count("plain_history_stores", res["n"])
    for sig, what, i in res["failures"]:
        chk.fail(sig, what, {"kind": "store", "i": i, "only_id": None, "history": "plain", "diff": what})


def _plain_history_main(argv):
    mpath, seed, n = argv[0], int(argv[1]), int(argv[2])
    HISTORY["mode"] = "plain"
    meta = Meta(json.load(open(mpath)))
    fails = []
    for i in range(n):
        st, _ = gen_store_case(meta, seed, i, 3, 3, {}, twins=True)
        bad = oracle_store(st)
        if bad:
            fails.append([bad[0], bad[1], i])
    print(json.dumps({"n": n, "failures": fails}))


BOOL_TEXTS = ["true", "false", "1", "0", " true", "false ", "\n1\t", " 0 ", "\r\n true \r\n", "TRUE", "", " ", "yes",
              "t rue", "10", "true1"]


def bool_variants(tree, cname):
    """the tree with the text of its boolean leaf (orderRelevant / first levelType child) replaced by each BOOL_TEXTS"""
    tag, text, kids = tree
    out = []
    for txt in BOOL_TEXTS:
        t = txt if txt != "" else None
        if cname == "SubmodelElementList":
            if not any(k[0] == "orderRelevant" for k in kids):
                return []
            out.append((tag, text, [(k[0], t, k[2]) if k[0] == "orderRelevant" else k for k in kids]))
        else:
            lv = [k for k in kids if k[0] == "levelType"]
            if not lv or not lv[0][2]:
                return []
            first = lv[0][2][0]
            nlv = ("levelType", lv[0][1], [(first[0], t, first[2])] + lv[0][2][1:])
            out.append((tag, text, [nlv if k[0] == "levelType" else k for k in kids]))
    return out


def to_lxml(x):
    from lxml import etree
    el = etree.Element(NS + x[0], nsmap={"aas": NS[1:-1]})
    if x[1] is not None:
        el.text = x[1]
    for k in x[2]:
        el.append(to_lxml(k))
    return el


def sdk_read_hash(meta, tree, member, orig):
    """what the strict single-object reader makes of the document: hash of the value, or -1 (an exception)"""
    from lxml import etree
    from basyx.aas.adapter.xml import read_aas_xml_element, XMLConstructables
    raw = etree.tostring(to_lxml(tree), encoding="UTF-8", xml_declaration=True)
    try:
        back = read_aas_xml_element(io.BytesIO(raw), getattr(XMLConstructables, member), failsafe=False)
    except (KeyError, ValueError, TypeError):
        return -1
    return zh(flat_val(align(xval(meta, back, set()), orig), []))


def single_writer_gaps(chk, unsupported):
    from basyx.aas import model
    from basyx.aas.adapter.xml.xml_serialization import object_to_xml_element
    ref = model.ExternalReference((model.Key(model.KeyTypes.GLOBAL_REFERENCE, "urn:x"),))
    samples = {"MULTI_LANGUAGE_NAME_TYPE": model.MultiLanguageNameType({"en": "a"}),
               "MULTI_LANGUAGE_TEXT_TYPE": model.MultiLanguageTextType({"en": "a"}),
               "DEFINITION_TYPE_IEC61360": model.DefinitionTypeIEC61360({"en": "a"}),
               "PREFERRED_NAME_TYPE_IEC61360": model.PreferredNameTypeIEC61360({"en": "a"}),
               "SHORT_NAME_TYPE_IEC61360": model.ShortNameTypeIEC61360({"en": "a"}),
               "VALUE_LIST": {model.ValueReferencePair("v", ref)}}
    for m in unsupported:
        if m not in samples:
            continue            # SECURITY / IEC61360_CONCEPT_DESCRIPTION: no reader branch either (ValueError)
        chk.count("single_writer_gap_probe")
        try:
            el = object_to_xml_element(samples[m])
        except Exception as e:
            chk.fail(f"C04:single:{m}:writer-raises:{type(e).__name__}",
                     f"object_to_xml_element({type(samples[m]).__name__}) raises {type(e).__name__}: {e}",
                     {"kind": "gap", "member": m})
            continue
        bad = None
        try:
            import aasgen
            from lxml import etree
            from basyx.aas.adapter.xml import read_aas_xml_element, XMLConstructables
            back = read_aas_xml_element(io.BytesIO(etree.tostring(el)), getattr(XMLConstructables, m), failsafe=False)
            if m == "VALUE_LIST":
                same = sorted(x.value for x in back) == sorted(x.value for x in samples[m])
            else:
                same = type(back) is type(samples[m]) and dict(back.items()) == dict(samples[m].items())
            if not same:
                bad = "value changed"
        except Exception as e:
            bad = f"{type(e).__name__}: {e}"
        if bad:
            chk.fail(f"C04:single:{m}:roundtrip", bad, {"kind": "gap", "member": m})


LEX = [" leading", "trailing ", "  ", " ", "\t", "\n", "\r", "a\nb", "a\r\nb", "a\rb", "\ttab\t", "<tag>", "a&b", "]]>",
       "&amp;", "<![CDATA[x]]>", "\U00010000", "\U0001F600 astral", "�", "퟿", "a  b", "'\"", "x" * 300]


def lexical_stress(chk):
    from basyx.aas import model
    D = model.datatypes
    n = 0
    for k, s in enumerate(LEX):
        for pretty in (False, True):
            sm = model.Submodel("urn:lex", submodel_element=[
                model.Property("p", D.String, s),
                model.MultiLanguageProperty("m", value=model.MultiLanguageTextType({"en": s, "de": s + s})),
                model.Property("q", D.Int, 1, qualifier=[model.Qualifier(s[:128], D.String, s)]),
                model.Blob("b", "application/x", value=s.encode("utf-8")),
                model.SubmodelElementCollection("c", description=model.MultiLanguageTextType({"en": s}),
                                                value=[model.File("f", "text/plain", value=s)]),
            ], display_name=model.MultiLanguageNameType({"en": s[:64]}))
            st = model.DictObjectStore([sm])
            n += 1
            chk.seen(("lex", k, pretty), nontrivial=True)
            chk.count("lexical_stress")
            if pretty:
                from basyx.aas.adapter.xml import write_aas_xml_file, read_aas_xml_file
                import aasgen
                b = io.BytesIO()
                try:
                    write_aas_xml_file(b, st, pretty_print=True)
                    b.seek(0)
                    back = read_aas_xml_file(b, failsafe=False)
                    d = aasgen.diff(strip_type(aasgen.canon_store(st)), strip_type(aasgen.canon_store(back)), "")
                    bad = ("C04:lex:pretty:diff:" + norm_path(d), d[:300]) if d else None
                except Exception as e:
                    bad = (f"C04:lex:pretty:raises:{type(e).__name__}", str(e)[:300])
            else:
                bad = oracle_store(st)
            if bad:
                chk.fail(bad[0].replace("C04:store", "C04:lex"), f"string {s!r}: {bad[1]}",
                         {"kind": "lex", "k": k, "pretty": pretty, "string": s})
    return n


def replay(path):
    r = json.load(open(path))
    rp = r.get("replay") or {}
    seed = r.get("seed", 0)
    chk = common.Check("C04", "quick", seed)
    tabs = load_tables(chk)
    if tabs is None:
        print("cannot evaluate the tables:", chk.broken)
        return 1
    meta = tabs[0]
    if rp.get("history") == "plain":
        HISTORY["mode"] = "plain"
    mo = {}
    for m, t in tabs[2]:
        mo.setdefault(flat_tuple(t)[1], []).append(m)
    history_warmup(meta, seed, mo)
    if rp.get("kind") == "blob":
        c2 = common.Check("C04", "quick", seed)
        blob_stress(c2, only=rp["k"])
        print("oracle:", [f["what"][:300] for f in c2.failures])
        return 1 if c2.failures else 0
    if rp.get("history") == "plain":
        HISTORY["mode"] = "plain"
    if rp.get("kind") == "store":
        st, _ = gen_store_case(meta, seed, rp["i"], 3, 3, {}, twins=True)
        if rp.get("only_id"):
            from basyx.aas import model
            st = model.DictObjectStore([st.get_identifiable(rp["only_id"])])
        bad = oracle_store(st)
        print("oracle:", bad)
        return 1 if bad else 0
    if rp.get("kind") == "single":
        i = rp["i"]
        cls = rp.get("class") if i >= 10 ** 6 else (SINGLE_GEN[i % len(SINGLE_GEN)] if i < 4 * len(SINGLE_GEN) else None)
        cname, obj = gen_single_case(meta, seed, i, 1 if i >= 10 ** 6 else 2, {}, cls=cls)
        _, twin = gen_single_case(meta, seed, i, 1 if i >= 10 ** 6 else 2, {}, cls=cls)
        bad = oracle_single(obj, rp["member"], twin)
        print("oracle:", bad)
        return 1 if bad else 0
    if rp.get("kind") == "values":
        c2 = common.Check("C04", "quick", seed)
        value_stress(c2, only=rp["k"])
        print("oracle:", [f["what"][:300] for f in c2.failures])
        return 1 if c2.failures else 0
    if rp.get("kind") == "refs":
        c2 = common.Check("C04", "quick", seed)
        reference_stress(c2, only=rp["k"])
        print("oracle:", [f["what"][:300] for f in c2.failures])
        return 1 if c2.failures else 0
    if rp.get("kind") == "gap":
        c2 = common.Check("C04", "quick", seed)
        single_writer_gaps(c2, [rp["member"]])
        print("oracle:", [f["what"] for f in c2.failures])
        return 1 if c2.failures else 0
    if rp.get("kind") == "lex":
        c2 = common.Check("C04", "quick", seed)
        lexical_stress(c2)
        hit = [f for f in c2.failures if f["replay"]["k"] == rp["k"] and f["replay"]["pretty"] == rp["pretty"]]
        print("oracle:", hit[:1])
        return 1 if hit else 0
    print(json.dumps(r, indent=1)[:3000])
    return 1


if __name__ == "__main__":
    import sys
    if len(sys.argv) > 1 and sys.argv[1] == "--plain-history":
        _plain_history_main(sys.argv[2:])
