"""usage: seeded_keep.py <src dir> <id> <property> <caught-by> <needs...>  - copies patch.diff, demo.py, README.md and writes meta.json"""
import json, os, shutil, sys
src, sid, prop, caught = sys.argv[1:5]
needs = " ".join(sys.argv[5:])
dst = f"/verif/seeded/{sid}"
os.makedirs(dst, exist_ok=True)
for f in ("patch.diff", "demo.py", "README.md"):
    if os.path.exists(os.path.join(src, f)):
        shutil.copy(os.path.join(src, f), dst)
json.dump({"id": sid, "property": prop, "needs_to_manifest": needs,
           "verified": "tools/seeded_verify.sh: demo rc=0 on clean HEAD, baseline suite 210 passed with the patch, demo rc!=0 with the patch",
           "check_run": f"tools/seeded_run.sh seeded/{sid}/patch.diff {prop}", "result": caught},
          open(os.path.join(dst, "meta.json"), "w"), indent=1)
print("kept", dst)
