#!/bin/bash
# usage: tools/seeded_recheck.sh <id>...   re-runs the owning check on kept seeded changes and appends the outcome to meta.json
# <id>@<Cyy> runs property Cyy's check instead (a change whose violation belongs to another property's clause)
for arg in "$@"; do
  id="${arg%@*}"; pid="${id%-*}"; key="recheck"
  case "$arg" in *@*) pid="${arg#*@}"; key="recheck_$pid";; esac
  pf=/verif/seeded/$id/patch.diff; [ -f /verif/seeded/$id/patch_rebased.diff ] && pf=/verif/seeded/$id/patch_rebased.diff
  out=$(/verif/tools/seeded_run.sh $pf $pid 2>&1)
  rc=$(echo "$out" | grep -o "SEEDED-RESULT rc=[0-9]*" | tail -1)
  nv=$(echo "$out" | grep -c "^VIOLATION")
  nf=$(echo "$out" | grep -c "no-failing-input-found")
  first=$(echo "$out" | grep "^VIOLATION" | head -1 | sed 's#/tmp/seedrun-[0-9]*-verif/replays/##')
  line=$(echo "$out" | grep "^\[$pid\]" | tail -1)
  echo "$arg: $rc violations=$nv no-failing-input=$nf :: $first"
  python3 - "$id" "$rc" "$nv" "$nf" "$first" "$line" "$key" "$pid" <<'PY'
import json,sys
id_,rc,nv,nf,first,line,key,pid=sys.argv[1:9]
p=f"/verif/seeded/{id_}/meta.json"
m=json.load(open(p))
m[key]={"check":pid,"result":rc,"violation_lines":int(nv),"no_failing_input_found":int(nf),"first":first,"summary":line}
json.dump(m,open(p,"w"),indent=1)
PY
done
