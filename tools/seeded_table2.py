"""usage: seeded_table2.py <round>  - markdown table of the kept seeded changes of round >= 6 from seeded/*/meta.json
(fields first_result, result_now, first_violation_lines, violation_lines_now)"""
import glob
import json
import sys

rnd = int(sys.argv[1])
rows, st = [], {}
for d in sorted(glob.glob("/verif/seeded/C*-*"), key=lambda d: (d.split("/")[-1].split("-")[0], int(d.split("-")[-1]))):
    m = json.load(open(d + "/meta.json"))
    if m.get("round") != rnd:
        continue
    first = m.get("first_result", "")
    now = m.get("result_now", first)
    lines = m.get("violation_lines_now") or m.get("first_violation_lines") or []
    rep = (lines[0].split("replays/")[-1].split(" ")[0][:70]) if lines and "caught" in now else ""
    st[first.split(" (")[0]] = st.get(first.split(" (")[0], 0) + 1
    st["now:" + now.split(" (")[0]] = st.get("now:" + now.split(" (")[0], 0) + 1
    needs = " ".join(m.get("needs_to_manifest", "").split()).replace("|", "/")[:160]
    rows.append(f"| {m['id']} | {needs} | {first.replace('caught with a concrete replay', 'caught')} | "
                f"{now.replace('caught with a concrete replay', 'replay')} {('`' + rep + '`') if rep else ''} |")
print("| id | needs, to manifest | first | now |")
print("|---|---|---|---|")
print("\n".join(rows))
print()
print(f"<!-- round {rnd}: {len(rows)} changes; {st} -->")
