"""C15 - a failed or interrupted write never corrupts or loses a stored object.

Theorems: coq/theories/props/C15.v over model/Crash.v.
Tie C (fault-injection correspondence): every case runs LocalFileObjectStore.add / Referable.commit
in a forked child in which builtins.open (write modes), the returned file object's write/close,
os.path.exists, os.replace, os.remove and json.dumps are wrapped so that the k-th effect raises or
the process os._exit()s with a chosen prefix of the buffered data flushed.  The effect list the
real code performed, its outcome, the resulting directory and the answers of a freshly opened
store are compared with the model's run / recover (vm_compute).
Property oracle (independent of the model): after every fault other files are byte-identical, the
id is absent or holds the complete old or new object, a fresh store answers len/iter/contains/get,
a failed add is not contained and has no source."""
import errno
import io
import json
import os
import sys

import common
import lf_common as L

THEOREMS = ["C15_safe", "C15_add_safe", "C15_commit_safe", "C15_add_reports", "C15_commit_reports",
            "C15_add_done", "C15_commit_done", "C15_history", "C15_truncating_add_refuted",
            "C15_truncating_commit_refuted", "C15_truncating_crash_refuted", "C15_example",
            "C15_concurrent_safe", "C15_concurrent_shared_name_refuted", "C15_concurrent_example"]

NKEYS = 5
OTHER_NAMES = ["README.txt", "notes.json.bak", "0" * 64 + ".json.999-1.tmp"]
EFFECTS = {"add": ["exists", "encode", "open", "write", "close", "replace", "cache", "source"],
           "commit": ["encode", "open", "write", "close", "replace"]}
EXC = {1: lambda: OSError(errno.ENOSPC, "No space left on device (injected)"),
       2: lambda: KeyError("injected"), 3: lambda: ValueError("injected"),
       4: lambda: TypeError("injected"), 9: lambda: RuntimeError("injected")}


def ids_of(case):
    base = case.get("ids", 0)
    return [L.IDS[(base + i) % len(L.IDS)] + (f"#{i}" if base + i >= len(L.IDS) else "") for i in range(NKEYS)]


# ---------------------------------------------------------------- child side: patched effects

class Harness:
    def __init__(self, case, dirpath, hash2key, wfd):
        self.F = case["F"]
        self.fc = case["fc"]
        self.i = 0
        self.trace = []
        self.dir = dirpath
        self.hash2key = hash2key
        self.open_files = []
        self.wfd = wfd
        self.tmp_suffix = ".{}-{}.tmp".format(os.getpid(), __import__("threading").get_ident())
        self.report = {"pid": os.getpid()}
        self.active = True
        self.short = case.get("short")      # the file system has room for this many more bytes (None: unlimited)
        self.intruder = None                # (effect position, callable): another store instance acts just before it

    def fname(self, path):
        path = os.fspath(path)
        d, base = os.path.split(path)
        if os.path.realpath(d) != os.path.realpath(self.dir):
            return None
        for h, k in self.hash2key.items():
            if base == h:
                return [1, k]
            if base == h + self.tmp_suffix:
                return [2, k]
        if base in OTHER_NAMES:
            return [3, OTHER_NAMES.index(base)]
        return [3, 99]

    def send(self):
        self.report["trace"] = self.trace
        data = json.dumps(self.report).encode() + b"\n"
        os.write(self.wfd, data)

    def crash(self, fl, extra=None):
        for fp in self.open_files:
            fp.flush_prefix(fl, extra if extra is not None and extra[0] is fp else None)
            fp.real.flush()
        self.report["outcome"] = [2]
        self.send()
        os._exit(17)

    def effect(self, e, cleanup=False, writer=None, data=None):
        """log effect e, return the fault that hits it (crashes do not return)"""
        if not self.active:
            return ["n"]
        if not cleanup and self.intruder is not None and self.i == self.intruder[0]:
            # the interleaving point: before this effect of the writer another store instance on the same directory
            # performs a complete operation of its own (its I/O is neither logged nor hit by faults)
            act, self.intruder = self.intruder[1], None
            self.active = False
            try:
                act()
            finally:
                self.active = True
        if cleanup:
            fk = self.fc
        else:
            fk = self.F[self.i] if self.i < len(self.F) else ["n"]
            self.i += 1
        if fk[0] == "c":
            self.crash(fk[1], (writer, data) if writer is not None else None)
        self.trace.append(e)
        return fk


class FaultyRaw(io.RawIOBase):
    """raw file whose device has room for `room` more bytes: write(2) stores what fits and returns the short
    count; once nothing fits it fails with ENOSPC - the way a full disk / a size limit behaves.  Python's
    buffered and text layers are stacked on it unchanged (see p_open), so whatever the SDK does with short counts
    is exercised for real."""

    def __init__(self, fd, room):
        super().__init__()
        self.fd, self.room = fd, room

    def writable(self):
        return True

    def fileno(self):
        return self.fd

    def write(self, b):
        b = bytes(b)
        if not b:
            return 0
        if self.room <= 0:
            raise OSError(errno.ENOSPC, "No space left on device (injected)")
        n = min(len(b), self.room)
        os.write(self.fd, b[:n])
        self.room -= n
        return n

    def close(self):
        if not self.closed:
            try:
                os.close(self.fd)
            finally:
                super().close()


def layered_open(path, mode, buffering, room, encoding=None, errors=None, newline=None):
    """what open(path, mode, buffering) builds for a write mode, on top of a FaultyRaw"""
    flags = os.O_WRONLY | os.O_CREAT | (os.O_APPEND if "a" in mode else os.O_TRUNC)
    if "x" in mode:
        flags |= os.O_EXCL
    raw = FaultyRaw(os.open(path, flags, 0o666), room)
    binary = "b" in mode
    if buffering == 0:
        if not binary:
            raise ValueError("can't have unbuffered text I/O")
        return raw
    buf = io.BufferedWriter(raw, buffering if buffering > 1 else io.DEFAULT_BUFFER_SIZE)
    if binary:
        return buf
    return io.TextIOWrapper(buf, encoding=encoding, errors=errors, newline=newline, line_buffering=(buffering == 1))


class FileProxy:
    """the object the SDK gets from open(): logs write/close as effects and applies the fault that hits them.
    passthrough=False: data is held back and reaches the real file at close (or as the prefix a fault names);
    passthrough=True (short-write cases): every call goes straight to the real layered file on a FaultyRaw."""

    def __init__(self, H, real, name, passthrough=False):
        self.H, self.real, self.name, self.passthrough = H, real, name, passthrough
        self.buf = []
        self.dead = False
        H.open_files.append(self)

    def flush_prefix(self, fl, extra=None):
        if self.passthrough:
            return
        parts = list(self.buf) + ([extra[1]] if extra is not None else [])
        if not parts:
            return
        data = parts[0][:0].join(parts)
        self.real.write(data if fl is None else data[:fl])

    def write(self, data):
        fk = self.H.effect([4] + self.name, writer=self, data=data)
        if fk[0] == "r":
            self.flush_prefix(fk[2], (self, data))
            self._finish()
            raise EXC[fk[1]]()
        if self.passthrough:
            try:
                return self.real.write(data)
            except OSError:
                self.H.report["raised_at"] = "write"
                self._finish()
                raise
        self.buf.append(data)
        return len(data)

    def _finish(self):
        self.dead = True
        if self in self.H.open_files:
            self.H.open_files.remove(self)
        try:
            self.real.close()
        except OSError:
            pass

    def close(self):
        if self.dead:
            return
        fk = self.H.effect([5] + self.name)
        if fk[0] == "r":
            self.flush_prefix(fk[2])
            self._finish()
            raise EXC[fk[1]]()
        if self.passthrough:
            self.dead = True
            if self in self.H.open_files:
                self.H.open_files.remove(self)
            try:
                self.real.close()
            except OSError:
                self.H.report["raised_at"] = "close"
                raise
            return
        self.flush_prefix(None)
        self._finish()

    def __enter__(self):
        return self

    def __exit__(self, *a):
        self.close()
        return False

    def __getattr__(self, n):
        return getattr(self.real, n)


def install(H):
    import builtins
    import weakref
    saved = {"open": builtins.open, "exists": os.path.exists, "replace": os.replace, "remove": os.remove,
             "dumps": json.dumps, "rename": os.rename, "unlink": os.unlink, "dump": json.dump}
    real_open = builtins.open

    def p_open(file, mode="r", *a, **k):
        nm = H.fname(file) if isinstance(file, (str, bytes, os.PathLike)) else None
        if nm is None or not any(c in mode for c in "wax+"):
            return real_open(file, mode, *a, **k)
        fk = H.effect([3] + nm)
        if fk[0] == "r":
            raise EXC[fk[1]]()
        if H.short is not None:
            buffering = a[0] if a else k.get("buffering", -1)
            return FileProxy(H, layered_open(file, mode, buffering, H.short, k.get("encoding"), k.get("errors"),
                                             k.get("newline")), nm, passthrough=True)
        return FileProxy(H, real_open(file, mode, *a, **k), nm)

    def p_exists(path):
        nm = H.fname(path)
        if nm is None:
            return saved["exists"](path)
        fk = H.effect([1] + nm)
        if fk[0] == "r":
            raise EXC[fk[1]]()
        return saved["exists"](path)

    def p_replace(a, b, **k):
        na, nb = H.fname(a), H.fname(b)
        if na is None or nb is None:
            return saved["replace"](a, b, **k)
        fk = H.effect([6] + na + nb)
        if fk[0] == "r":
            raise EXC[fk[1]]()
        return saved["replace"](a, b, **k)

    def p_remove(path, **k):
        nm = H.fname(path)
        if nm is None:
            return saved["remove"](path, **k)
        fk = H.effect([7] + nm, cleanup=True)
        if fk[0] == "r":
            raise EXC[fk[1]]()
        return saved["remove"](path, **k)

    def p_dumps(obj, *a, **k):
        if k.get("cls") is None:
            return saved["dumps"](obj, *a, **k)
        fk = H.effect([2])
        if fk[0] == "r":
            raise EXC[fk[1]]()
        return saved["dumps"](obj, *a, **k)

    def p_dump(obj, fp, *a, **k):       # the streaming encoder is not part of the modelled procedure
        H.trace.append([90])
        return saved["dump"](obj, fp, *a, **k)

    def p_rename(a, b, **k):
        H.trace.append([91])
        return saved["rename"](a, b, **k)

    builtins.open = p_open
    os.path.exists = p_exists
    os.replace = p_replace
    os.remove = p_remove
    os.unlink = p_remove
    os.rename = p_rename
    json.dumps = p_dumps
    json.dump = p_dump

    def uninstall():
        builtins.open = saved["open"]
        os.path.exists = saved["exists"]
        os.replace = saved["replace"]
        os.remove = saved["remove"]
        os.unlink = saved["unlink"]
        os.rename = saved["rename"]
        json.dumps = saved["dumps"]
        json.dump = saved["dump"]

    class LoggingCache(weakref.WeakValueDictionary):
        def __setitem__(self, key, value):
            fk = H.effect([8])
            if fk[0] == "r":
                raise EXC[fk[1]]()
            super().__setitem__(key, value)
    return uninstall, LoggingCache


# ---------------------------------------------------------------- answers of a store instance

CALL_LIMIT = 2.5     # seconds one SDK call may take before it counts as "does not return"


def answers(store, idlist, table):
    """[per key: contains + get answer], len, iter (sorted by key) - integers only.  Every call has its own time
    limit; after the first call that does not return the remaining ones are not tried ([-7])."""
    def token(obj):
        c = L.canon(obj)
        return table.index(c) if c in table else 98
    hang = []

    def timed(what, f):
        if hang:
            raise L.Hang()
        try:
            with L.deadline(CALL_LIMIT):
                return f()
        except L.Hang:
            hang.append(what)
            raise
    per = []
    for k, idn in enumerate(idlist):
        try:
            row = [1 if timed("contains", lambda: idn in store) else 0]
        except L.Hang:
            row = [-7]
        except Exception as e:
            row = [-1, L.exc_code(e)]
        try:
            row += [1, token(timed("get_identifiable", lambda: store.get_identifiable(idn)))]
        except L.Hang:
            row += [-7]
        except KeyError:
            row += [2]
        except json.JSONDecodeError:
            row += [3]
        except Exception as e:
            row += [9, L.exc_code(e)]
        per.append(row)
    try:
        ln = [timed("len", lambda: len(store))]
    except L.Hang:
        ln = [-7]
    except Exception as e:
        ln = [-1, L.exc_code(e)]
    try:
        objs = timed("iteration", lambda: list(store))
        pairs = sorted((idlist.index(o.id) if o.id in idlist else 99, token(o)) for o in objs)
        it = [1] + [x for p in pairs for x in p]
    except L.Hang:
        it = [-7]
    except Exception as e:
        it = [0]
    return {"per": per, "len": ln, "iter": it, "hang": hang[:1]}


# ---------------------------------------------------------------- one case on the SDK

def snapshot(d):
    res = {}
    for n in os.listdir(d):
        with open(os.path.join(d, n), "rb") as f:
            res[n] = f.read()
    return res


def run_sdk(case):
    """Runs one case against the SDK.  Returns dict(obs=..., d0=..., fail=(sig, msg) or None)."""
    from basyx.aas.backend import local_file
    idlist = ids_of(case)
    hash2key = {L.doc_name(i): k for k, i in enumerate(idlist)}
    d = L.scratch_dir("c15")

    def reap(kill):
        pass
    try:
        store = local_file.LocalFileObjectStore(d)
        table = []          # version tokens: index -> canonical form

        def tok(obj):
            c = L.canon(obj)
            if c not in table:
                table.append(c)
            return table.index(c)
        d0 = []
        for (k, kind, v) in case["others"]:
            o = L.make_object(kind, idlist[k], v)
            store.add(o)
            d0.append(([1, k], [1, tok(o)]))
        key = case["key"]
        old_tok = None
        obj = None
        if case["pre"] is not None:
            kind0, v0 = case["pre"]
            obj_old = L.make_object(kind0, idlist[key], v0)
            store.add(obj_old)
            old_tok = tok(obj_old)
            if not case.get("commit_missing"):
                d0.append(([1, key], [1, old_tok]))
        if case["op"] == "add":
            obj = L.make_object(case["kind"], idlist[key], case["v_new"])
        else:
            obj = obj_old
            obj.id_short = "V{}".format(case["v_new"])
            obj.category = "cat{}".format(case["v_new"])
            if case["kind"] in L.BAD_KINDS:
                L.make_bad_in_place(obj, case["kind"])
            if case.get("commit_missing"):
                os.remove(os.path.join(d, L.doc_name(idlist[key])))
        bad = case["kind"] in L.BAD_KINDS
        new_tok = None
        if not bad:
            new_tok = tok(obj)
        # another store instance working on the same directory (another worker/service): just before effect number
        # intr["at"] of the write under test it adds an object of its own with the SAME id (complete, un-faulted)
        intr = case.get("intr")
        iobj = intr_tok = None
        if intr is not None:
            iobj = L.make_object(intr["kind"], idlist[key], intr["v"])
            intr_tok = tok(iobj)
        for (n, size) in case["extra"]:
            with open(os.path.join(d, OTHER_NAMES[n]), "wb") as f:
                f.write(b"#" * size)
            d0.append(([3, n], [2, size]))
        before = snapshot(d)
        source_before = obj.source
        # ---- child
        rfd, wfd = os.pipe()
        gor, gow = os.pipe()        # parent -> child: "the directory has been inspected, now retry"
        sys.stdout.flush()
        sys.stderr.flush()
        pid = os.fork()
        if pid == 0:
            try:
                os.close(rfd)
                os.close(gow)
                H = Harness(case, d, hash2key, wfd)
                if case.get("stale_tmp") is not None:
                    with open(os.path.join(d, L.doc_name(idlist[key]) + H.tmp_suffix), "wb") as f:
                        f.write(b"%" * case["stale_tmp"])
                uninstall, LoggingCache = install(H)
                cstore = local_file.LocalFileObjectStore(d)
                cstore._object_cache = LoggingCache()
                real_gs = cstore.generate_source

                def gs(x):
                    fk = H.effect([9])
                    if fk[0] == "r":
                        raise EXC[fk[1]]()
                    return real_gs(x)
                cstore.generate_source = gs
                if intr is not None:
                    import threading as _threading
                    istore = local_file.LocalFileObjectStore(d)

                    def run_intruder():
                        # in a thread of its own: like another worker it has its own temporary-file name
                        res = {}

                        def body():
                            try:
                                istore.add(iobj)
                                res["outcome"] = [0]
                            except BaseException as e:   # noqa
                                res["outcome"] = [1, L.exc_code(e)]
                                res["exc"] = "{}: {}".format(type(e).__name__, e)[:200]
                        t = _threading.Thread(target=body, daemon=True)
                        t.start()
                        t.join(3 * CALL_LIMIT)
                        res.setdefault("outcome", [7])
                        H.report["intr"] = res
                    H.intruder = (intr["at"], run_intruder)
                try:
                    with L.deadline(3 * CALL_LIMIT):
                        if case["op"] == "add":
                            cstore.add(obj)
                        else:
                            obj.commit()
                    H.report["outcome"] = [0]
                except L.Hang:
                    H.report["outcome"] = [7]
                except BaseException as e:   # noqa
                    H.report["outcome"] = [1, L.exc_code(e)]
                    H.report["exc"] = "{}: {}".format(type(e).__name__, e)[:200]
                H.active = False
                uninstall()
                del cstore.generate_source
                H.report["marks"] = [1 if obj.id in cstore._object_cache else 0,
                                     1 if obj.source != source_before else 0]
                H.report["source"] = obj.source
                # (asked through the child's own instance, which holds no replica of a committed object: a lookup
                # through the instance that does would refresh it, i.e. undo the change that is to be retried)
                H.report["same"] = answers(cstore, idlist, table)
                H.report["table_len"] = len(table)
                if intr is not None and H.report.get("intr", {}).get("outcome") == [0]:
                    # the handle of the object the other instance stored: still marked, still refreshable
                    H.report["intr"]["source"] = iobj.source
                    try:
                        with L.deadline(CALL_LIMIT):
                            iobj.update()
                        H.report["intr"]["update"] = None
                    except BaseException as e:   # noqa
                        H.report["intr"]["update"] = "{}: {}".format(type(e).__name__, e)[:200]
                H.send()
                # ---- second phase: once the parent has inspected the directory, the SAME operation with the same
                # content is retried on the same instance (no fault this time) and the instance is asked again
                import select as _select
                if _select.select([gor], [], [], 40 * CALL_LIMIT)[0] and os.read(gor, 1) == b"g":
                    r2 = {}
                    try:
                        with L.deadline(3 * CALL_LIMIT):
                            if case["op"] == "add":
                                cstore.add(obj)
                            else:
                                obj.commit()
                        r2["outcome"] = [0]
                    except L.Hang:
                        r2["outcome"] = [7]
                    except BaseException as e:   # noqa
                        r2["outcome"] = [1, L.exc_code(e)]
                        r2["exc"] = "{}: {}".format(type(e).__name__, e)[:200]
                    r2["source"] = obj.source
                    r2["same"] = answers(cstore, idlist, table)
                    os.write(wfd, json.dumps(r2).encode() + b"\n")
            except BaseException as e:   # noqa  (harness failure inside the child)
                try:
                    os.write(wfd, json.dumps({"child_error": repr(e)}).encode())
                except Exception:
                    pass
            os._exit(0)
        os.close(wfd)
        os.close(gor)
        import select
        import signal
        import time
        buf = [b""]

        def read_line(limit):
            """one report line of the child, None if it does not come within the limit / the child is gone"""
            t_end = time.time() + limit
            while b"\n" not in buf[0]:
                left = t_end - time.time()
                if left <= 0 or not select.select([rfd], [], [], left)[0]:
                    return None
                b = os.read(rfd, 65536)
                if not b:
                    return None
                buf[0] += b
            line, buf[0] = buf[0].split(b"\n", 1)
            return json.loads(line.decode())

        reaped = []

        def reap(kill):
            if reaped:
                return
            reaped.append(1)
            if kill:
                try:
                    os.kill(pid, signal.SIGKILL)      # never leave the child behind
                except ProcessLookupError:
                    pass
            os.waitpid(pid, 0)
        rep = read_line(20 * CALL_LIMIT)
        status = None
        if rep is None:
            rep = {"pid": pid, "outcome": [7], "trace": [], "killed": True}
        if "child_error" in rep or "outcome" not in rep:
            raise RuntimeError("child failed: {} status={}".format(rep, status))
        tmp_suffix = ".{}-{}.tmp".format(rep["pid"], __import__("threading").get_ident())
        if case.get("stale_tmp") is not None:
            d0.append(([2, key], [2, case["stale_tmp"]]))
        # ---- directory after
        after = snapshot(d)

        def classify(name, raw):
            try:
                from basyx.aas.adapter.json import json_deserialization
                o = json.loads(raw.decode("utf-8"), cls=json_deserialization.AASFromJsonDecoder)["data"]
                c = L.canon(o)
                return [1, table.index(c)] if c in table else [1, 98]
            except Exception:
                return [2, len(raw)]
        names = [[1, k] for k in range(NKEYS)] + [[2, key]] + [[3, n] for n in range(len(OTHER_NAMES))]
        real = {}
        unknown = []
        for n, raw in after.items():
            if n in hash2key:
                real[(1, hash2key[n])] = classify(n, raw)
            elif n == L.doc_name(idlist[key]) + tmp_suffix:
                real[(2, key)] = classify(n, raw)
            elif n in OTHER_NAMES:
                real[(3, OTHER_NAMES.index(n))] = classify(n, raw)
            else:
                unknown.append(n)
        disk_row = []
        for nm in names:
            disk_row += real.get(tuple(nm), [0]) + [-1]
        fresh = answers(local_file.LocalFileObjectStore(d), idlist, table)
        crashed = rep["outcome"] == [2]
        hung = rep["outcome"] == [7]
        obs = [rep["outcome"],
               [x for e in rep["trace"] for x in e + [-1]],
               [2, 2] if crashed else rep.get("marks", [7, 7]),
               disk_row,
               [x for r in fresh["per"] for x in r + [-1]],
               fresh["len"],
               fresh["iter"]]
        # ---- property oracle (independent of the model)
        fail = None
        bad = case["kind"] in L.BAD_KINDS
        intr_rep = rep.get("intr") if intr is not None else None
        intr_stored = bool(intr_rep and intr_rep["outcome"] == [0])     # the other instance's add() returned

        def flag(what, msg):
            nonlocal fail
            if fail is None:
                if intr is not None:
                    msg += " [another store instance on the same directory add()ed the same id just before effect " \
                           "{} of the write: {}]".format(intr["at"], intr_rep)
                kindf = "none"
                if case.get("short") is not None:
                    kindf = "device-full"
                for i, fk in enumerate(case["F"]):
                    if fk[0] != "n":
                        kindf = {"r": "exception-injected", "c": "process-dies"}[fk[0]]
                        break
                pk = "bad-payload" if bad else "good-payload"
                if intr is not None:
                    kindf += "+other-instance"
                fail = ("C15:{}:{}:{}:{}".format(case["op"], pk, kindf, what), msg)
        docname = L.doc_name(idlist[key])
        is_new = False

        def judge(after, fresh, how):
            """the property's demands on a directory state and on what a store opened in the way `how` answers"""
            nonlocal is_new
            for n, raw in before.items():
                if n != docname and n in hash2key and after.get(n) != raw:
                    flag("other-document-changed", "{}: document {} changed or vanished".format(how, n))
                if n != docname and n not in hash2key and not n.endswith(".tmp") and after.get(n) != raw:
                    flag("other-file-changed", "{}: file {} changed or vanished".format(how, n))
            for n in after:
                if n not in before and n != docname and not n.endswith(".tmp"):
                    flag("unexpected-file", "{}: unexpected file {} appeared".format(how, n))
            if docname in after:
                cls = classify(docname, after[docname])
                is_old = docname in before and after[docname] == before[docname]
                is_new = (not bad) and cls == [1, new_tok]
                if not (is_old or is_new or (intr_stored and cls == [1, intr_tok])):
                    flag("document-corrupt", "{}: document of the written id is neither the old nor the complete new "
                                             "version ({} bytes, classified {})".format(how, len(after[docname]), cls))
            elif docname in before:
                flag("document-lost", "{}: document of the written id vanished".format(how))
            elif intr_stored:
                flag("document-lost", "{}: the document of the written id, stored completely by another store instance "
                                      "(its add() returned, nobody discarded it), vanished".format(how))
            if fresh["hang"]:
                flag("fresh-store-hangs", "{}: {} did not return within {} s".format(how, fresh["hang"][0], CALL_LIMIT))
                return
            ndocs = sum(1 for n in after if n in hash2key)
            if fresh["len"] != [ndocs]:
                flag("len", "{}: len() = {} but {} documents".format(how, fresh["len"], ndocs))
            if fresh["iter"][0] != 1 or len(fresh["iter"]) != 1 + 2 * ndocs:
                flag("iter", "{}: iterating fails or yields a wrong number of objects: {}".format(how, fresh["iter"]))
            for k, row in enumerate(fresh["per"]):
                present = L.doc_name(idlist[k]) in after
                if row[0] != (1 if present else 0):
                    flag("contains", "{}: contains() of key {} = {}".format(how, k, row[0]))
                if present and row[1] != 1:
                    flag("get", "{}: get_identifiable of stored key {} fails: {}".format(how, k, row[1:]))
                if not present and row[1:] != [2]:
                    flag("get-missing", "{}: get_identifiable of absent key {} does not raise KeyError: {}".format(
                        how, k, row[1:]))
        judge(after, fresh, "store opened by the constructor")
        # the directory re-opened through every documented entry point: the property must hold after each, and a
        # store opened that way must answer like the one opened by the constructor alone
        reopen_diff = None
        for how, create in (("check_directory(create=False)", False), ("check_directory(create=True)", True)):
            st = local_file.LocalFileObjectStore(d)
            try:
                with L.deadline(CALL_LIMIT):
                    st.check_directory(create=create)
            except L.Hang:
                flag("reopen-hangs", "{} did not return".format(how))
                continue
            except Exception as e:
                flag("reopen-raises", "{} raised {}: {}".format(how, type(e).__name__, e))
                continue
            after2 = snapshot(d)
            fresh2 = answers(st, idlist, table)
            judge(after2, fresh2, "store re-opened with " + how)
            if reopen_diff is None and (after2 != after or any(fresh2[x] != fresh[x] for x in ("per", "len", "iter"))):
                reopen_diff = {"entry_point": how,
                               "directory_changed": sorted(n for n in set(after) | set(after2) if after.get(n) != after2.get(n)),
                               "answers": fresh2, "constructor_answers": fresh}
        if hung:
            flag("write-does-not-return", "{}() did not return within {} s".format(case["op"], 3 * CALL_LIMIT))
        elif not crashed:
            same = rep["same"]
            if same["hang"]:
                flag("instance-hangs", "after the {} {}() the same store instance did not answer {} within {} s "
                                       "(every later operation must still work)".format(
                                           "failed" if rep["outcome"][0] == 1 else "completed", case["op"], same["hang"][0],
                                           CALL_LIMIT))
            elif same["per"] != fresh["per"] or same["len"] != fresh["len"] or same["iter"] != fresh["iter"]:
                flag("same-instance", "the writing instance answers differently from a fresh one: {} vs {}".format(
                    same, fresh))
            judge(after, fresh, "store opened by the constructor")     # (sets is_new for the checks below)
            if case["op"] == "add":
                if rep["outcome"][0] == 1:
                    if rep["source"] != "":
                        flag("failed-add-marked", "failed add left source={!r}".format(rep["source"]))
                    if docname not in before and docname in after and not (
                            intr_stored and classify(docname, after[docname]) == [1, intr_tok]):
                        flag("failed-add-contained", "failed add ({}) left the id contained".format(rep.get("exc")))
                else:
                    if docname not in after or rep["source"] == "" or not is_new:
                        flag("add-returned-not-stored", "add returned but the object is not stored/marked")
            elif rep["outcome"][0] == 0 and not (docname in after and is_new):
                flag("commit-returned-not-stored", "commit returned but the document is not the new version")
        if unknown and not all(u.endswith(".tmp") for u in unknown):
            flag("unexpected-file", "unknown files {}".format(unknown))
        if intr_rep is not None:
            if intr_rep["outcome"] == [7]:
                flag("other-instance-hangs", "add() through the other store instance did not return")
            elif intr_rep["outcome"] not in ([0], [1, 2]):
                flag("other-instance-add-failed", "the un-faulted add() through the other store instance raised {}".format(
                    intr_rep.get("exc")))
            elif intr_stored and not crashed and not hung:
                if intr_rep.get("source", "") == "":
                    flag("other-instance-unmarked", "the object stored through the other instance lost its source")
                elif docname in after and classify(docname, after[docname]) == [1, intr_tok] and intr_rep.get("update"):
                    flag("other-instance-handle-broken", "update() of the object stored through the other instance "
                                                         "raised {}".format(intr_rep["update"]))
        # ---- retry: the same operation with the same content, without fault - on the same instance in the same
        # process if it is still there, else (it died) in this process on a new instance; then everything again
        retry = None
        first_hung = hung or rep.get("killed") or (not crashed and rep["same"]["hang"])
        if not first_hung:
            if crashed:
                reap(False)
                retry = {}
                rstore = local_file.LocalFileObjectStore(d)
                try:
                    with L.deadline(3 * CALL_LIMIT):
                        if case["op"] == "add":
                            rstore.add(obj)
                        else:
                            obj.commit()
                    retry["outcome"] = [0]
                except L.Hang:
                    retry["outcome"] = [7]
                except BaseException as e:   # noqa
                    retry["outcome"] = [1, L.exc_code(e)]
                    retry["exc"] = "{}: {}".format(type(e).__name__, e)[:200]
                retry["source"] = obj.source
                retry["same"] = answers(rstore, idlist, table)
            else:
                try:
                    os.write(gow, b"g")
                    retry = read_line(20 * CALL_LIMIT)
                except OSError:
                    retry = None
                reap(retry is None)
                if retry is None:
                    retry = {"outcome": [7], "source": "", "same": {"per": [], "len": [-7], "iter": [-7], "hang": ["retry"]}}
        else:
            reap(True)
        for fd in (rfd, gow):
            try:
                os.close(fd)
            except OSError:
                pass
        retry_rows = []
        if retry is not None:
            after_r = snapshot(d)
            fresh_r = answers(local_file.LocalFileObjectStore(d), idlist, table)
            names_r = [nm for nm in names if nm[0] != 2]     # the retrying process may have another temp-file name
            real_r = {}
            for n, raw in after_r.items():
                if n in hash2key:
                    real_r[(1, hash2key[n])] = classify(n, raw)
                elif n in OTHER_NAMES:
                    real_r[(3, OTHER_NAMES.index(n))] = classify(n, raw)
            disk_r = []
            for nm in names_r:
                disk_r += real_r.get(tuple(nm), [0]) + [-1]
            retry_rows = [retry["outcome"], disk_r, [x for r in fresh_r["per"] for x in r + [-1]], fresh_r["len"],
                          fresh_r["iter"]]
            how = "after the retry"
            if retry["outcome"] == [7]:
                flag("retry-does-not-return", "the retried {}() did not return".format(case["op"]))
            else:
                judge(after_r, fresh_r, "store opened by the constructor " + how)
                doc_r = after_r.get(docname)
                new_r = (not bad) and doc_r is not None and classify(docname, doc_r) == [1, new_tok]
                if bad:
                    if retry["outcome"][0] != 1:
                        flag("retry-accepts-rejected-payload", "the retried {}() of a payload the serialiser rejects "
                                                               "returned".format(case["op"]))
                    if doc_r != after.get(docname):
                        flag("retry-changed-document", "the failing retry changed the document")
                elif case["op"] == "add" and docname in after:
                    if retry["outcome"] != [1, 2]:
                        flag("retry-duplicate-accepted", "the id was stored, the retried add() must raise KeyError but: {}".format(
                            retry["outcome"]))
                    if doc_r != after[docname]:
                        flag("retry-changed-document", "the rejected retry changed the document")
                else:
                    if retry["outcome"] != [0]:
                        flag("retry-fails", "the retried {}() (no fault any more) failed: {}".format(case["op"], retry.get("exc")))
                    elif not new_r:
                        flag("retry-not-stored", "the retried {}() returned but the document {} - a write that failed "
                                                 "must not be remembered as done".format(
                                                     case["op"], "does not exist" if doc_r is None else "is not the new version"))
                    elif case["op"] == "add" and retry["source"] == "":
                        flag("retry-not-marked", "the retried add() returned but the object has no source")
                if retry["same"]["hang"]:
                    flag("instance-hangs", "{}: the instance did not answer {}".format(how, retry["same"]["hang"][0]))
                elif retry["outcome"] != [7] and any(retry["same"][x] != fresh_r[x] for x in ("per", "len", "iter")):
                    flag("same-instance", "{}: the writing instance answers differently from a fresh one: {} vs {}".format(
                        how, retry["same"], fresh_r))
        pl = ("Bad {}%nat".format(L.BAD_KINDS[case["kind"]])) if bad else "Good {}%nat".format(new_tok)
        # the fault list the model is run with: as given, or - device-full cases - the exception the SDK's own file
        # layers produced, placed at the effect where it surfaced, with the bytes that had fitted
        F_model = case["F"]
        if case.get("short") is not None:
            at = rep.get("raised_at")
            if at is None:
                F_model = []
            else:
                F_model = [["n"]] * EFFECTS[case["op"]].index(at) + [["r", 1, case["short"]]]
        return {"obs": obs + retry_rows, "d0": d0, "pl": pl, "names": names, "fail": fail, "rep": rep, "unknown": unknown,
                "F_model": F_model, "reopen_diff": reopen_diff, "retried": retry is not None, "retry": retry}
    finally:
        try:
            reap(True)          # whatever happened above: the child is gone before the case ends
        except Exception:
            pass
        L.rm_scratch(d)


# ---------------------------------------------------------------- concurrent writers (one process, several threads)

CONC_EFFECTS = ["encode", "open", "write", "close", "replace"]


class Token:
    """deterministic interleaving of writer threads at effect granularity: `sched` names, effect by effect, the
    writer that performs the next effect (entries of finished writers are skipped; once the list is used up the
    unfinished writers run in index order).  At most one writer runs at any time."""

    def __init__(self, n, sched, timeout=6.0):
        import threading
        self.cv = threading.Condition()
        self.sched = list(sched)
        self.done = [False] * n
        self.grant = [False] * n
        self.cur = None
        self.timeout = timeout

    def _pick(self):
        nxt = None
        while self.sched and nxt is None:
            w = self.sched.pop(0)
            if not self.done[w]:
                nxt = w
        if nxt is None:
            for w in range(len(self.done)):
                if not self.done[w]:
                    nxt = w
                    break
        self.cur = nxt
        if nxt is not None:
            self.grant[nxt] = True
        self.cv.notify_all()

    def start(self):
        with self.cv:
            self._pick()

    def _wait(self, w):
        while self.cur != w:
            if not self.cv.wait(self.timeout):
                raise L.Hang()

    def begin(self, w):
        with self.cv:
            self._wait(w)

    def gate(self, w):
        with self.cv:
            if not self.grant[w]:
                self._pick()
                self._wait(w)
            self.grant[w] = False

    def finish(self, w):
        with self.cv:
            self.done[w] = True
            if self.cur == w:
                self._pick()


class ConcHarness:
    """fault injection for several writer threads of one process; every effect of a registered writer thread is a
    scheduling point (Token) and is hit by that writer's own fault list"""

    def __init__(self, case, dirpath, hash2key, wfd):
        import threading
        self.case = case
        self.dir = dirpath
        self.hash2key = hash2key
        self.wfd = wfd
        self.tl = threading.local()
        self.tok = Token(len(case["writers"]), case["sched"])
        self.trace = []
        self.pos = [0] * len(case["writers"])
        self.hit = [False] * len(case["writers"])
        self.open_files = []
        self.report = {"pid": os.getpid()}
        self.active = True

    def fname(self, path):
        path = os.fspath(path)
        d, base = os.path.split(path)
        if os.path.realpath(d) != os.path.realpath(self.dir):
            return None
        for h, k in self.hash2key.items():
            if base == h:
                return [1, k]
            if base.startswith(h + ".") and base.endswith(".tmp"):
                return [2, k]
        return [3, 99]

    def send(self):
        self.report["trace"] = self.trace
        os.write(self.wfd, json.dumps(self.report).encode() + b"\n")

    def effect(self, e, cleanup=False, fp=None, data=None):
        w = getattr(self.tl, "w", None)
        if w is None or not self.active:
            return ["n"]
        self.tok.gate(w)
        wr = self.case["writers"][w]
        if cleanup:
            fk = wr["fc"]
        else:
            fk = wr["F"][self.pos[w]] if self.pos[w] < len(wr["F"]) else ["n"]
            self.pos[w] += 1
        if fk[0] != "n":
            self.hit[w] = True
        if fk[0] == "c":
            if fp is not None and data is not None:
                fp.real.write(data if fk[1] is None else data[:fk[1]])
            for f in list(self.open_files):
                try:
                    f.real.flush()
                except Exception:
                    pass
            self.report["outcome"] = [2]
            self.trace.append([w] + e + [2])
            self.send()
            os._exit(17)
        self.trace.append([w] + e + [1 if fk[0] == "r" else 0])
        return fk


class ConcFile:
    def __init__(self, H, real, name):
        self.H, self.real, self.name, self.dead = H, real, name, False
        H.open_files.append(self)

    def _finish(self):
        self.dead = True
        if self in self.H.open_files:
            self.H.open_files.remove(self)
        try:
            self.real.close()
        except OSError:
            pass

    def write(self, data):
        fk = self.H.effect([4] + self.name, fp=self, data=data)
        if fk[0] == "r":
            self.real.write(data if fk[2] is None else data[:fk[2]])
            self._finish()
            raise EXC[fk[1]]()
        return self.real.write(data)

    def close(self):
        if self.dead:
            return
        fk = self.H.effect([5] + self.name)
        self._finish()
        if fk[0] == "r":
            raise EXC[fk[1]]()

    def __enter__(self):
        return self

    def __exit__(self, *a):
        self.close()
        return False

    def __getattr__(self, n):
        return getattr(self.real, n)


def install_conc(H):
    import builtins
    saved = {"open": builtins.open, "replace": os.replace, "remove": os.remove, "dumps": json.dumps,
             "rename": os.rename, "unlink": os.unlink}

    def p_open(file, mode="r", *a, **k):
        nm = H.fname(file) if isinstance(file, (str, bytes, os.PathLike)) else None
        if nm is None or not any(c in mode for c in "wax+") or getattr(H.tl, "w", None) is None:
            return saved["open"](file, mode, *a, **k)
        fk = H.effect([3] + nm)
        if fk[0] == "r":
            raise EXC[fk[1]]()
        return ConcFile(H, saved["open"](file, mode, *a, **k), nm)

    def p_replace(a, b, **k):
        na, nb = H.fname(a), H.fname(b)
        if na is not None and nb is not None:
            fk = H.effect([6] + na + nb)
            if fk[0] == "r":
                raise EXC[fk[1]]()
        return saved["replace"](a, b, **k)

    def p_rename(a, b, **k):
        na, nb = H.fname(a), H.fname(b)
        if na is not None and nb is not None:
            fk = H.effect([6] + na + nb)
            if fk[0] == "r":
                raise EXC[fk[1]]()
        return saved["rename"](a, b, **k)

    def p_remove(path, **k):
        nm = H.fname(path)
        if nm is not None:
            fk = H.effect([7] + nm, cleanup=True)
            if fk[0] == "r":
                raise EXC[fk[1]]()
        return saved["remove"](path, **k)

    def p_dumps(obj, *a, **k):
        if k.get("cls") is not None:
            fk = H.effect([2])
            if fk[0] == "r":
                raise EXC[fk[1]]()
        return saved["dumps"](obj, *a, **k)
    builtins.open = p_open
    os.replace = p_replace
    os.rename = p_rename
    os.remove = p_remove
    os.unlink = p_remove
    json.dumps = p_dumps

    def uninstall():
        builtins.open = saved["open"]
        os.replace = saved["replace"]
        os.rename = saved["rename"]
        os.remove = saved["remove"]
        os.unlink = saved["unlink"]
        json.dumps = saved["dumps"]
    return uninstall


def run_conc(case):
    """several threads of one process commit the same stored (shared, cached) object, interleaved effect by effect as
    case["sched"] says, each with its own fault list; afterwards the directory, a fresh store and the store instance
    holding the object are asked.  Returns dict(fail=(sig, msg) or None, rep=child report, final=...)."""
    import select
    import signal
    import threading
    from basyx.aas.backend import local_file
    from basyx.aas.adapter.json import json_deserialization
    idlist = ids_of(case)
    hash2key = {L.doc_name(i): k for k, i in enumerate(idlist)}
    d = L.scratch_dir("c15c")
    pid = None
    try:
        store = local_file.LocalFileObjectStore(d)
        table = []

        def tok(obj):
            c = L.canon(obj)
            if c not in table:
                table.append(c)
            return table.index(c)
        for (k, kind, v) in case["others"]:
            o = L.make_object(kind, idlist[k], v)
            store.add(o)
            tok(o)
        key = case["key"]
        kind0, v0 = case["pre"]
        obj = L.make_object(kind0, idlist[key], v0)
        store.add(obj)
        old_tok = tok(obj)
        saved_attrs = (obj.id_short, obj.category)
        new_toks = []
        for wr in case["writers"]:
            obj.id_short, obj.category = "V{}".format(wr["v"]), "cat{}".format(wr["v"])
            new_toks.append(tok(obj))
        obj.id_short, obj.category = saved_attrs
        for (n, size) in case["extra"]:
            with open(os.path.join(d, OTHER_NAMES[n]), "wb") as f:
                f.write(b"#" * size)
        before = snapshot(d)
        docname = L.doc_name(idlist[key])
        rfd, wfd = os.pipe()
        sys.stdout.flush()
        sys.stderr.flush()
        pid = os.fork()
        if pid == 0:
            try:
                os.close(rfd)
                H = ConcHarness(case, d, hash2key, wfd)
                uninstall = install_conc(H)
                outcomes = [[7]] * len(case["writers"])
                excs = [None] * len(case["writers"])

                def body(w):
                    H.tl.w = w
                    try:
                        H.tok.begin(w)
                        v = case["writers"][w]["v"]
                        obj.id_short, obj.category = "V{}".format(v), "cat{}".format(v)
                        obj.commit()
                        outcomes[w] = [0]
                    except L.Hang:
                        outcomes[w] = [7]
                    except BaseException as e:   # noqa
                        outcomes[w] = [1, L.exc_code(e)]
                        excs[w] = "{}: {}".format(type(e).__name__, e)[:200]
                    finally:
                        H.tl.w = None
                        H.tok.finish(w)
                ths = [threading.Thread(target=body, args=(w,), daemon=True) for w in range(len(case["writers"]))]
                for t in ths:
                    t.start()
                H.tok.start()
                for t in ths:
                    t.join(4 * CALL_LIMIT)
                H.active = False
                uninstall()
                H.report["outcome"] = [0]
                H.report["writers"] = outcomes
                H.report["excs"] = excs
                H.report["hit"] = H.hit
                H.report["same"] = answers(store, idlist, table)
                H.send()
            except BaseException as e:   # noqa
                try:
                    os.write(wfd, json.dumps({"child_error": repr(e)}).encode() + b"\n")
                except Exception:
                    pass
            os._exit(0)
        os.close(wfd)
        data = b""
        import time
        t_end = time.time() + 20 * CALL_LIMIT
        while b"\n" not in data:
            left = t_end - time.time()
            if left <= 0 or not select.select([rfd], [], [], left)[0]:
                break
            b = os.read(rfd, 65536)
            if not b:
                break
            data += b
        os.close(rfd)
        try:
            os.kill(pid, signal.SIGKILL)
        except ProcessLookupError:
            pass
        os.waitpid(pid, 0)
        pid = None
        if b"\n" not in data:
            rep = {"outcome": [7], "trace": [], "writers": [], "hit": [], "killed": True}
        else:
            rep = json.loads(data.split(b"\n", 1)[0].decode())
        if "child_error" in rep:
            raise RuntimeError("child failed: {}".format(rep))
        after = snapshot(d)
        fresh = answers(local_file.LocalFileObjectStore(d), idlist, table)

        def classify(raw):
            try:
                o = json.loads(raw.decode("utf-8"), cls=json_deserialization.AASFromJsonDecoder)["data"]
                c = L.canon(o)
                return [1, table.index(c)] if c in table else [1, 98]
            except Exception:
                return [2, len(raw)]
        fail = None
        crashed = rep["outcome"] == [2]

        def flag(what, msg):
            nonlocal fail
            if fail is None:
                kinds = {fk[0] for wr in case["writers"] for fk in wr["F"] + [wr["fc"]]}
                kindf = "process-dies" if crashed else ("exception-injected" if "r" in kinds else "none")
                fail = ("C15:concurrent-commit:{}:{}".format(kindf, what), msg)
        for n, raw in before.items():
            if n != docname and after.get(n) != raw:
                flag("other-file-changed", "file {} changed or vanished".format(n))
        for n in after:
            if n not in before and not n.endswith(".tmp"):
                flag("unexpected-file", "unexpected file {} appeared".format(n))
        final = None
        if docname not in after:
            flag("document-lost", "the document of the committed id vanished")
        else:
            final = classify(after[docname])
            if after[docname] != before[docname] and final not in [[1, t] for t in new_toks]:
                flag("document-corrupt", "the document of the committed id is neither the old version nor the complete "
                                         "version of one of the writers ({} bytes, classified {})".format(
                                             len(after[docname]), final))
        ndocs = sum(1 for n in after if n in hash2key)
        for how, ans in (("fresh store", fresh),) + ((("store instance holding the object", rep["same"]),)
                                                     if "same" in rep else ()):
            if ans["hang"]:
                flag("store-hangs", "{}: {} did not return".format(how, ans["hang"][0]))
                continue
            if ans["len"] != [ndocs]:
                flag("len", "{}: len() = {} but {} documents".format(how, ans["len"], ndocs))
            if ans["iter"][0] != 1 or len(ans["iter"]) != 1 + 2 * ndocs:
                flag("iter", "{}: iterating fails or yields a wrong number of objects: {}".format(how, ans["iter"]))
            for k, row in enumerate(ans["per"]):
                present = L.doc_name(idlist[k]) in after
                if row[0] != (1 if present else 0):
                    flag("contains", "{}: contains() of key {} = {}".format(how, k, row[0]))
                if present and row[1] != 1:
                    flag("get", "{}: get_identifiable of stored key {} fails: {}".format(how, k, row[1:]))
                if not present and row[1:] != [2]:
                    flag("get-missing", "{}: get_identifiable of absent key {} does not raise KeyError".format(how, k))
        if rep["outcome"] == [7]:
            flag("write-does-not-return", "the committing threads did not finish")
        elif not crashed:
            for w, oc in enumerate(rep["writers"]):
                if oc == [7]:
                    flag("write-does-not-return", "commit of writer {} did not return".format(w))
                elif rep["hit"][w] and oc[0] != 1:
                    flag("fault-not-reported", "writer {}: a fault was injected but commit returned".format(w))
                elif not rep["hit"][w] and oc[0] != 0:
                    flag("unfaulted-commit-failed", "writer {}: no fault was injected into this commit, yet it raised "
                                                    "{}".format(w, rep["excs"][w]))
            if any(oc == [0] for oc in rep["writers"]) and final not in [[1, t] for t in new_toks]:
                flag("commit-returned-not-stored", "a commit returned but the document holds no writer's version")
        return {"fail": fail, "rep": rep, "final": final, "old_tok": old_tok, "new_toks": new_toks}
    finally:
        if pid is not None:
            try:
                os.kill(pid, signal.SIGKILL)
                os.waitpid(pid, 0)
            except Exception:
                pass
        L.rm_scratch(d)


def conc_fault_variants(pos, size):
    """faults for one writer at effect position pos (None: no fault)"""
    if pos is None:
        return [([], ["n"])]
    pre = [["n"]] * pos
    e = CONC_EFFECTS[pos]
    fls = [0, max(1, size // 2), None] if e in ("write", "close") else [None]
    res = []
    for fl in fls:
        res.append((pre + [["c", fl]], ["n"]))
        res.append((pre + [["r", 4 if e == "encode" else 1, fl]], ["n"]))
    res.append((pre + [["r", 4 if e == "encode" else 1, None]], ["r", 1, None]))
    return res


def conc_core_cases():
    """two writers of one document: writer 0 performs a effects, writer 1 performs b effects, writer 0 continues to
    its end, writer 1 continues - for every a, b; writer 1 without fault and with every kind of fault at the effect
    it resumes with (the one that follows the switch)"""
    base = {"conc": True, "op": "commit", "key": 1, "ids": 0, "others": [(3, "sm_props", 1)], "extra": [(0, 3)],
            "pre": ("sm_props", 2), "kind": "sm_props"}
    size = payload_size("sm_props", ids_of(base)[1], 6)
    n = len(CONC_EFFECTS)
    res = []
    for a in range(n + 1):
        for b in range(1, n):
            sched = [0] * a + [1] * b + [0] * (n - a + 2) + [1] * (n - b + 2)
            for F, fc in conc_fault_variants(None, size) + conc_fault_variants(b, size):
                res.append(dict(base, sched=sched, writers=[{"v": 6, "F": [], "fc": ["n"]}, {"v": 7, "F": F, "fc": fc}]))
    return res


def gen_random_conc(rng):
    nw = rng.choice([2, 2, 3])
    key = rng.randrange(NKEYS)
    other_keys = rng.sample([k for k in range(NKEYS) if k != key], rng.choice([0, 1, 2, 3]))
    kind = rng.choice(L.GOOD_KINDS)
    case = {"conc": True, "op": "commit", "key": key, "ids": rng.randrange(len(L.IDS)),
            "others": [(k, rng.choice(L.GOOD_KINDS), rng.randrange(5)) for k in sorted(other_keys)],
            "extra": sorted(rng.sample([(0, 3), (1, 40), (2, 7)], rng.choice([0, 0, 1, 2]))),
            "pre": (kind, rng.randrange(5)), "kind": kind}
    size = payload_size(kind, ids_of(case)[key], 6)
    writers = []
    for w in range(nw):
        pos = rng.choice([None, None] + list(range(len(CONC_EFFECTS))))
        F, fc = rng.choice(conc_fault_variants(pos, size))
        writers.append({"v": 5 + w, "F": F, "fc": fc})
    case["writers"] = writers
    case["sched"] = [rng.randrange(nw) for _ in range(rng.randrange(4, 8 * nw))]
    return case


# ---------------------------------------------------------------- model side

def coq_fname(nm):
    return "(" + {1: "FDoc", 2: "FTmp", 3: "FOther"}[nm[0]] + " " + str(nm[1]) + "%nat)"


def coq_fl(fl):
    return "None" if fl is None else "(Some {}%Z)".format(fl)


def coq_fk(fk):
    if fk[0] == "n":
        return "FNone"
    if fk[0] == "r":
        return "(FRaise {}%nat {})".format(fk[1], coq_fl(fk[2]))
    return "(FCrash {})".format(coq_fl(fk[1]))


def coq_case(case, res):
    d0 = common.coq_list("({}, {})".format(coq_fname(nm), ("Full {}%nat".format(c[1]) if c[0] == 1
                                                           else "Trunc {}%Z".format(c[1])))
                         for nm, c in res["d0"])
    return ("(mkcase {} {}%nat ({}) {} {} {} {} {} {} {})".format(
        "KAdd" if case["op"] == "add" else "KCommit", case["key"], res["pl"],
        common.coq_list(coq_fk(f) for f in res.get("F_model", case["F"])), coq_fk(case["fc"]), d0,
        common.coq_list(coq_fname(n) for n in res["names"]),
        common.coq_list(str(k) + "%nat" for k in range(NKEYS)), "true" if res.get("retried") else "false",
        common.coq_z(common.zhash_d(res["obs"], 2))))


PRELUDE = ("From Coq Require Import List ZArith.\nFrom Basyx Require Import model.Crash model.CrashObs.\n"
           "Open Scope nat_scope.")


# ---------------------------------------------------------------- case generation

def fl_variants(size):
    return [0, 1, max(1, size // 2), max(1, size - 1), None]


def fault_points(op, size, rng=None):
    """all (F, fc) single-fault scenarios of an operation: every position x {raise, crash} x
    flush amounts x cleanup outcomes"""
    effs = EFFECTS[op]
    res = [([], ["n"])]
    fcs = [["n"], ["r", 1, None], ["r", 9, None], ["c", None]]
    for i, e in enumerate(effs):
        pre = [["n"]] * i
        fls = fl_variants(size) if e in ("write", "close") else [None]
        for fl in fls:
            res.append((pre + [["c", fl]], ["n"]))
        if e in ("exists", "cache", "source"):
            continue
        x = 4 if e == "encode" else 1
        for fl in fls:
            for fc in (fcs if e != "encode" else [["n"]]):
                res.append((pre + [["r", x, fl]], fc))
    return res


def payload_size(kind, idn, v):
    from basyx.aas.adapter.json import json_serialization
    try:
        return len(json.dumps({"data": L.make_object(kind, idn, v)}, cls=json_serialization.AASToJsonEncoder, indent=4))
    except Exception:
        return 100


def gen_random_case(rng):
    op = rng.choice(["add", "add", "commit"])
    key = rng.randrange(NKEYS)
    nother = rng.choice([0, 1, 2, 3])
    other_keys = rng.sample([k for k in range(NKEYS) if k != key], nother)
    case = {"op": op, "key": key, "ids": rng.randrange(len(L.IDS)),
            "others": [(k, rng.choice(L.GOOD_KINDS), rng.randrange(5)) for k in sorted(other_keys)],
            "extra": sorted(rng.sample([(0, 3), (1, 40), (2, 7)], rng.choice([0, 0, 1, 2]))),
            "stale_tmp": rng.choice([None, None, None, 0, 25]),
            "pre": None, "v_new": rng.randrange(5, 9)}
    bad = rng.random() < 0.25
    if op == "add":
        case["kind"] = rng.choice(list(L.BAD_KINDS)) if bad else rng.choice(L.GOOD_KINDS)
        if rng.random() < 0.12:
            case["pre"] = (rng.choice(L.GOOD_KINDS), rng.randrange(5))      # duplicate add
    else:
        base = rng.choice(["sm_small", "sm_props", "sm_big"]) if bad else rng.choice(L.GOOD_KINDS)
        case["pre"] = (base, rng.randrange(5))
        case["kind"] = rng.choice(list(L.BAD_KINDS)) if bad else base
        if rng.random() < 0.1:
            case["commit_missing"] = True
    size = payload_size(case["kind"] if op == "add" else case["pre"][0], ids_of(case)[key], case["v_new"])
    pts = fault_points(op, size)
    case["F"], case["fc"] = rng.choice(pts)
    if not bad and rng.random() < 0.12:
        # the device has room for only part of the document: no exception is injected, the SDK's own file layers
        # meet short writes / ENOSPC
        case["F"] = []
        case["fc"] = rng.choice([["n"], ["n"], ["r", 1, None], ["c", None]])
        case["short"] = rng.choice([0, 1, size // 3, size // 2, max(1, size - 1)])
    elif rng.random() < 0.15:
        # a second store instance on the same directory adds the same id between two effects of this write
        case["intr"] = {"at": rng.randrange(len(EFFECTS[op])), "kind": rng.choice(L.GOOD_KINDS), "v": rng.randrange(9, 12)}
    return case


def intruder_core_cases():
    """two store instances on one directory: instance B add()s the id completely just before effect number `at` of
    instance A's add()/commit() of the same id, and A is un-faulted, raises or dies at every effect from there on"""
    res = []
    for op in ("add", "commit"):
        base = {"op": op, "key": 1, "ids": 0, "others": [(3, "sm_props", 1)], "extra": [(0, 3)], "stale_tmp": None,
                "v_new": 6, "pre": None if op == "add" else ("sm_props", 2), "kind": "sm_props"}
        if op == "commit":
            base["commit_missing"] = True       # (otherwise B's add() is a plain duplicate)
        effs = EFFECTS[op]
        for at in range(len(effs)):
            intr = {"at": at, "kind": "sm_small", "v": 9}
            res.append(dict(base, F=[], fc=["n"], intr=intr))
            for pos in range(at, len(effs)):
                pre = [["n"]] * pos
                res.append(dict(base, F=pre + [["c", None]], fc=["n"], intr=intr))
                if effs[pos] in ("exists", "cache", "source"):
                    continue
                x = 4 if effs[pos] == "encode" else 1
                res.append(dict(base, F=pre + [["r", x, None]], fc=["n"], intr=intr))
                if pos == at and effs[pos] != "encode":
                    res.append(dict(base, F=pre + [["r", x, 0]], fc=["r", 1, None], intr=intr))
    return res


def core_cases():
    """every fault point of add and commit for one good payload and one neighbour, plus the
    payloads the serialiser rejects, duplicates and a commit whose document vanished"""
    res = []
    for op in ("add", "commit"):
        base = {"op": op, "key": 1, "ids": 0, "others": [(3, "sm_props", 1)], "extra": [(0, 3)],
                "stale_tmp": None, "v_new": 6}
        base["pre"] = None if op == "add" else ("sm_props", 2)
        base["kind"] = "sm_props"
        size = payload_size("sm_props", ids_of(base)[1], 6)
        for F, fc in fault_points(op, size):
            res.append(dict(base, F=F, fc=fc))
        for badk in L.BAD_KINDS:
            for F, fc in [([], ["n"]), ([["c", None]], ["n"]), ([["n"], ["c", None]], ["n"])]:
                res.append(dict(base, kind=badk, F=F, fc=fc))
    for op in ("add", "commit"):
        for kind in ("sm_props", "sm_big"):
            base = {"op": op, "key": 2, "ids": 0, "others": [(0, "cd", 1)], "extra": [], "stale_tmp": None, "v_new": 6,
                    "pre": None if op == "add" else (kind, 2), "kind": kind, "F": []}
            size = payload_size(kind, ids_of(base)[2], 6)
            for room in (0, 1, size // 2, size - 1):
                for fc in (["n"], ["r", 1, None], ["r", 9, None], ["c", None]):
                    res.append(dict(base, fc=fc, short=room))
    res.append({"op": "add", "key": 0, "ids": 0, "others": [], "extra": [], "stale_tmp": None, "v_new": 6,
                "pre": ("sm_small", 1), "kind": "sm_props", "F": [], "fc": ["n"]})
    res.append({"op": "commit", "key": 0, "ids": 0, "others": [], "extra": [], "stale_tmp": 12, "v_new": 6,
                "pre": ("sm_small", 1), "kind": "sm_small", "commit_missing": True, "F": [], "fc": ["n"]})
    return res


def check_prefix_assumption(chk):
    """trusted assumption of the model: no strict prefix of a serialised document parses"""
    from basyx.aas.adapter.json import json_serialization, json_deserialization
    n = 0
    for kind in L.GOOD_KINDS:
        text = json.dumps({"data": L.make_object(kind, L.IDS[1], 3)}, cls=json_serialization.AASToJsonEncoder, indent=4)
        cuts = range(len(text)) if len(text) < 3000 else list(range(0, len(text), 97)) + list(range(len(text) - 60, len(text)))
        for c in cuts:
            n += 1
            try:
                json.loads(text[:c], cls=json_deserialization.AASFromJsonDecoder)
            except ValueError:
                continue
            chk.tie_broken("assumption-prefix-parses", {"kind": kind, "cut": c, "len": len(text)})
            return n
    return n


def shrink(case, pred):
    cur = dict(case)
    for simpler in ({"others": []}, {"extra": []}, {"stale_tmp": None}, {"ids": 0}):
        if any(k not in cur for k in simpler):
            continue
        cand = dict(cur, **simpler)
        if cand != cur and pred(cand):
            cur = cand
    return cur


# ---------------------------------------------------------------- entry points

def run(chk):
    chk.theorems("props.C15", THEOREMS, ["theories/props/C15.vo", "theories/model/CrashObs.vo"])
    rng = chk.rng
    cases = []
    corpus = os.path.join(common.VERIF, "corpus", "C15")
    if os.path.isdir(corpus):
        for fn in sorted(os.listdir(corpus)):
            cases.append(json.load(open(os.path.join(corpus, fn)))["case"])
    cases += core_cases()
    cases += intruder_core_cases()
    ncore = len(cases)
    for _ in range(350 if chk.tier == "quick" else 5000):
        cases.append(gen_random_case(rng))
    terms = []
    term_cases = []
    for case in cases:
        case["others"] = [tuple(o) for o in case["others"]]
        case["extra"] = [tuple(o) for o in case["extra"]]
        if case["pre"] is not None:
            case["pre"] = tuple(case["pre"])
    import multiprocessing
    pool = multiprocessing.get_context("fork").Pool(8)   # cases are independent; results keep their order
    conc_cases = conc_core_cases()
    nconc_core = len(conc_cases)
    for _ in range(80 if chk.tier == "quick" else 1500):
        conc_cases.append(gen_random_conc(rng))
    for case in conc_cases:
        case["others"] = [tuple(o) for o in case["others"]]
        case["extra"] = [tuple(o) for o in case["extra"]]
        case["pre"] = tuple(case["pre"])
    try:
        # every SDK call has its own time limit inside run_sdk; this overall limit is the last line of defence
        results = pool.map_async(run_sdk, cases, chunksize=8).get(timeout=120 + len(cases) * 0.5)
        conc_results = pool.map_async(run_conc, conc_cases, chunksize=4).get(timeout=120 + len(conc_cases) * 0.5)
    finally:
        pool.terminate()        # no worker is left behind whatever happened
        pool.join()
    shrunk = set()
    for case, res in zip(cases, results):
        hit = [i for i, fk in enumerate(case["F"]) if fk[0] != "n"]
        chk.seen(case, nontrivial=bool(hit) or case["kind"] in L.BAD_KINDS or case.get("short") is not None)
        chk.count("op=" + case["op"])
        chk.count("payload=" + case["kind"])
        chk.count("neighbours={}".format(len(case["others"])))
        chk.count("outcome=" + {0: "returned", 1: "raised", 2: "died"}[res["obs"][0][0]])
        if hit:
            eff = EFFECTS[case["op"]][hit[0]] if hit[0] < len(EFFECTS[case["op"]]) else "?"
            chk.count("fault={}@{}".format({"r": "raise", "c": "crash"}[case["F"][hit[0]][0]], eff))
        else:
            chk.count("fault=none")
        if case.get("short") is not None:
            chk.count("fault=device-full@" + str(res["rep"].get("raised_at")))
        if case["fc"][0] != "n":
            chk.count("cleanup-fault=" + case["fc"][0])
        if res["reopen_diff"] and not any(b.get("kind") == "reopen-entry-point" for b in chk.broken):
            chk.tie_broken("reopen-entry-point", {"case": case, "detail": res["reopen_diff"],
                                                  "note": "a store re-opened through check_directory() changes the "
                                                          "directory or answers differently from one opened by the "
                                                          "constructor (the model's recover is the same for every way "
                                                          "of opening)"})
        if res["fail"] and res["fail"][0] not in shrunk:     # one shrunk replay per failure class is enough
            shrunk.add(res["fail"][0])
            small = shrink(case, lambda c: run_sdk(c)["fail"] is not None)
            r2 = run_sdk(small)
            sig, msg = r2["fail"] or res["fail"]
            chk.fail(sig, msg, {"case": small, "how": "tools/c15.py run_sdk(case): fork, inject the fault, inspect "
                                                      "directory and a fresh store", "child_report": r2["rep"]})
        if case.get("intr") is None:        # (the model has one writing instance; interleaved ones: property oracle)
            terms.append(coq_case(case, res))
            term_cases.append(case)
        else:
            chk.count("other-instance-add@{}={}".format(
                EFFECTS[case["op"]][case["intr"]["at"]],
                {0: "stored", 1: "rejected", 7: "hung"}.get((res["rep"].get("intr") or {"outcome": [None]})["outcome"][0],
                                                            "not-reached")))
        if len(chk.samples) < 4 and hit and len(case["others"]) >= 1:
            chk.samples.append({"case": case, "sdk_observation": res["obs"]})
    # ---- concurrent writers: threads of one process committing the same object, interleaved effect by effect
    for case, res in zip(conc_cases, conc_results):
        faulted = any(fk[0] != "n" for wr in case["writers"] for fk in wr["F"])
        chk.seen(case, nontrivial=True)
        chk.count("op=concurrent-commit")
        chk.count("concurrent-writers={}".format(len(case["writers"])))
        chk.count("concurrent-fault=" + ("died" if res["rep"]["outcome"] == [2] else "raise" if faulted else "none"))
        chk.count("concurrent-final=" + ("old" if res["final"] == [1, res["old_tok"]] else
                                         "writer-version" if res["final"] in [[1, t] for t in res["new_toks"]] else "other"))
        if res["fail"] and res["fail"][0] not in shrunk:
            shrunk.add(res["fail"][0])
            small = shrink(case, lambda c: run_conc(c)["fail"] is not None)
            r2 = run_conc(small)
            sig, msg = r2["fail"] or res["fail"]
            chk.fail(sig, msg, {"case": small, "how": "tools/c15.py run_conc(case): fork; in the child the writer threads "
                                                      "commit the same stored object, the k-th effect overall is performed "
                                                      "by writer sched[k], faults per writer; then inspect directory, a "
                                                      "fresh store and the instance holding the object",
                                "trace_rows": "[writer, effect code, file..., 0 ok / 1 raised / 2 died]",
                                "child_report": r2["rep"]})
    chk.cov["concurrent_core_cases"] = nconc_core
    chk.cov["concurrent_cases"] = len(conc_cases)
    bad, errs = common.run_mismatch_shards("C15", PRELUDE, terms, "check_case", shard=300)
    chk.traces = common.run_mismatch_shards.evaluated - len(bad)
    for e in errs:
        chk.tie_broken("correspondence-run", e)
    if bad:
        i = bad[0]
        case = term_cases[i]

        def still(c):
            r = run_sdk(c)
            b, e = common.run_mismatch_shards("C15s", PRELUDE, [coq_case(c, r)], "check_case")
            return bool(b or e)
        small = shrink(case, still)
        r = run_sdk(small)
        term = coq_case(small, r)
        model = common.coq_eval("C15", PRELUDE, "model_obs " + term)
        chk.tie_broken("correspondence", {"n_disagreements": len(bad), "case": small, "sdk_observation": r["obs"],
                                          "model_observation": model,
                                          "rows": "outcome; effect trace; [cached, sourced]; directory; per key "
                                                  "contains+get; len; iter"})
    chk.cov["core_fault_points"] = ncore
    chk.cov["strict_prefixes_checked_unparseable"] = check_prefix_assumption(chk)
    chk.trusted = [
        "Coq 8.16.1 kernel (coqc; vm_compute for the examples/refutations and the correspondence)",
        "hand-written model coq/theories/model/Crash.v, tied to local_file.py by this fault-injection run "
        "(effect trace, outcome, directory, fresh-store answers must agree)",
        "os.replace is atomic; a failing open() creates nothing; buffered data reaches a file as a prefix; "
        "no strict prefix of a JSON document parses; sha256 injective on the ids used",
        "fault injection happens at the Python API boundary (open/write/close/replace/remove/json.dumps); "
        "kernel behaviour on power loss (fsync ordering) is not modelled",
        "tools/c15.py, tools/lf_common.py (generator, patches, canonicaliser, oracle), tools/common.py",
    ]
    chk.assumptions = ["atomic rename", "prefix semantics of buffered writes", "sha256 collision freedom",
                       "exceptions injected only at I/O and serialisation effects (cache insert / source assignment "
                       "cannot fail) for C15_add_reports"]
    return chk.finish(level="proof",
                      rule="core: every effect position of add and commit x {raise, die} x 5 flush amounts x 4 cleanup "
                           "outcomes for one payload; two store instances on one directory: instance B add()s the same id "
                           "completely just before effect n of instance A's add()/commit(), for every n, A un-faulted / "
                           "raising / dying at every effect from n on (the id must end up holding A's or B's complete "
                           "version, never vanish; judged by the property oracle only); rejected payloads, duplicate add, commit of a vanished document, "
                           "a device with room for 0/1/half/all-but-one bytes of the document (short raw writes, then "
                           "ENOSPC, met by the SDK's own file layers); after every case the directory is re-opened by the "
                           "constructor, check_directory(create=False) and check_directory(create=True), every SDK call "
                           "under a time limit; "
                           "concurrent writers: 2 threads of one process committing the same stored object, every split "
                           "(writer 0 does a effects, writer 1 does b, writer 0 finishes, writer 1 finishes) x writer 1 "
                           "un-faulted / raising / dying at the effect it resumes with, plus random 2-3 writer schedules "
                           "and faults (document = old or one writer's complete version, un-faulted commits return, "
                           "faulted ones report, fresh store and the instance holding the object answer); "
                           "then seeded random cases over 8 payload kinds (3 rejected by the serialiser), 16 identifier "
                           "shapes, 0-3 neighbours, foreign/stale files; non-trivial = a fault is injected or the "
                           "payload is rejected; distinct by full case description")


def replay(path):
    r = json.load(open(path))
    rp = r.get("replay") or {}
    if "case" in rp:
        case = rp["case"]
        case["others"] = [tuple(o) for o in case["others"]]
        case["extra"] = [tuple(o) for o in case["extra"]]
        if case["pre"] is not None:
            case["pre"] = tuple(case["pre"])
        if case.get("conc"):
            res = run_conc(case)
            print("child report:", json.dumps(res["rep"])[:2500])
            print("final document:", res["final"], "old:", res["old_tok"], "writers:", res["new_toks"])
            print("oracle:", res["fail"])
            return 1 if res["fail"] else 0
        res = run_sdk(case)
        print("child report:", json.dumps(res["rep"])[:1500])
        print("observation:", res["obs"])
        print("oracle:", res["fail"])
        return 1 if res["fail"] else 0
    print(json.dumps(r, indent=1)[:3000])
    return 1
