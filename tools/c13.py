"""C13 - DictObjectStore / ObjectProviderMultiplexer / NamespaceIRIGenerator behave as a map.

Theorems: coq/theories/props/C13.v over model/Store.v.
Tie C:    call sequences over a pool of identifiables (several objects sharing one identifier, all
          three identifiable kinds), 1-3 stores behind a multiplexer and IRI generators on top, run on
          the SDK's public API and on the model (vm_compute), compared after every call.
Oracle:   one Python dict per store replaying the same history + the generator postconditions.
"""
import itertools
import json
import os
import signal
import unicodedata
import uuid

import common
from common import coq_list, coq_z

TAG = "C13_%d" % os.getpid()    # scratch-file prefix in coq/build, unique per process
THEOREMS = ["C13_inv", "C13_history", "C13_outputs", "C13_duplicate_rejected", "C13_add_accepted",
            "C13_removal", "C13_pop", "C13_clear", "C13_construct", "C13_construct_copy", "C13_iteration", "C13_mux_first", "C13_mux_absent",
            "C13_generate_id", "C13_mux_stores_finite", "C13_candidates_distinct", "C13_quote_clean",
            "C13_quote_id", "C13_example", "C13_example_gen"]

ABSENT = "zz#absent"
NMUX = 2
NAMESPACES = ["http://x/", "urn:a:b#", "x:y=", "HTTP://H/p/", "https://e.org/a/b/", "ftp://h/d/?q="]
# plain / empty / colliding / needing escaping / URL structure (path, dot segments, authority, query, fragment, scheme)
PROPOSALS = [None, "", "p", "p q", "a:b", "\x01p\x1f", "é", "p_0001", "(x)|y", "p/q?r=s&t#u", "\x7f",
             "/P", "../P", "../../P", "//e.com/P", "a/../../P", "..", ".", "?q", "#f", "x:y", "%2e%2e/P", "./",
             # canonically equivalent spellings: decomposed, composed, leading combining marks, compatibility forms
             "Spu\u0308l", "Sp\u00fcl", "\u0338P", "\u0301e", "e\u0301\u0323", "\ufb01x", "\u212b"]
# An Identifier has at most IDMAX characters (model._string_constraints.check_identifier), a proposal is an arbitrary
# string: proposals whose candidates lie just below / at / just above / far above that limit.  LONG_UNITS are repeated
# to the wanted length (plain, needing escaping - the quoted text is longer than the raw one -, URL structure);
# LONG_DELTAS = len(namespace + quoted proposal) - IDMAX.
IDMAX = 2000
LONG_UNITS = ["x", "ab", "p q", "a/b"]
LONG_DELTAS = [-6, -5, -4, -1, 0, 1, 2, 5, 6, 47, 1000]
LONG_NAMESPACES = ["urn:n:" + "n" * (IDMAX - 10) + "/", "urn:n:" + "n" * (IDMAX + 10) + "/", "http://h/" + "d/" * 1050]


def long_proposal(rng, ns):
    """a proposal whose first candidate ns + quote(proposal) has about IDMAX + delta characters"""
    unit, want = rng.choice(LONG_UNITS), max(1, IDMAX + rng.choice(LONG_DELTAS) - len(ns))
    p = unit * (want // len(unit) + 1)
    while p and len(_quote(p)) > want:
        p = p[:-1]
    return p or unit


# ------------------------------------------------------------------ SDK side

def _quote(p):
    from basyx.aas.util import identification
    return identification._quote_iri_segment(p or "")


def make_objects(pool):
    from basyx.aas import model
    objs = []
    for ident, kind in pool:
        if kind == 0:
            o = model.AssetAdministrationShell(model.AssetInformation(global_asset_id="urn:g"), ident)
        elif kind == 1:
            o = model.Submodel(ident)
        else:
            o = model.ConceptDescription(ident)
        objs.append(o)
    return objs


class Timeout(Exception):
    pass


def _alarm(*_):
    raise Timeout()


def guarded(f, seconds=5.0):
    """run f() under a watchdog: a broken `while True` loop must not hang the check"""
    old = signal.signal(signal.SIGALRM, _alarm)
    signal.setitimer(signal.ITIMER_REAL, seconds)
    try:
        return f()
    finally:
        signal.setitimer(signal.ITIMER_REAL, 0)
        signal.signal(signal.SIGALRM, old)


def run_sdk(case):
    """Runs the case on the real classes.  Returns (trace, first oracle failure or None);
    failure = (step index, op kind, code, message)."""
    from basyx.aas import model
    from basyx.aas.util.identification import NamespaceIRIGenerator
    pool = case["pool"]
    objs = make_objects(pool)
    tok = {id(o): t for t, o in enumerate(objs)}
    ids = [p[0] for p in pool] + [ABSENT]
    n = case["nstores"]
    stores = [model.DictObjectStore() for _ in range(n)]
    refs = [dict() for _ in range(n)]          # the oracle: identifier -> object, one dict per store
    # two multiplexers alive at once, both first built without an argument
    muxes = [model.ObjectProviderMultiplexer() for _ in range(NMUX)]
    arrs = [[] for _ in range(NMUX)]            # the oracle: which stores are behind which multiplexer, in order
    gens = []
    for ns, sel in case["gens"]:
        gens.append(NamespaceIRIGenerator(ns, stores[sel] if sel < n else muxes[min(sel - n, NMUX - 1)]))
    fails = []

    def bad(k, kind, code, msg):
        if not fails:
            fails.append((k, kind, code, msg))

    def enc(f):
        try:
            r = f()
        except KeyError:
            return [6]
        if r is None:
            return [2]
        if id(r) in tok:
            return [1, tok[id(r)]]
        return [96]

    def ref_mux(i, m=0):
        for k in arrs[m]:
            if i in refs[k]:
                return refs[k][i]
        return None

    trace = []
    for k, op in enumerate(case["ops"]):
        kind = op[0] if op[0] != "S" else op[2]
        out = None
        try:
            if op[0] == "S":
                s, ref = stores[op[1]], refs[op[1]]
                a = op[3] if len(op) > 3 else None
                try:
                    if kind == "add":
                        x = objs[a]
                        clash = x.id in ref and ref[x.id] is not x
                        s.add(x)
                        out = [0]
                        if clash:
                            bad(k, kind, "duplicate-accepted", "add of a second object with a stored identifier did not raise KeyError")
                        ref[x.id] = x
                    elif kind == "discard":
                        x = objs[a]
                        s.discard(x)
                        out = [0]
                        if ref.get(x.id) is x:
                            del ref[x.id]
                    elif kind == "remove":
                        x = objs[a]
                        present = ref.get(x.id) is x
                        s.remove(x)
                        out = [0]
                        if not present:
                            bad(k, kind, "no-keyerror", "remove of an object that is not stored did not raise KeyError")
                        else:
                            del ref[x.id]
                    elif kind == "pop":
                        r = s.pop()
                        out = [1, tok.get(id(r), -1)]
                        if ref.get(getattr(r, "id", None)) is not r:
                            bad(k, kind, "foreign-object", "pop returned an object that was not stored")
                        else:
                            del ref[r.id]
                    elif kind == "clear":
                        guarded(s.clear)
                        out = [0]
                        ref.clear()
                    elif kind in ("update", "ior"):
                        xs = [objs[t] for t in a]
                        expect_err = False
                        for x in xs:          # plain map semantics, element by element
                            if x.id in ref and ref[x.id] is not x:
                                expect_err = True
                                break
                            ref[x.id] = x
                        if kind == "update":
                            s.update(x for x in xs)
                        else:
                            s0 = s
                            s |= xs
                            if s is not s0:
                                bad(k, kind, "ior-identity", "|= did not return the store itself")
                        out = [0]
                        if expect_err:
                            bad(k, kind, "duplicate-accepted", "bulk update with a clashing object did not raise KeyError")
                    elif kind == "getid":
                        r = s.get_identifiable(a)
                        out = [1, tok.get(id(r), -1)]
                        if ref.get(a) is not r:
                            bad(k, kind, "wrong-object", "get_identifiable returned something else than the stored object")
                    elif kind == "get":
                        d = None if op[4] is None else objs[op[4]]
                        r = s.get(a, d)
                        out = [2] if r is None else [1, tok.get(id(r), -1)]
                        if r is not (ref[a] if a in ref else d):
                            bad(k, kind, "wrong-object", "get(id, default) returned neither the stored object nor the default")
                    elif kind == "cobj":
                        r = objs[a] in s
                        out = [3, int(r)]
                        if r is not (ref.get(objs[a].id) is objs[a]):
                            bad(k, kind, "membership", "membership of an object wrong")
                    elif kind == "cid":
                        r = a in s
                        out = [3, int(r)]
                        if r is not (a in ref):
                            bad(k, kind, "membership", "membership of an identifier wrong")
                    elif kind == "cother":
                        r = (5 in s) or (None in s) or (("x",) in s)
                        out = [3, int(r)]
                        if r:
                            bad(k, kind, "membership", "a non-identifiable is reported as contained")
                    elif kind == "len":
                        r = len(s)
                        out = [4, r]
                        if r != len(ref):
                            bad(k, kind, "len", "len differs from the number of stored identifiers")
                    elif kind == "iter":
                        r = list(s)
                        out = [5] + [tok.get(id(o), -1) for o in r]
                    else:
                        raise ValueError(kind)
                except KeyError:
                    out = [6]
                    # is KeyError what a map says here?
                    if kind == "add":
                        x = objs[a]
                        if not (x.id in ref and ref[x.id] is not x):
                            bad(k, kind, "spurious-keyerror", "add raised KeyError although the identifier was free or held the same object")
                    elif kind == "remove":
                        if ref.get(objs[a].id) is objs[a]:
                            bad(k, kind, "spurious-keyerror", "remove of a stored object raised KeyError")
                    elif kind == "pop":
                        if ref:
                            bad(k, kind, "spurious-keyerror", "pop on a non-empty store raised KeyError")
                    elif kind in ("update", "ior"):
                        if not expect_err:
                            bad(k, kind, "spurious-keyerror", "bulk update without a clash raised KeyError")
                    elif kind == "getid":
                        if a in ref:
                            bad(k, kind, "spurious-keyerror", "get_identifiable of a stored identifier raised KeyError")
                    else:
                        bad(k, kind, "spurious-keyerror", f"{kind} raised KeyError")
            elif op[0] == "M":
                m = op[2] if len(op) > 2 else 0
                arrs[m] = list(op[1])
                muxes[m].providers = [stores[i] for i in arrs[m]]
                out = [0]
            elif op[0] == "MA":
                # "create the multiplexer, then register the stores": append to .providers
                m = op[2] if len(op) > 2 else 0
                muxes[m].providers.append(stores[op[1]])
                arrs[m] = arrs[m] + [op[1]]
                out = [0]
            elif op[0] == "MC":
                # a NEW multiplexer is constructed over the stores as they are now (possibly still empty)
                m = op[2] if len(op) > 2 else 0
                arrs[m] = list(op[1])
                muxes[m] = model.ObjectProviderMultiplexer([stores[i] for i in arrs[m]]) if (arrs[m] or k % 2) \
                    else model.ObjectProviderMultiplexer()
                for g, (_, sel) in zip(gens, case["gens"]):
                    if sel >= n and min(sel - n, NMUX - 1) == m:
                        g.provider = muxes[m]
                out = [0]
            elif op[0] in ("N", "NL"):
                kdst = op[1]
                if op[0] == "N":
                    src, expect = stores[op[2]], dict(refs[op[2]])       # a map of its own with the same entries
                else:
                    xs = [objs[t] for t in op[2]]
                    src = [xs, tuple(xs), (x for x in xs)][op[3]]
                    expect = {}
                    for x in xs:
                        if x.id in expect and expect[x.id] is not x:
                            expect = None
                            break
                        expect[x.id] = x
                try:
                    new = model.DictObjectStore(src)
                    out = [0]
                    if expect is None:
                        bad(k, kind, "duplicate-accepted", "construction from objects with clashing identifiers did not raise KeyError")
                        expect = {}
                    stores[kdst], refs[kdst] = new, expect
                    for m in range(NMUX):                                 # providers are re-bound to the new store
                        muxes[m].providers = [stores[i] for i in arrs[m]]
                    for g, (_, sel) in zip(gens, case["gens"]):
                        if sel == kdst:
                            g.provider = new
                except KeyError:
                    out = [6]
                    if expect is not None:
                        bad(k, kind, "spurious-keyerror", "construction raised KeyError without a clash")
            elif op[0] == "G":
                g = gens[op[1]]
                ns, sel = case["gens"][op[1]]
                iri = guarded(lambda: g.generate_id(op[2]))
                out = [8] + list(iri.encode("utf-8"))
                if not isinstance(iri, str) or not iri.startswith(ns):
                    bad(k, "generate_id", "outside-namespace", "generated identifier does not start with the namespace")
                known = (iri in refs[sel]) if sel < n else (ref_mux(iri, min(sel - n, NMUX - 1)) is not None)
                if known:
                    bad(k, "generate_id", "known-id", "generated identifier is one the provider contains")
            else:
                raise ValueError(op)
        except Timeout:
            out = [95]
            bad(k, kind, "no-termination", f"{kind} did not return within the watchdog time")
        except Exception as e:  # anything but KeyError is outside the documented behaviour
            out = [97]
            bad(k, kind, "exception-" + type(e).__name__, f"{kind} raised {type(e).__name__}: {e}")
        # ---- full state check against the reference dicts + observation for the model
        try:
            rows = [out]
            for si, (s, ref) in enumerate(zip(stores, refs)):
                # a change of a store that was not the target of the call is classified as such
                kk = kind if (op[0] != "S" or si == op[1]) else "other-store"
                listed = list(s)
                if len(listed) != len(ref) or {id(o) for o in listed} != {id(o) for o in ref.values()} \
                        or len({id(o) for o in listed}) != len(listed):
                    bad(k, kk, "iteration", "iteration does not yield each stored object exactly once")
                if len(s) != len(ref):
                    bad(k, kk, "len", "len differs from the number of stored identifiers")
                rows.append([20, len(s)] + [tok.get(id(o), -1) for o in listed])
            for i in ids:
                row = [22]
                for s, ref in zip(stores, refs):
                    row += enc(lambda: s.get_identifiable(i)) + [int(i in s)] + enc(lambda: s.get(i, objs[0]))
                    if (i in s) is not (i in ref):
                        bad(k, kind, "membership", "membership of an identifier wrong")
                    try:
                        r = s.get_identifiable(i)
                        if r is not ref.get(i):
                            bad(k, kind, "wrong-object", "lookup returned something else than the stored object")
                    except KeyError:
                        if i in ref:
                            bad(k, kind, "spurious-keyerror", "lookup of a stored identifier raised KeyError")
                    if s.get(i) is not ref.get(i) or s.get(i, objs[0]) is not ref.get(i, objs[0]):
                        bad(k, kind, "wrong-object", "get(id, default) returned neither the stored object nor the default")
                for m, mux in enumerate(muxes):       # every multiplexer, after every call
                    row += enc(lambda: mux.get_identifiable(i)) + enc(lambda: mux.get(i)) + enc(lambda: mux.get(i, objs[0]))
                    want = ref_mux(i, m)
                    try:
                        r = mux.get_identifiable(i)
                        if r is not want:
                            bad(k, "mux", "not-first", "multiplexer did not answer with the first of ITS providers knowing the identifier")
                    except KeyError:
                        if want is not None:
                            bad(k, "mux", "keyerror", "multiplexer raised KeyError for an identifier a provider knows")
                    if mux.get(i) is not want or mux.get(i, objs[0]) is not (want if want is not None else objs[0]):
                        bad(k, "mux", "get-default", "multiplexer.get(id, default) returned neither the first provider's "
                            "object nor (for an identifier nobody knows) the default")
                rows.append(row)
            for x in objs:
                rows.append([24] + [int(x in s) for s in stores])
                for s, ref in zip(stores, refs):
                    if (x in s) is not (ref.get(x.id) is x):
                        bad(k, kind, "membership", "membership of an object wrong")
            trace.append(rows)
        except Exception as e:
            bad(k, kind, "observation-" + type(e).__name__, f"observation raised {type(e).__name__}: {e}")
            trace.append([[98]])
    return trace, (fails[0] if fails else None)


def probe_synthetic(rng):
    """The generator against SYNTHETIC providers that know a whole run of the candidates (ns + quoted proposal,
    with or without _NNNN) - far more than any store of a test holds, also beyond the four digits of the counter.
    The postconditions of C13_generate_id hold for every provider that knows finitely many identifiers.
    Returns a list of (signature code, message, replay dict)."""
    from basyx.aas import model
    from basyx.aas.util.identification import NamespaceIRIGenerator

    class Synthetic(model.AbstractObjectProvider):
        def __init__(self, known):
            self.known = known          # predicate on identifiers
            self.dummy = model.Submodel("urn:dummy")

        def get_identifiable(self, identifier):
            if self.known(identifier):
                return self.dummy
            raise KeyError(identifier)

    failures = []
    for ns in ("http://x/", "x:y="):
        for proposal in (None, "p", "a b"):
            q = _quote(proposal)
            for n_known in (0, 1, 7, 9999, 10000, 10001, 10000 + rng.randint(2, 3000), 20005):
                def cand(c):
                    return ns + q + ("_" if q else "") + "{:04d}".format(c) if (c or not q) else ns + q
                known_set = {cand(c) for c in range(n_known)}
                g = NamespaceIRIGenerator(ns, Synthetic(known_set.__contains__))
                for call in range(2):          # the second call starts from the cached counter
                    rp = {"synthetic": {"namespace": ns, "proposal": proposal, "known_candidates": n_known, "call": call}}
                    try:
                        iri = guarded(lambda: g.generate_id(proposal), 20.0)
                    except Timeout:
                        failures.append(("no-termination", "generate_id did not return although the provider knows "
                                         "finitely many identifiers", rp))
                        break
                    if not isinstance(iri, str) or not iri.startswith(ns):
                        failures.append(("outside-namespace", "generated identifier does not start with the namespace", rp))
                    elif iri in known_set:
                        failures.append(("known-id", f"generated identifier is one the provider contains (the provider knows "
                                         f"the first {n_known} candidates)", rp))
                    elif iri != cand(n_known):
                        failures.append(("not-first-free", "generated identifier is not the first free candidate", rp))
    # candidates around / beyond the length limit of an Identifier; the provider knows the first candidates and the
    # longest legal identifiers (IDMAX characters) that are prefixes of ANY candidate
    for ns in ("http://x/", LONG_NAMESPACES[1]):
        for unit in LONG_UNITS[:3]:
            for delta in (-4, 0, 1, 500):
                proposal = unit * ((max(1, IDMAX + delta - len(ns))) // len(unit) + 1)
                q = _quote(proposal)

                def cand(c):
                    return ns + q + "_{:04d}".format(c) if c else ns + q
                for n_known in (0, 1, 3):
                    known_set = {cand(c) for c in range(n_known)} | {cand(c)[:IDMAX] for c in range(n_known + 3)
                                                                     if len(cand(c)) > IDMAX}
                    g = NamespaceIRIGenerator(ns, Synthetic(known_set.__contains__))
                    for call in range(2):
                        rp = {"synthetic": {"namespace": ns, "proposal": proposal, "known_candidates": n_known, "call": call,
                                            "also_known": "the first %d characters of the first %d candidates" % (IDMAX, n_known + 3)}}
                        try:
                            iri = guarded(lambda: g.generate_id(proposal), 20.0)
                        except Timeout:
                            failures.append(("no-termination", "generate_id did not return although the provider knows "
                                             "finitely many identifiers", rp))
                            break
                        if not isinstance(iri, str) or not iri.startswith(ns):
                            failures.append(("outside-namespace", "generated identifier does not start with the namespace", rp))
                        elif iri in known_set:
                            failures.append(("known-id", "generated identifier is one the provider contains (a long proposal: "
                                             "the provider knows the longest legal identifiers that are prefixes of candidates)", rp))
                        elif iri != cand(n_known):
                            failures.append(("not-first-free", "generated identifier is not the first free candidate", rp))
    return failures


# ------------------------------------------------------------------ case generation

def gen_theme(rng):
    """pool of (identifier, kind) where identifiers collide with the generator's candidates"""
    ns = rng.choice(NAMESPACES)
    props = rng.sample(PROPOSALS, 3)
    if rng.random() < .025:      # the first proposal (the one used most) is a long one
        props[0] = long_proposal(rng, ns)
    q = [_quote(p) for p in props]
    cands = [ns + (q[0] or "0000"), ns + q[0] + ("_0001" if q[0] else "0001"), ns + q[0] + ("_0002" if q[0] else "0002"),
             ns + (q[1] or "0000"), ns + "0000", ns + "0001", "other", "a b/c?d#e%f"]
    # other spellings of the first candidates (Unicode normal forms): different identifiers for store and generator
    twins = [t for c in cands[:2] for f in ("NFC", "NFD", "NFKC") for t in [unicodedata.normalize(f, c)] if t != c]
    # the longest legal identifiers that are prefixes of candidates (an Identifier has at most IDMAX characters)
    twins = list(dict.fromkeys([c[:IDMAX] for c in cands[:3] if len(c) > IDMAX])) + twins
    cands = cands[:2] + twins[:2] + cands[2:]
    # an Identifiable cannot carry 0x1f (AASd-130), although _quote_iri_segment lets it through, nor more than IDMAX characters
    cands = [c for c in cands if all(ord(ch) >= 32 and ord(ch) != 127 for ch in c) and len(c) <= IDMAX]
    nid = rng.randint(2, 4)
    # the first proposal's plain and _0001 candidates are usually taken, so that the generator has to count
    head = [c for c in cands[:2 + len(twins[:2])] if rng.random() < .8]
    idpool = head + rng.sample([c for c in cands if c not in head], min(4, len(cands)) - len(head))
    idpool = list(dict.fromkeys(idpool))[:max(nid, len(head))]
    nobj = rng.randint(len(idpool) + 1, len(idpool) + 3)
    pool = [[i, t % 3] for t, i in enumerate(idpool)]
    while len(pool) < nobj:          # further objects share identifiers with earlier ones
        pool.append([rng.choice(idpool), rng.randrange(3)])
    rng.shuffle(pool)
    return ns, props, pool


def gen_case(rng, maxlen):
    ns, props, pool = gen_theme(rng)
    n = rng.choice([1, 2, 2, 3, 3])
    ngen = rng.randint(0, 2)
    long = any(len(p or "") > 500 for p in props)
    if long:       # long identifiers are expensive on the model side: short histories centred on the generator
        ngen, maxlen = max(ngen, 1), 4
    gens = [[ns if rng.random() < .8 else rng.choice(NAMESPACES), rng.randint(0, n + NMUX - 1)] for _ in range(ngen)]
    if gens and rng.random() < .01:      # a namespace that alone exceeds the length limit of an Identifier
        gens[-1][0] = rng.choice(LONG_NAMESPACES)
    ids = [p[0] for p in pool] + [ABSENT]
    nobj = len(pool)
    ops = []
    if rng.random() < .9:      # usual start-up order: the multiplexer is built over the still empty stores
        ops.append([rng.choice(["M", "MC", "MC"]), [rng.randrange(n) for _ in range(rng.randint(1, n + 1))], 0])
    if rng.random() < .6:      # the second multiplexer: often built empty, its stores registered afterwards
        if rng.random() < .5:
            ops.append(["MC", [], 1])
        for _ in range(rng.randint(0, 2)):
            ops.append(["MA", rng.randrange(n), 1])
    if gens and rng.random() < .7:      # fill the generator's provider, so that candidates are taken
        sel = gens[0][1]
        k0 = sel if sel < n else (ops[0][1][0] if ops and ops[0][0] != "MA" and ops[0][1] else 0)
        for t in range(nobj):
            if rng.random() < .6:
                ops.append(["S", k0, "add", t])
    L = rng.randint(2, maxlen) + len(ops)
    while len(ops) < L:
        r = rng.random()
        if r < .06:
            ops.append(rng.choice([["M", [rng.randrange(n) for _ in range(rng.randint(0, n + 1))], rng.randrange(NMUX)],
                                   ["MC", [rng.randrange(n) for _ in range(rng.randint(0, n + 1))], rng.randrange(NMUX)],
                                   ["MA", rng.randrange(n), rng.randrange(NMUX)]]))
        elif r < .12:
            if rng.random() < .6:      # a store constructed from another store (or from itself), then both are used
                ops.append(["N", rng.randrange(n), rng.randrange(n)])
            else:
                ops.append(["NL", rng.randrange(n), [rng.randrange(nobj) for _ in range(rng.randint(0, 4))], rng.randrange(3)])
        elif r < (.6 if long else .27) and gens:
            ops.append(["G", rng.randrange(len(gens)), props[0] if rng.random() < .6 else rng.choice(props)])
        else:
            k = rng.randrange(n)
            kind = rng.choices(["add", "discard", "remove", "pop", "clear", "update", "ior", "getid", "get",
                                "cobj", "cid", "cother", "len", "iter"],
                               [30, 10, 10, 6, 2, 6, 4, 3, 3, 3, 2, 1, 1, 2])[0]
            if kind in ("add", "discard", "remove", "cobj"):
                ops.append(["S", k, kind, rng.randrange(nobj)])
            elif kind in ("update", "ior"):
                ops.append(["S", k, kind, [rng.randrange(nobj) for _ in range(rng.randint(0, 3))]])
            elif kind in ("getid", "cid"):
                ops.append(["S", k, kind, rng.choice(ids)])
            elif kind == "get":
                ops.append(["S", k, kind, rng.choice(ids), rng.choice([None, rng.randrange(nobj)])])
            else:
                ops.append(["S", k, kind])
    return {"pool": pool, "nstores": n, "gens": gens, "ops": ops}


def exhaustive_cases(maxlen, quick):
    """all sequences up to maxlen over a store and a second one constructed from it, a 4-object pool (two objects share "a")"""
    pool = [["a", 0], ["a", 1], ["b", 2], ["c", 1]]
    alpha = [["S", 0, k, x] for k in ("add", "discard", "remove") for x in range(3)]
    alpha += [["S", 0, "pop"], ["S", 0, "clear"], ["S", 0, "update", [2, 1, 3]], ["S", 0, "ior", [0, 3]],
              ["S", 0, "add", 3]]
    new = [["N", 1, 0], ["S", 1, "discard", 0], ["S", 1, "add", 1]]      # a second store constructed from the first
    res = []
    # quick: every sequence up to length 2, and every sequence of length 3 that uses the second store;
    # thorough: in addition every single-store sequence of length 3 and 4
    for L in range(1, maxlen + 1):
        for seq in itertools.product(alpha + new, repeat=L):
            two = any(o in new for o in seq)
            if L <= 2 or (L == 3 and (two or not quick)) or (L == 4 and not two):
                res.append({"pool": pool, "nstores": 2, "gens": [], "ops": [["MA", 1, 0], ["MA", 0, 0], ["MA", 0, 1]] + list(seq)})   # two argument-less multiplexers
    return res, len(alpha) + len(new)


# ------------------------------------------------------------------ Coq side

def cstr(s):
    b = s.encode("utf-8")
    if all(32 <= c < 127 for c in b):
        return common.coq_str(s)
    return "(sofz " + coq_list(str(c) for c in b) + ")"


PRELUDE = """From Coq Require Import List ZArith String.
From Basyx Require Import model.Store model.StoreObs.
Open Scope string_scope.
Definition n := Z.to_nat.
Definition nl := map Z.to_nat.
Definition oA k x := WS (n k) (Add (n x)).
Definition oD k x := WS (n k) (Discard (n x)).
Definition oR k x := WS (n k) (Remove (n x)).
Definition oP k := WS (n k) Pop.
Definition oC k := WS (n k) Clear.
Definition oU k l := WS (n k) (Update (nl l)).
Definition oI k l := WS (n k) (Ior (nl l)).
Definition oGI k i := WS (n k) (GetIdentifiable i).
Definition oGD k i d := WS (n k) (Get i (option_map n d)).
Definition oCO k x := WS (n k) (ContainsObj (n x)).
Definition oCI k i := WS (n k) (ContainsId i).
Definition oCX k := WS (n k) ContainsOther.
Definition oLN k := WS (n k) Len.
Definition oIT k := WS (n k) Iter.
Definition oM m l := WMux (n m) (nl l).
Definition oMA m k := WMuxApp (n m) (n k).
Definition oN k j := WNewFrom (n k) (n j).
Definition oNL k l := WNewList (n k) (nl l).
Definition oG g p := WGen (n g) p.
Definition case (pool : list ident) (k : Z) (gens : list (string * Z)) (ops : list wop) (h : Z) :=
  (pool, n k, map (fun p => (fst p, n (snd p))) gens, ops, h)."""


def coq_op(op):
    if op[0] == "MA":
        return f"oMA {op[2] if len(op) > 2 else 0} {op[1]}"
    if op[0] in ("M", "MC"):
        return f"oM {op[2] if len(op) > 2 else 0} " + coq_list(str(i) for i in op[1])
    if op[0] == "N":
        return f"oN {op[1]} {op[2]}"
    if op[0] == "NL":
        return f"oNL {op[1]} " + coq_list(str(i) for i in op[2])
    if op[0] == "G":
        return f"oG {op[1]} " + ("None" if op[2] is None else "(Some " + cstr(op[2]) + ")")
    k, kind = op[1], op[2]
    if kind in ("add", "discard", "remove", "cobj"):
        return {"add": "oA", "discard": "oD", "remove": "oR", "cobj": "oCO"}[kind] + f" {k} {op[3]}"
    if kind in ("update", "ior"):
        return ("oU" if kind == "update" else "oI") + f" {k} " + coq_list(str(i) for i in op[3])
    if kind in ("getid", "cid"):
        return ("oGI" if kind == "getid" else "oCI") + f" {k} {cstr(op[3])}"
    if kind == "get":
        return f"oGD {k} {cstr(op[3])} " + ("None" if op[4] is None else f"(Some {op[4]})")
    return {"pop": "oP", "clear": "oC", "cother": "oCX", "len": "oLN", "iter": "oIT"}[kind] + f" {k}"


def coq_case_parts(case):
    pool = coq_list(cstr(p[0]) for p in case["pool"])
    gens = coq_list(f"({cstr(ns)}, {sel})" for ns, sel in case["gens"])
    ops = coq_list(coq_op(o) for o in case["ops"])
    return pool, gens, ops


def coq_case(case, trace):
    pool, gens, ops = coq_case_parts(case)
    return f"(case {pool} {case['nstores']} {gens} {ops} {coq_z(common.zhash_d(trace, 3))})"


def model_trace(case):
    pool, gens, ops = coq_case_parts(case)
    return common.coq_eval(TAG, PRELUDE, f"wtrace {pool} (winit (n {case['nstores']}) "
                           f"(map (fun p => (fst p, n (snd p))) {gens})) {ops}")


def shrink_ops(case, pred):
    cur = dict(case)
    changed = True
    while changed:
        changed = False
        for i in range(len(cur["ops"])):
            cand = dict(cur, ops=cur["ops"][:i] + cur["ops"][i + 1:])
            if cand["ops"] and pred(cand):
                cur, changed = cand, True
                break
    return cur


def quote_cases(rng, nrandom):
    """every code point 0..0x17f inside a short string + random strings"""
    inputs = ["a" + chr(c) + "b" for c in range(0, 0x180)] + ["", "€", "\U0001f600x y"]
    alphabet = [chr(c) for c in list(range(0, 0x80)) + [0xe9, 0x20ac]]
    for _ in range(nrandom):
        inputs.append("".join(rng.choice(alphabet) for _ in range(rng.randint(0, 8))))
    return inputs


# ------------------------------------------------------------------ the check

def run(chk):
    rng = chk.rng
    quick = chk.tier == "quick"
    nseq, maxlen = (3500, 12) if quick else (30000, 16)
    chk.theorems("props.C13", THEOREMS, ["theories/props/C13.vo", "theories/model/StoreObs.vo"])
    cases = []
    corpus = os.path.join(common.VERIF, "corpus", "C13")
    if os.path.isdir(corpus):
        for fn in sorted(os.listdir(corpus)):
            cases.append(json.load(open(os.path.join(corpus, fn))))
    ex, nalpha = exhaustive_cases(3 if quick else 4, quick)
    cases += ex
    chk.cov["exhaustive_short_sequences"] = (
        f"{len(ex)} sequences over {nalpha} mutating calls (14 on one store + construction of a second store from it "
        "and 2 calls on that) on a 4-object pool: all of length <= 2, all of length 3 that use the second store"
        + ("" if quick else ", all of length 3, all single-store ones of length 4"))
    for _ in range(nseq):
        cases.append(gen_case(rng, maxlen))
    terms = []
    reported = set()
    for case in cases:
        trace, fail = run_sdk(case)
        ops = case["ops"]
        chk.seen(case, nontrivial=len(ops) >= 3)
        chk.count(f"stores={case['nstores']}")
        chk.count(f"len={min(len(ops), 16)}")
        for o, t in zip(ops, trace):
            chk.count("op=" + (o[2] if o[0] == "S" else {"M": "mux-arrange", "MC": "mux-construct", "MA": "mux-append", "G": "generate_id", "N": "construct-from-store", "NL": "construct-from-iterable"}[o[0]]))
            chk.count("out=" + {0: "None", 1: "object", 2: "None", 3: "bool", 4: "int", 5: "list", 6: "KeyError",
                                8: "iri"}.get(t[0][0], "other"))
            if o[0] == "G" and t[0][0] == 8:
                iri = bytes(t[0][1:]).decode("utf-8")
                q = _quote(o[2])
                first = case["gens"][o[1]][0] + (q if q else "0000")
                chk.count("generate_id:first-candidate" if iri == first else "generate_id:after-collision-or-cached-counter")
        if fail:
            chk.count("oracle_failures")
            sig0 = f"C13:{fail[1]}:{fail[2]}"
            if sig0 not in reported and len(reported) < 8:      # shrink one case per failure class
                reported.add(sig0)
                small = shrink_ops(case, lambda c: (run_sdk(c)[1] or (0, 0, 0))[1:3] == fail[1:3])
                again = run_sdk(small)[1]
                if again is None:       # not reproducible in isolation
                    small, again = case, fail
                k, kind, code, msg = again
                chk.fail(f"C13:{kind}:{code}", msg, {"case": small, "failing_step": k,
                                                     "how": "tools/c13.py run_sdk(case) -> (trace, failure)"})
        terms.append(coq_case(case, trace))
        if chk.hist.get("oracle_failures", 0) >= 200:
            # the SDK fails the oracle wholesale (e.g. state leaking from case to case inside this process):
            # the failing inputs are recorded, running thousands of further cases adds nothing
            chk.cov["stopped_early"] = f"after {len(terms)} of {len(cases)} cases: 200 oracle failures"
            cases = cases[:len(terms)]
            break
        if len(chk.samples) < 4 and len(ops) >= 8 and case["gens"]:
            chk.samples.append({"case": case, "sdk_observation_last_step": trace[-1][:3]})
    # synthetic providers knowing long runs of candidates (oracle only; the theorem covers every finite provider)
    for code, msg, rp in probe_synthetic(rng)[:3]:
        chk.fail(f"C13:generate_id:{code}", msg, dict(rp, how="tools/c13.py probe_synthetic(rng)"))
    chk.count("synthetic_provider_probes", 2 * 3 * 8 * 2 + 2 * 3 * 4 * 3 * 2)
    # _quote_iri_segment on its own
    qin = quote_cases(rng, 300 if quick else 3000)
    qterms = ["(" + coq_list(str(c) for c in s.encode("utf-8")) + ", "
              + coq_list(str(c) for c in _quote(s).encode("utf-8")) + ")" for s in qin]
    chk.count("quote_inputs", len(qin))
    # UUIDGenerator: correspondence-free, oracle only
    from basyx.aas.util.identification import UUIDGenerator
    ug = UUIDGenerator()
    seen = set()
    for j in range(200):
        u = ug.generate_id(rng.choice(PROPOSALS))
        ok = isinstance(u, str) and u.startswith("urn:uuid:") and u not in seen
        try:
            ok = ok and uuid.UUID(u[len("urn:uuid:"):]).version == 1
        except ValueError:
            ok = False
        seen.add(u)
        if not ok:
            chk.fail("C13:uuid:format-or-repeat", "UUIDGenerator returned a malformed or repeated identifier",
                     {"call_index": j, "value": u})
            break
    chk.count("uuid_calls", 200)

    bad, errs = common.run_mismatch_shards(TAG, PRELUDE, terms, "check_case", shard=400)
    n1 = common.run_mismatch_shards.evaluated
    bad2, errs2 = common.run_mismatch_shards(TAG + "q", PRELUDE, qterms, "check_quote", shard=4000)
    chk.traces = n1 + common.run_mismatch_shards.evaluated - len(bad) - len(bad2)
    for e in errs + errs2:
        chk.tie_broken("correspondence-run", e)
    if bad:
        case = min((cases[i] for i in bad), key=lambda c: len(c["ops"]))
        # shrink: per round evaluate all one-call-shorter candidates in one Coq run
        for _ in range(20):
            cands = [dict(case, ops=case["ops"][:i] + case["ops"][i + 1:]) for i in range(len(case["ops"]))]
            cands = [c for c in cands if c["ops"]]
            if not cands:
                break
            b, e = common.run_mismatch_shards(TAG + "s", PRELUDE, [coq_case(c, run_sdk(c)[0]) for c in cands],
                                              "check_case", shard=400)
            if e or not b:
                break
            case = cands[b[0]]
        tr, fail = run_sdk(case)
        chk.tie_broken("correspondence", {"n_disagreements": len(bad), "case": case, "sdk_trace": tr,
                                          "model_trace": model_trace(case), "oracle_on_this_case": fail})
    if bad2:
        s = qin[bad2[0]]
        chk.tie_broken("correspondence-quote", {"n": len(bad2), "input": s, "sdk": _quote(s)})
    chk.trusted = [
        "Coq 8.16.1 kernel (coqc; vm_compute for the Examples and the correspondence; no native_compute)",
        "hand-written model coq/theories/model/Store.v (+ StoreObs.v) tied to provider.py / identification.py "
        "by this correspondence run; the MutableSet mixins remove/pop/clear/__ior__ are modelled from "
        "collections.abc and exercised through the SDK class that inherits them",
        "identifiers are modelled as UTF-8 byte strings (the quote table only touches ASCII)",
        "tools/c13.py (generator, SDK driver, canonicaliser, dict oracle), tools/common.py",
    ]
    chk.assumptions = ["the identifier of an object does not change while it is stored (x.id is not reassigned)",
                       "providers raise only KeyError for unknown identifiers",
                       "the provider consulted by generate_id knows finitely many identifiers"]
    return chk.finish(level="proof",
                      rule="corpus, then all sequences of mutating calls up to length 3 (quick) / 4 (thorough) on a "
                           "4-object pool, then seeded random call sequences over pools of 3-7 objects of the three "
                           "identifiable kinds sharing 2-4 identifiers that collide with the generator's candidates, "
                           "1-3 stores behind a re-arrangeable multiplexer, 0-2 IRI generators with proposals "
                           "None/empty/colliding/needing escaping; non-trivial = at least 3 calls; distinct by case")


def replay(path):
    r = json.load(open(path))
    rp = r.get("replay") or {}
    if "synthetic" in rp:
        import random
        fl = probe_synthetic(random.Random(0))
        print("synthetic provider probes:", fl[:3])
        return 1 if fl else 0
    if "case" in rp:
        tr, fail = run_sdk(rp["case"])
        print("oracle:", fail)
        return 1 if fail else 0
    print(json.dumps(r, indent=1)[:3000])
    return 1
