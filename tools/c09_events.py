"""C09 - observation of exception flow inside the real readers (tie C for the raise-set tables).

Uses sys.monitoring (no change of the SDK): for every exception that is raised in, or propagates into,
a function of the two reader modules we record
  ORIGIN (module, line, class): the first reader frame that sees the exception object - the statement whose
         primitive (or explicit raise) produced it;
  UNWIND (module, function, mode, class): the exception leaves that reader function.
tools/c09.py maps ORIGIN events to the primitive sites of the translated statement and UNWIND events to the
computed escape sets of the function's instances, and lets Coq check the inclusion.
"""
import sys

TOOL = 3
_state = {"installed": False}


class Hook:
    def __init__(self):
        self.origin = {}
        self.unwind = {}
        self.mode = None          # True failsafe / False strict / None: not inside a reader call
        self.scn = "doc"
        self.alive = []
        self.seen = set()
        self.files = {}

    def install(self):
        from basyx.aas.adapter.json import json_deserialization as JD
        from basyx.aas.adapter.xml import xml_deserialization as XD
        self.files = {JD.__file__: "json", XD.__file__: "xml"}
        M = sys.monitoring
        if not _state["installed"]:
            try:
                M.use_tool_id(TOOL, "c09")
            except ValueError:
                pass
            _state["installed"] = True
        M.register_callback(TOOL, M.events.RAISE, self.on_raise)
        M.register_callback(TOOL, M.events.PY_UNWIND, self.on_unwind)
        M.set_events(TOOL, M.events.RAISE | M.events.PY_UNWIND)
        return self

    def uninstall(self):
        M = sys.monitoring
        M.set_events(TOOL, 0)
        M.register_callback(TOOL, M.events.RAISE, None)
        M.register_callback(TOOL, M.events.PY_UNWIND, None)

    def begin(self, mode, scn="doc"):
        self.mode, self.scn = mode, scn
        self.alive.clear()
        self.seen.clear()

    def end(self):
        self.mode = None
        self.alive.clear()
        self.seen.clear()

    def on_raise(self, code, off, exc):
        mod = self.files.get(code.co_filename)
        if mod is None or self.mode is None or isinstance(exc, GeneratorExit):
            return      # GeneratorExit: the interpreter closing an abandoned generator, never reaches a caller
        i = id(exc)
        if i in self.seen:
            return
        self.seen.add(i)
        self.alive.append(exc)     # keeps the id unique until the reader call ends
        line = sys._getframe(1).f_lineno
        k = (mod, line, exc_name(exc), self.mode, self.scn)
        self.origin[k] = self.origin.get(k, 0) + 1

    def on_unwind(self, code, off, exc):
        mod = self.files.get(code.co_filename)
        if mod is None or self.mode is None or isinstance(exc, GeneratorExit):
            return
        qn = code.co_qualname
        if "<locals>" in qn:
            return
        k = (mod, qn.split(".")[-1], exc_name(exc), self.mode, self.scn)
        self.unwind[k] = self.unwind.get(k, 0) + 1

    def drain(self):
        o, u = self.origin, self.unwind
        self.origin, self.unwind = {}, {}
        return o, u


def exc_name(exc):
    t = type(exc)
    return f"{t.__module__}.{t.__qualname__}"


def merge(acc, part):
    if part is None:
        return
    for a, p in zip(acc, part):
        for k, v in p.items():
            a[k] = a.get(k, 0) + v
