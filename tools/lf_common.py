"""Helpers shared by the local-file checks C14 and C15: payload generator, an attribute-level
canonicaliser that is independent of the SDK's JSON adapter, scratch directories, and a step
scheduler that drives real threads through chosen interleavings."""
import datetime
import decimal
import enum
import hashlib
import os
import shutil
import tempfile
import threading

SCRATCH_PREFIX = "/tmp/lf-builder-"


class Hang(BaseException):
    """an SDK call did not return within its time limit (BaseException: not swallowed by `except Exception`)"""


class deadline:
    """`with deadline(s):` - raises Hang inside the block when it runs longer than s seconds.  SIGALRM based (lock
    acquires are interruptible by signals on POSIX), so only usable in the main thread of a process."""

    def __init__(self, seconds):
        self.seconds = seconds

    def __enter__(self):
        import signal

        def handler(sig, frame):
            raise Hang()
        self.old = signal.signal(signal.SIGALRM, handler)
        signal.setitimer(signal.ITIMER_REAL, self.seconds)

    def __exit__(self, *a):
        import signal
        signal.setitimer(signal.ITIMER_REAL, 0)
        signal.signal(signal.SIGALRM, self.old)
        return False


def scratch_dir(tag):
    return tempfile.mkdtemp(prefix=f"{SCRATCH_PREFIX}{tag}-")


def rm_scratch(path):
    if path.startswith(SCRATCH_PREFIX):
        shutil.rmtree(path, ignore_errors=True)


def doc_name(identifier):
    """file name the store uses for an identifier (recomputed here, not taken from the SDK)"""
    return hashlib.sha256(identifier.encode("utf-8")).hexdigest() + ".json"


# ---------------------------------------------------------------- canonical form of an object

_SKIP = {"parent", "source", "namespace_element_sets",
         "uuid_seq"}   # SubmodelElementList's counter for generated idShorts: not a metamodel attribute


def canon(o, _depth=0):
    """A string describing every attribute of a metamodel object (parent/source excluded), equal
    for two objects iff they agree in every attribute.  Generic over vars(): it knows nothing
    about the JSON mapping.  Unordered containers are sorted by the canonical strings."""
    from basyx.aas import model
    from dateutil.relativedelta import relativedelta
    if _depth > 60:
        raise RecursionError("canon: too deep")
    d = _depth + 1
    if isinstance(o, str):
        if o.startswith("generated_submodel_list_hack_"):
            return "s'<generated idShort of a list item>'"
        return "s" + repr(o)
    if o is None or isinstance(o, (bool, int, float, bytes)):
        return type(o).__name__[0] + repr(o)
    if isinstance(o, bytearray):
        return "b" + repr(bytes(o))
    if isinstance(o, enum.Enum):
        return "E{}.{}".format(type(o).__name__, o.name)
    if isinstance(o, type):
        return "T" + o.__name__
    if isinstance(o, (datetime.datetime, datetime.date, datetime.time, datetime.timedelta, decimal.Decimal,
                      relativedelta)):
        return "V" + repr(o)
    if isinstance(o, model.OrderedNamespaceSet):
        return "O[" + ",".join(canon(x, d) for x in o) + "]"
    if isinstance(o, model.NamespaceSet):
        return "N{" + ",".join(sorted(canon(x, d) for x in o)) + "}"
    if isinstance(o, dict):
        return "D{" + ",".join(sorted(canon(k, d) + ":" + canon(v, d) for k, v in o.items())) + "}"
    if isinstance(o, (set, frozenset)):
        return "S{" + ",".join(sorted(canon(x, d) for x in o)) + "}"
    if isinstance(o, (list, tuple)) or type(o).__name__ == "ConstrainedList":
        return "L[" + ",".join(canon(x, d) for x in o) + "]"
    if isinstance(o, model.LangStringSet):
        return "M" + type(o).__name__ + repr(sorted((k, v) for k, v in o.items()))
    if hasattr(o, "__dict__"):
        items = []
        for k, v in sorted(vars(o).items()):
            k2 = k.lstrip("_")
            if k2 in _SKIP:
                continue
            items.append(k2 + "=" + canon(v, d))
        return type(o).__name__ + "(" + ",".join(items) + ")"
    if hasattr(o, "__slots__"):
        return type(o).__name__ + "(" + ",".join(k + "=" + canon(getattr(o, k), d) for k in o.__slots__) + ")"
    return "R" + type(o).__name__ + repr(o)


# ---------------------------------------------------------------- payloads

IDS = ["urn:c15:a", "https://example.org/sm/1?x=y&z=#frag", "urn:c15:../../etc/passwd", "urn:c15:ünï/çødé\\b c",
       "x", "urn:c15:" + "L" * 300, "id with spaces\tand\ttabs", "urn:c15:%2F%00",
       "M" * 2000, "urn:\U0001F600:emoji", "line\nbreak\r\n", "name.json", "..", " ", "\uff26\uff35\uff2c\uff2c", "con\\aux/"]


def make_object(kind, identifier, variant):
    """A stored object of the given kind; `variant` selects its attribute values (a 'version')."""
    from basyx.aas import model
    from dateutil.relativedelta import relativedelta
    v = variant
    dt = model.datatypes
    if kind == "sm_small":
        return model.Submodel(identifier, id_short=f"S{v}")
    if kind == "cd":
        return model.ConceptDescription(identifier, id_short=f"CD{v}", is_case_of={
            model.ExternalReference((model.Key(model.KeyTypes.GLOBAL_REFERENCE, f"urn:ref:{v}"),))})
    if kind == "aas":
        return model.AssetAdministrationShell(
            model.AssetInformation(model.AssetKind.INSTANCE, global_asset_id=f"urn:asset:{v}"), identifier,
            id_short=f"A{v}",
            submodel={model.ModelReference((model.Key(model.KeyTypes.SUBMODEL, f"urn:sm:{v}"),), model.Submodel)})
    if kind in ("sm_props", "sm_big"):
        n = 3 if kind == "sm_props" else 90
        els = []
        for i in range(n):
            els.append(model.Property(f"p{i}", dt.Int, value=i * 7 + v))
        els.append(model.Property("s", dt.String, value=f"text {v} \"quoted\" ä€"))
        els.append(model.Property("d", dt.Double, value=0.5 + v))
        els.append(model.Property("b", dt.Boolean, value=bool(v % 2)))
        els.append(model.Property("dur", dt.Duration, value=relativedelta(years=1 + v, days=2)))
        els.append(model.Property("none", dt.String))
        els.append(model.MultiLanguageProperty("mlp", value=model.MultiLanguageTextType({"en": f"v{v}", "de": "zwei"})))
        els.append(model.Range("rng", dt.Int, min=v, max=v + 10))
        els.append(model.Blob("blob", "application/octet-stream", value=bytes([v % 256, 0, 255])))
        els.append(model.SubmodelElementCollection("col", value=[
            model.Property("inner", dt.String, value=f"in{v}"),
            model.SubmodelElementCollection("col2", value=[model.Property("deep", dt.Int, value=v)])]))
        els.append(model.SubmodelElementList("lst", model.Property, value_type_list_element=dt.Int, value=[
            model.Property(None, dt.Int, value=v), model.Property(None, dt.Int, value=v + 1)]))
        return model.Submodel(identifier, id_short=f"P{v}", submodel_element=els,
                              description=model.MultiLanguageTextType({"en": f"desc {v}"}),
                              administration=model.AdministrativeInformation(version="1", revision=str(v % 10)))
    # payloads the serialiser rejects
    if kind == "bad_value":     # ValueError: duration with mixed signs
        return model.Submodel(identifier, id_short=f"B{v}", submodel_element=[
            model.Property("ok", dt.Int, value=v),
            model.Property("dur", dt.Duration, value=relativedelta(years=1, months=-1))])
    if kind == "bad_type":      # TypeError: blob value that is no bytes
        b = model.Blob("blob", "application/octet-stream")
        b.value = "not bytes"   # type: ignore
        return model.Submodel(identifier, id_short=f"B{v}", submodel_element=[model.Property("ok", dt.Int, value=v), b])
    if kind == "bad_key":       # KeyError: value type without XSD name
        return model.Submodel(identifier, id_short=f"B{v}", submodel_element=[
            model.Property("ok", dt.Int, value=v), model.Property("c", complex)])  # type: ignore
    raise ValueError(kind)


GOOD_KINDS = ["sm_small", "sm_props", "cd", "aas", "sm_big"]
BAD_KINDS = {"bad_value": 3, "bad_type": 4, "bad_key": 2}     # -> exception class code


def make_bad_in_place(obj, kind):
    """turn a stored Submodel into one the serialiser rejects (for commit)"""
    from basyx.aas import model
    from dateutil.relativedelta import relativedelta
    dt = model.datatypes
    if kind == "bad_value":
        obj.submodel_element.add(model.Property("zz_dur", dt.Duration, value=relativedelta(years=1, months=-1)))
    elif kind == "bad_type":
        b = model.Blob("zz_blob", "application/octet-stream")
        b.value = "not bytes"   # type: ignore
        obj.submodel_element.add(b)
    elif kind == "bad_key":
        obj.submodel_element.add(model.Property("zz_c", complex))  # type: ignore
    else:
        raise ValueError(kind)


def exc_code(e):
    import json
    if isinstance(e, json.JSONDecodeError):
        return 5
    if isinstance(e, OSError):
        return 1
    if isinstance(e, KeyError):
        return 2
    if isinstance(e, ValueError):
        return 3
    if isinstance(e, TypeError):
        return 4
    return 9


# ---------------------------------------------------------------- step scheduler for real threads

class Sched:
    """Threads park at yield points (`point(label)`); `step(tid)` lets thread tid run from the point
    it is parked at to its next point (or to its end).  Deterministic: at most one registered
    thread runs at any time."""

    def __init__(self, timeout=20.0):
        self.cv = threading.Condition()
        self.turn = None
        self.parked = {}
        self.done = set()
        self.tl = threading.local()
        self.timeout = timeout
        self.log = []

    def register(self, tid):
        self.tl.tid = tid

    def point(self, label):
        tid = getattr(self.tl, "tid", None)
        if tid is None:
            return
        with self.cv:
            self.parked[tid] = label
            self.turn = None
            self.cv.notify_all()
            while self.turn != tid:
                if not self.cv.wait(self.timeout):
                    raise TimeoutError(f"thread {tid} starved at {label}")
            del self.parked[tid]

    def finish(self):
        tid = getattr(self.tl, "tid", None)
        with self.cv:
            self.done.add(tid)
            self.turn = None
            self.cv.notify_all()

    def step(self, tid):
        """returns the label the thread left, or None if it had already finished"""
        with self.cv:
            while tid not in self.parked and tid not in self.done:
                if not self.cv.wait(self.timeout):
                    raise TimeoutError(f"thread {tid} never parked")
            if tid in self.done:
                return None
            label = self.parked[tid]
            self.log.append((tid, label))
            self.turn = tid
            self.cv.notify_all()
            while self.turn == tid:
                if not self.cv.wait(self.timeout):
                    raise TimeoutError(f"thread {tid} did not reach its next point after {label}")
            return label
