#!/bin/bash
# usage: tools/cov_audit.sh <Cxx> [tier]   - runs the check from a scratch copy of /verif under coverage.py and reports which
# lines of the property's anchored source files (properties.jsonl anchors.files) the run never executed.  A line the
# harness never executes can only be guarded by the translator/fingerprint tie (no concrete failing input), never by the
# oracle or the correspondence, so the report is the work list for generator / operation-alphabet extensions.
# Output: /verif/work/cov/<Cxx>.txt.  Not a check; registered nowhere.
set -u
pid="$1"; tier="${2:-quick}"; repo="${VERIF_REPO:-/repo}"
vc="/tmp/covaudit-$$-verif"; out="/verif/work/cov"; mkdir -p "$out"
rsync -a --exclude .git --exclude 'replays/' --exclude 'work/' "${VERIF_SRC:-/verif}/" "$vc/"
rm -f "$vc/coq/.lock"
files=$(python3 - "$pid" "$repo" <<'PY'
import json,sys
pid,repo=sys.argv[1:3]
for l in open('/verif/properties.jsonl'):
    d=json.loads(l)
    if d['id']==pid:
        print(",".join(repo+"/"+f for f in d['anchors']['files'] if f.endswith('.py')))
PY
)
cat > "$vc/.coveragerc" <<RC
[run]
branch = True
parallel = True
concurrency = thread,multiprocessing
data_file = $vc/.coverage
include = $(echo $files | tr ',' '\n' | sed 's/^/    /' | tr '\n' '\n')
RC
cd "$vc" && VERIF_REPO="$repo" PYTHONPATH="$repo/sdk:$repo/compliance_tool:$vc/tools" PYTHONHASHSEED=0 PIP_NO_INDEX=1 \
    BASYX_PYTHON_SDK_VERIF=1 VERIF_TIER="$tier" COVERAGE_PROCESS_START="$vc/.coveragerc" \
    /venv/bin/python -m coverage run --rcfile="$vc/.coveragerc" "$vc/tools/run_check.py" "$pid" --tier "$tier" > "$vc/out.txt" 2>&1
rc=$?
/venv/bin/python -m coverage combine --rcfile="$vc/.coveragerc" >/dev/null 2>&1
{ echo "# coverage of the anchored files of $pid during ./check $pid --tier $tier (rc=$rc) on $(git -C $repo rev-parse --short HEAD)";
  grep -a "^\[$pid\]" "$vc/out.txt" | tail -1;
  /venv/bin/python "$vc/tools/cov_report.py" "$vc/.coveragerc" "$repo" 2>&1; } > "$out/$pid.txt"
tail -n +1 "$out/$pid.txt" | cut -c1-200 | head -${HEAD:-40}
cd /; rm -rf "$vc"
