"""C05 - wire format matches the official AAS schemas and mapping in both directions.

tie T : tools/py2coq/schemas.py regenerates gen/Gen_Schema.v / gen/Gen_SchemaXml.v from the two schema files shipped in
        the repository (fail-closed); tools/py2coq/jsonrules.py / xmlrules.py regenerate the writer / reader rule tables
        from the adapters.  props/C05.v is re-checked against both.
tie C : (1) the Coq validators jvalid / xvalid against jsonschema / lxml.etree.XMLSchema on the same documents: SDK output
        and mutated documents (verdicts must agree); (2) the model's environment document against the SDK's.
oracle: writing - SDK-written JSON and XML of generated stores (leaf strings from the specification's lexical spaces) is
        validated with jsonschema and lxml.etree.XMLSchema;
        reading - an independent writer driven only by the schema tables, META and the mapping names produces spec-valid
        documents from canonical forms, including forms the SDK never emits; the strict readers must accept them and the
        canonical form of the result must be the source's.
Failure signatures: C05:<write|read>:<json|xml>:<class>:<member>:<facet>."""
import io
import json
import re

import common
import aasgen
import codec_terms
import c05_spec
from codec_terms import q

THEOREMS = ["C05_write_json_generic", "C05_json_conforms", "C05_json_no_nonconforming_row", "C05_json_env_ok",
            "C05_write_json_object", "C05_write_json_members_present", "C05_write_json_store_partial",
            "C05_conforms_rejects_dropped_falsy_value", "C05_leaf_hypotheses",
            "C05_conforms_rejects_swapped_members", "C05_conforms_rejects_null_member",
            "C05_conforms_rejects_swapped_literals", "C05_spec_tables_use_sdk_reader", "C05_spec_documents_conform",
            "C05_read_json_compat", "C05_read_json_partial", "C05_read_json_explicit_defaults_partial",
            "C05_read_enum_literals_refuted", "C05_read_example", "C05_example"]
THEOREMS_X = ["C05_write_xml_generic", "C05_xml_conforms", "C05_xml_env_ok", "C05_write_xml_store_shape",
              "C05_xconforms_rejects_swapped_order", "C05_xml_example"]
VO = ["theories/props/C05.vo", "theories/props/C05x.vo", "theories/model/SchemaObs.vo", "theories/model/SchemaXmlObs.vo"]
PRELUDE_J = ("From Coq Require Import List ZArith String NArith.\n"
             "From Basyx Require Import model.Codec model.CodecSpec model.CodecObs model.SchemaBase model.Schema model.SchemaObs "
             "gen.Gen_JsonRules gen.Gen_Schema.\nOpen Scope string_scope.")
PRELUDE_X = ("From Coq Require Import List ZArith String NArith.\n"
             "From Basyx Require Import model.SchemaBase model.XmlCodec model.SchemaXml model.SchemaXmlObs "
             "gen.Gen_SchemaXml.\nOpen Scope string_scope.")
SCHEMA_DIR = "compliance_tool/aas_compliance_tool/schemas"


# ------------------------------------------------------------------------------------------------- real validators
class Judges:
    def __init__(self):
        import os
        import jsonschema
        from jsonschema import validators, ValidationError
        from lxml import etree
        self.etree = etree
        self.js = json.load(open(os.path.join(common.REPO, SCHEMA_DIR, "aasJSONSchema.json"), encoding="utf-8"))
        self.stock = jsonschema.Draft201909Validator(self.js)

        def pattern(validator, patrn, instance, schema):
            if validator.is_type(instance, "string") and not re.search(patrn, c05_spec.u16(instance)):
                yield ValidationError(f"{instance!r} does not match {patrn!r}")
        # the schema's patterns are ECMA-262 patterns over UTF-16 code units: documents with astral characters are
        # judged with `pattern` evaluated on the code-unit sequence (every other keyword is jsonschema's own)
        self.ext_cls = validators.extend(jsonschema.Draft201909Validator, {"pattern": pattern})
        self.ext = self.ext_cls(self.js)
        self.xs = etree.XMLSchema(etree.parse(os.path.join(common.REPO, SCHEMA_DIR, "aasXMLSchema.xsd")))
        self.sub = {}

    @staticmethod
    def astral(d):
        if isinstance(d, str):
            return any(ord(c) > 0xFFFF for c in d)
        if isinstance(d, list):
            return any(Judges.astral(x) for x in d)
        if isinstance(d, dict):
            return any(Judges.astral(k) or Judges.astral(v) for k, v in d.items())
        return False

    def json_valid(self, d, definition=None):
        """verdict of jsonschema for the whole environment or for one definition of the schema"""
        ext = self.astral(d)
        if definition is None:
            return (self.ext if ext else self.stock).is_valid(d)
        key = (definition, ext)
        if key not in self.sub:
            sch = {"$schema": self.js["$schema"], "definitions": self.js["definitions"],
                   "$ref": "#/definitions/" + definition}
            import jsonschema
            self.sub[key] = (self.ext_cls if ext else jsonschema.Draft201909Validator)(sch)
        return self.sub[key].is_valid(d)

    def xml_valid(self, root):
        return bool(self.xs.validate(root))

    def xml_errors(self):
        return [e.message[:200] for e in self.xs.error_log][:3]


# ------------------------------------------------------------------------------------------------- Coq terms
def doc_term(d):
    if d is None:
        return "DNull"
    if isinstance(d, bool):
        return "DBool true" if d else "DBool false"
    if isinstance(d, str):
        return f"DStr {q(d)}"
    if isinstance(d, (int, float)):
        return "DRaw"
    if isinstance(d, list):
        return "DList [" + "; ".join(doc_term(x) for x in d) + "]"
    if isinstance(d, dict):
        return "DObj [" + "; ".join(f"({q(k)}, {doc_term(v)})" for k, v in d.items()) + "]"
    raise TypeError(type(d))


def fails_term(queries):
    return ("([" + "; ".join(f"({q(p)}, {q(s)})" for (p, s), ok in sorted(queries.items()) if not ok) +
            "] : list (string * string))")


def xml_term(e, twin):
    kids = [k for k in e if isinstance(k.tag, str)]
    if kids:
        parts = [e.text or ""] + [k.tail or "" for k in e]
        txt = "".join(parts)
        text = None if not txt.strip(" \t\r\n") else txt
    else:
        text = e.text if e.text else None
    t = "None" if text is None else f"(Some {q(text)})"
    return f"XE {q(twin.tag(e))} {t} [" + "; ".join(xml_term(k, twin) for k in kids) + "]"


# ------------------------------------------------------------------------------------------------- mutations
def paths(d, p=()):
    yield p
    if isinstance(d, dict):
        for k, v in d.items():
            yield from paths(v, p + (k,))
    elif isinstance(d, list):
        for i, v in enumerate(d):
            yield from paths(v, p + (i,))


def get(d, p):
    for k in p:
        d = d[k]
    return d


def mutate_json(rng, d):
    """one random structural / lexical damage; returns (mutated copy, description)"""
    d = json.loads(json.dumps(d))
    ps = [p for p in paths(d) if p]
    for _ in range(20):
        p = rng.choice(ps)
        parent, k = get(d, p[:-1]), p[-1]
        v = parent[k]
        kind = rng.choice(["delete", "rename", "empty", "retype", "long", "literal", "modeltype", "extra", "swap"])
        if kind == "delete" and isinstance(parent, dict):
            del parent[k]
        elif kind == "rename" and isinstance(parent, dict):
            parent[k + "X"] = parent.pop(k)
        elif kind == "empty" and isinstance(v, (list, str)) and v:
            parent[k] = [] if isinstance(v, list) else ""
        elif kind == "retype":
            parent[k] = rng.choice([None, 5, True, "x", [], {}])
        elif kind == "long" and isinstance(v, str):
            parent[k] = (v or "a") * 1 + "a" * rng.choice([4, 18, 64, 128, 255, 1023, 2000])
        elif kind == "literal" and isinstance(v, str):
            parent[k] = rng.choice(["Instance", "Template", "xs:int", "xs:normalizedString", "Property", "input", "on",
                                    "ModelReference", "Submodel", "FragmentReference", "en", "deu", "x", "0", "01"])
        elif kind == "modeltype" and isinstance(parent, dict) and "modelType" in parent:
            parent["modelType"] = rng.choice(["Property", "Range", "Capability", "Submodel", "Foo", "File"])
        elif kind == "extra" and isinstance(v, dict):
            v["fooBar"] = rng.choice(["x", 1, None])
        elif kind == "swap" and isinstance(parent, dict) and len(parent) > 1:
            k2 = rng.choice([x for x in parent if x != k])
            parent[k], parent[k2] = parent[k2], parent[k]
        else:
            continue
        return d, f"{kind}@{'/'.join(str(x) for x in p if not isinstance(x, int))}"
    return d, "none"


def mutate_xml(rng, root, etree):
    root = etree.fromstring(etree.tostring(root))
    els = [e for e in root.iter() if isinstance(e.tag, str) and e is not root]
    for _ in range(20):
        e = rng.choice(els)
        parent = e.getparent()
        kind = rng.choice(["delete", "rename", "empty", "long", "literal", "swap", "dup", "text", "child"])
        if kind == "delete":
            parent.remove(e)
        elif kind == "rename":
            e.tag = e.tag + "X"
        elif kind == "empty":
            for k in list(e):
                e.remove(k)
            e.text = None
        elif kind == "long" and len(e) == 0:
            e.text = (e.text or "a") + "a" * rng.choice([4, 18, 64, 128, 255, 1023, 2000])
        elif kind == "literal" and len(e) == 0:
            e.text = rng.choice(["Instance", "Template", "xs:int", "xs:normalizedString", "Property", "input", "on",
                                 "ModelReference", "Submodel", "en", "deu", "x", "0", "01", "true", "1", " true ", "TRUE",
                                 "QUJD", "QUJ", "a b"])
        elif kind == "swap" and e.getnext() is not None:
            n = e.getnext()
            parent.remove(n)
            e.addprevious(n)
        elif kind == "dup":
            e.addnext(etree.fromstring(etree.tostring(e)))
        elif kind == "text" and len(e) > 0:
            e.text = "stray"
        elif kind == "child" and len(e) == 0:
            etree.SubElement(e, e.tag).text = "x"
        else:
            continue
        return root, f"{kind}@{c05_spec.Twin.tag(e)}"
    return root, "none"


# ------------------------------------------------------------------------------------------------- reading oracle
def walk(c, f):
    """apply f to every canonical object (dict with _class) in the tree"""
    if isinstance(c, list):
        for x in c:
            walk(x, f)
    elif isinstance(c, dict):
        if "_class" in c:
            f(c)
        for v in c.values():
            walk(v, f)


def collect(canons, pred):
    out = []
    walk(canons, lambda c: out.append(c) if pred(c) else None)
    return out


BCP47_SHAPE = {"deu": "3-letter", "EN": "upper-case", "x-private": "private-use", "i-klingon": "grandfathered",
               "zh-aaa-bbb-ccc": "extlang", "en-a-bbb-x-a-ccc": "extension", "qaa-Qaaa-QM-x-southern": "3-letter",
               "de-1996": "variant", "sl-rozaj-biske": "variant", "hy-Latn-IT-arevela": "variant", "En-Us": "upper-case",
               "art-lojban": "grandfathered", "abcd": "4-letter", "abcdefgh": "5-8-letter"}


VARIANT_KINDS = ["explicit:Submodel.kind", "explicit:SubmodelElementList.order_relevant", "name128", "langtag",
                 "abstract-list", "literal", "key-abstract", "shuffle", "xml-ws:xs:boolean", "xml-ws:xs:base64Binary",
                 "xml-bool-num", "xml-prefix", "xml-noise"]


def variants(kind, rng, canons):
    """(knobs, (class, member, facet)) after mutating `canons` in place towards a spec-valid form the SDK's own writer
    never emits, or (None, None) when the store offers no place for this form; one form per document so that a failure
    is attributed to exactly one of them.  Every kind is tried on every store."""
    if kind.startswith("explicit:"):
        cls, attr = kind[9:].split(".")
        if collect(canons, lambda c: c["_class"] == cls):
            return {"explicit_defaults_for": (cls, attr)}, (cls, c05_spec.schemas.MEMBER[attr], "explicit-default")
    elif kind == "name128":
        sets = [c["display_name"] for c in collect(canons, lambda c: c.get("display_name"))]
        if sets:
            ls = rng.choice(sets)
            n = rng.choice([65, 100, 128])
            ls["items"][0] = [ls["items"][0][0], ("n" * n)]
            return {}, ("LangStringNameType", "text", "maxLength:65-128")
    elif kind == "langtag":
        sets = []
        walk(canons, lambda c: sets.extend(v for v in c.values() if isinstance(v, dict) and "items" in v))
        if sets:
            ls = rng.choice(sets)
            tag = rng.choice(sorted(BCP47_SHAPE))
            if all(t.lower() != tag.lower() for t, _ in ls["items"]):
                ls["items"][0] = [tag, ls["items"][0][1]]
                ls["items"].sort()
                return {}, ("AbstractLangString", "language", "bcp47:" + BCP47_SHAPE[tag])
    elif kind == "abstract-list":
        lists = collect(canons, lambda c: c["_class"] == "SubmodelElementList")
        if lists:
            sml = rng.choice(lists)
            t = sml["type_value_list_element"]
            opts = ["SubmodelElement"] + (["DataElement"] if t in c05_spec.schemas.DATA_ELEMENTS else []) + \
                (["EventElement"] if t == "BasicEventElement" else [])
            sml["type_value_list_element"] = rng.choice(opts)
            return {}, ("SubmodelElementList", "typeValueListElement", "enum:abstract-class")
    elif kind == "literal":
        tags = literal_tags(canons)
        if tags:
            tag = rng.choice(tags)
            style = rng.choice(c05_spec.LITERAL_STYLES[tag])
            return {"literal_style": {tag: style}}, ("ValueDataType", "value", f"lexical:{xs_of_tag(tag)}:{style}")
    elif kind == "key-abstract":
        refs = collect(canons, lambda c: c["_class"] == "ExternalReference" and len(c["key"]) >= 3)
        if refs:
            r = rng.choice(refs)
            r["key"][1]["type"] = rng.choice(["REFERABLE", "IDENTIFIABLE"])
            return {}, ("Key", "type", "enum:abstract-key-type")
    elif kind == "shuffle":
        return {"shuffle": rng}, ("*", "*", "member-order")
    elif kind.startswith("xml-ws:"):
        which = kind[7:]
        if which == "xs:base64Binary":
            there = collect(canons, lambda c: c["_class"] == "Blob" and c.get("value") is not None)
        else:
            there = collect(canons, lambda c: (c["_class"] == "SubmodelElementList" and c.get("order_relevant") is False)
                            or (c["_class"] == "DataSpecificationIEC61360" and c.get("level_types")))
        if there:
            return {"xml_ws": which}, (which, "*", "whitespace-collapse")
    elif kind == "xml-prefix":
        return {"xml_prefix": rng.choice([None, "x", "ns0"])}, ("*", "*", "namespace-prefix")
    elif kind == "xml-noise":
        return {"xml_noise": rng}, ("*", "*", "comment-or-processing-instruction")
    elif kind == "xml-bool-num":
        if collect(canons, lambda c: (c["_class"] == "SubmodelElementList" and c.get("order_relevant") is False)
                   or (c["_class"] == "DataSpecificationIEC61360" and c.get("level_types"))):
            return {"xml_bool_num": True}, ("xs:boolean", "*", "numeric-literal")
    return None, None


def xs_of_tag(tag):
    return c05_spec.xsd_name(tag) if tag[0].isupper() or tag in c05_spec.XSD_NAME else "xs:" + tag


def literal_tags(canons):
    tags = set()

    def f(c):
        for v in c.values():
            if isinstance(v, list) and v and isinstance(v[0], str) and v[0] in c05_spec.LITERAL_STYLES \
                    and len(v) >= 2 and not isinstance(v[1], (list, dict)):
                tags.add(v[0])
    walk(canons, f)
    return sorted(tags)


def matrix_store(rng):
    """one submodel holding a Property for every value of the typed-value pools (every duration of SpecGen.durations(),
    every decimal of SpecGen.DECIMALS, three values of each of the 30 DataTypeDefXsd types) and a BasicEventElement per
    duration as minInterval / maxInterval: the writing and the reading oracle see every one of them on every run"""
    import decimal
    from basyx.aas import model
    g = c05_spec.SpecGen(rng, strings="plain", depth=1)
    values = [(model.datatypes.Duration, d) for d in g.durations()]
    values += [(decimal.Decimal, decimal.Decimal(x)) for x in g.DECIMALS]
    types = []
    while len(types) < 200 and len(set(types)) < 30:
        types.append(g.xsd_type())
    for ty in sorted(set(types), key=lambda c: c.__name__):
        if ty not in (model.datatypes.Duration, decimal.Decimal):
            values += [(ty, aasgen.Gen.xsd_value(g, ty)) for _ in range(3)]
    elems = [model.Property(f"p{n}", ty, v) for n, (ty, v) in enumerate(values)]
    ref = model.ModelReference((model.Key(model.KeyTypes.SUBMODEL, "https://example.org/sm/observed"),), model.Submodel)
    for n, d in enumerate(g.durations()):
        elems.append(model.BasicEventElement(f"e{n}", ref, model.Direction.OUTPUT, model.StateOfEvent.ON,
                                             min_interval=d, max_interval=d if n % 2 else None))
    store = model.DictObjectStore()
    store.add(model.Submodel("https://example.org/sm/typed-value-matrix", submodel_element=elems))
    return store


def calendar_store():
    """one submodel holding every (calendar edge, time zone) pair of SpecGen.calendar_values() - the eight date/time types
    of DataTypeDefXsd - as a Property value and every third one also as min and max of a Range: the writing and the
    reading oracle see every one of them on every run (no random choice)"""
    from basyx.aas import model
    elems = []
    for n, (ty, v) in enumerate(c05_spec.SpecGen.calendar_values()):
        elems.append(model.Property(f"c{n}", ty, v))
        if n % 3 == 0:
            elems.append(model.Range(f"r{n}", ty, min=v, max=v))
    store = model.DictObjectStore()
    store.add(model.Submodel("https://example.org/sm/calendar-edges", submodel_element=elems))
    return store


def fraction_store(rng, n=300):
    """fractional seconds with six significant digits: n microsecond values (a few around powers of ten and ends of
    the range, the rest drawn at random) in an xs:dateTime, an xs:time and an xs:duration Property each, and in
    lastUpdate / minInterval of BasicEventElements (a reader that goes through binary floating point is off by one
    microsecond on about 1 % of them)"""
    import datetime
    from dateutil.relativedelta import relativedelta
    from basyx.aas import model
    us_values = sorted(set([1, 9, 10, 99, 249, 1005, 8999, 99999, 100001, 499999, 500001, 999998, 999999] +
                           rng.sample(range(1, 10 ** 6), n)))
    elems = []
    utc = datetime.timezone.utc
    ref = model.ModelReference((model.Key(model.KeyTypes.SUBMODEL, "https://example.org/sm/observed"),), model.Submodel)
    for n_, us in enumerate(us_values):
        elems.append(model.Property(f"dt{n_}", model.datatypes.DateTime,
                                    datetime.datetime(2020, 1, 2, 3, 4, 5, us, tzinfo=utc if n_ % 2 else None)))
        elems.append(model.Property(f"t{n_}", model.datatypes.Time, datetime.time(23, 59, 59, us)))
        elems.append(model.Property(f"d{n_}", model.datatypes.Duration,
                                    relativedelta(seconds=(1 if n_ % 3 else -1) * (n_ % 60),
                                                  microseconds=(1 if n_ % 3 else -1) * us)))
        if n_ % 5 == 0:
            elems.append(model.BasicEventElement(f"e{n_}", ref, model.Direction.OUTPUT, model.StateOfEvent.ON,
                                                 last_update=datetime.datetime(2021, 6, 7, 8, 9, 10, us, tzinfo=utc),
                                                 min_interval=relativedelta(seconds=n_ % 60, microseconds=us)))
    store = model.DictObjectStore()
    store.add(model.Submodel("https://example.org/sm/fraction-sweep", submodel_element=elems))
    return store


def boundary_value(tname, bound):
    """a string of exactly the minimum / maximum length of a constrained string type of the metamodel that lies in the
    type's lexical space (None: the type has no such bound or its boundary is covered elsewhere)"""
    mn, mx, spaces = c05_spec.schemas.STRING_TYPES[tname]
    if tname in ("ValueDataType", "DateTimeUtc", "Duration", "BlobType", "BcpLangString"):
        return None
    n = mn if bound == "minLength" else mx
    if n is None or n < 1:
        return None
    if "idshort" in spaces:
        return "x" + "a" * (n - 1)
    if "version" in spaces:
        return "9" * n
    if "mime" in spaces:
        return "a/b" if bound == "minLength" else "a/" + "b" * (n - 2)
    if "fileuri" in spaces:
        return "file:/a" if bound == "minLength" else "file:/" + "a" * (n - 6)
    return "a" * n


def string_sites(canons):
    """(object, attribute or lang-item index, constrained string type) for every string the metamodel constrains"""
    sites = []

    def f(c):
        cls = c["_class"]
        for attr, v in c.items():
            if isinstance(v, str) and not attr.startswith("_"):
                tname = c05_spec.schemas.string_type(cls, attr)
                if attr == "category" and cls in c05_spec.schemas.DATA_ELEMENTS:
                    continue             # AASd-090 restricts the category of data elements to three words
                if tname:
                    sites.append((c, attr, tname))
            elif isinstance(v, dict) and "items" in v and v.get("_class") in c05_spec.schemas.LANG_TEXT:
                sites.append((v, "items", c05_spec.schemas.LANG_TEXT[v["_class"]] + "@" + v["_class"]))
    walk(canons, f)
    return sites


def boundary_jobs(rng, base):
    """one document per (constrained string type present in the store, minLength | maxLength): ONE randomly chosen
    occurrence of the type is set to a value of exactly that length (one, so that idShorts and ids stay unique)"""
    jobs = []
    types = sorted({t for _, _, t in string_sites(base)})
    for tname in types:
        for bound in ("minLength", "maxLength"):
            plain = tname.split("@")[0]
            if tname.endswith("@MultiLanguageNameType") and bound == "maxLength":
                continue                 # 65-128 characters: the variant `name128` (open known finding)
            val = boundary_value(plain, bound)
            if val is None:
                continue
            canons = json.loads(json.dumps(base))
            mine = [s for s in string_sites(canons) if s[2] == tname]
            obj, attr, _ = rng.choice(mine)
            if attr == "items":
                obj["items"][0] = [obj["items"][0][0], val]
                member = "text"
            else:
                obj[attr] = val
                member = c05_spec.schemas.MEMBER.get(attr, attr)
            jobs.append((canons, {}, (plain, member, bound)))
    return jobs


def key_literal(name):
    """KeyTypes member name -> the schemas' literal (for signatures only)"""
    return "".join(w.capitalize() for w in name.split("_"))


def read_back(fmt, data):
    if fmt == "json":
        from basyx.aas.adapter.json import read_aas_json_file
        return read_aas_json_file(io.StringIO(data), failsafe=False)
    from basyx.aas.adapter.xml import read_aas_xml_file
    return read_aas_xml_file(io.BytesIO(data), failsafe=False)


def read_oracle(chk, judges, twin, t, rng, store, i, every_style=False, kinds=None, boundaries=False, spec_jobs=None):
    """documents of the independent writer must be judged valid, be accepted by the strict readers and yield the
    canonical form they were written from.  every_style: one document per (literal type, spelling style) on top.
    spec_jobs (store is None): [(canons, knobs, (class, member, facet))] written from the specification alone - values
    no SDK constructor was asked about; one document per job and format"""
    base = [c05_spec.norm(aasgen.canon(o)) for o in store] if store is not None else []
    jobs = [(json.loads(json.dumps(base)), {}, None)] if store is not None else []
    jobs += spec_jobs or []
    for kind in (VARIANT_KINDS if kinds is None else kinds):
        canons = json.loads(json.dumps(base))
        knobs, vsig = variants(kind, rng, canons)
        if knobs is not None:
            jobs.append((canons, knobs, vsig))
    if boundaries:
        jobs += boundary_jobs(rng, base)
    if every_style:
        for tag in literal_tags(base):
            for style in c05_spec.LITERAL_STYLES[tag]:
                jobs.append((json.loads(json.dumps(base)), {"literal_style": {tag: style}},
                             ("ValueDataType", "value", f"lexical:{xs_of_tag(tag)}:{style}")))
    baseline_failed = set()
    noted = {}
    for canons, knobs, vsig in jobs:
        canons = [c05_spec.norm(c) for c in canons]
        exp = {c["id"]: c for c in canons}
        for fmt in ("json", "xml"):
            if vsig and ((fmt == "json" and vsig[2] in ("whitespace-collapse", "numeric-literal", "namespace-prefix",
                                                      "comment-or-processing-instruction"))
                         or (fmt == "xml" and vsig[2] == "member-order")):
                continue
            if vsig and fmt in baseline_failed:
                continue                  # the plain document of this store already fails: reported under its own signature
            iw = c05_spec.IndependentWriter(t, dict(knobs))
            try:
                # validity: the twin validators judge every document (their agreement with jsonschema / lxml is checked
                # on every document of the writing oracle and, for the Coq validators, in the correspondence); the real
                # validators - by far the slowest step - judge every plain document and every third variant document
                chk._c05_n = getattr(chk, "_c05_n", 0) + 1
                real = vsig is None or chk._c05_n % (6 if chk.tier == "quick" else 3) == 0
                if fmt == "json":
                    d = iw.json_env(canons)
                    data = json.dumps(d)
                    loc = twin.jdoc(d)[0][:3]
                    valid = not loc
                    if real and judges.json_valid(d) != valid:
                        chk.tie_broken("twin-json", {"variant": vsig, "jsonschema": not valid, "twin_errors": loc})
                        valid = False
                else:
                    root = iw.xml_env(canons)
                    data = judges.etree.tostring(root, xml_declaration=True, encoding="utf-8")
                    parsed = judges.etree.fromstring(data)
                    loc = twin.xdoc(parsed)[0][:3]
                    valid = not loc
                    if real and judges.xml_valid(parsed) != valid:
                        chk.tie_broken("twin-xml", {"variant": vsig, "lxml": not valid, "twin_errors": loc,
                                                    "lxml_errors": judges.xml_errors()})
                        valid = False
                chk.count("read:judged-by:" + ("real+twin" if real else "twin"))
            except Exception as e:
                chk.tie_broken("independent-writer", f"{fmt} {vsig}: {type(e).__name__}: {e}")
                continue
            label = "baseline" if vsig is None else vsig[2].split(":")[0]
            chk.count(f"read:{fmt}:{label}")
            chk.seen(("read", i, fmt, vsig, sorted(exp)))
            if not valid:
                chk.tie_broken("independent-writer-invalid", {"format": fmt, "variant": vsig, "errors": loc})
                continue
            try:
                st2 = read_back(fmt, data)
                got = c05_spec.canon_of_store(st2)
                problem = aasgen.diff(exp, got)
            except Exception as e:
                problem = f"raised {type(e).__name__}: {str(e)[:200]}"
                cause = e.__cause__
                while cause is not None:
                    problem += f" <- {type(cause).__name__}: {str(cause)[:120]}"
                    cause = cause.__cause__
            if problem:
                if vsig is None:
                    baseline_failed.add(fmt)
                if vsig:
                    s = f"C05:read:{fmt}:{vsig[0]}:{vsig[1]}:{vsig[2]}"
                else:
                    path = problem.partition(": ")[0]
                    attrs = [p.split("[")[0] for p in path.split("/") if p and not p.startswith("http")]
                    m = re.search(r": \['(\w+)', ", problem)
                    leaf = f":{xs_of_tag(m.group(1))}" if m and m.group(1) in c05_spec.LITERAL_STYLES else ""
                    s = (f"C05:read:{fmt}:baseline:{'/'.join(attrs[-2:])}:"
                         f"{'raised' if problem.startswith('raised') else 'value'}{leaf}")
                text = data if isinstance(data, str) else data.decode("utf-8")
                note = knobs.get("note")
                if note and s in noted:         # same signature: listed in the first replay instead of a replay each
                    noted[s].append({"case": note, "problem": problem})
                    continue
                replay = {"format": fmt, "variant": list(vsig) if vsig else None, "problem": problem,
                          "document": text[:30000]}
                if note:
                    replay["case"] = note
                    noted[s] = replay["also_failing"] = []
                chk.fail(s, f"a schema-valid {fmt.upper()} document of the independent writer is not read back as written "
                            f"({vsig or 'baseline'}{', ' + note if note else ''}): {problem}", replay)


# ------------------------------------------------------------------------------------------------- run
def regenerate(chk):
    ok = True
    for name in ("jsonrules", "xmlrules", "schemas"):
        try:
            mod = __import__(f"py2coq.{name}", fromlist=["regenerate"])
            chk.notes.append(mod.regenerate())
        except Exception as e:
            chk.tie_broken(f"translator-{name}", f"{type(e).__name__}: {e}")
            ok = False
    return ok


def sig(direction, fmt, err):
    cls, member, facet = err
    return f"C05:{direction}:{fmt}:{cls}:{member}:{facet}"


def skeleton_sig(fmt, d):
    path, _, what = d.partition(": ")
    parts = [p.split("[")[0] for p in path.split("/") if p]
    parts = [p for p in parts if p not in ("kids",) and not p.startswith("http")]
    kind = "missing-or-extra" if ("missing" in what or what.startswith("length")) else "differs"
    names = re.findall(r"'(\w+)'", what)[:1] if fmt == "xml" and "missing" in what else []
    return f"C05:write:{fmt}:mapping:{'/'.join(parts[-2:] + names)}:{kind}"


def write_oracle(chk, judges, twin, store, i, strings, t=None):
    """SDK-written JSON and XML of one generated store, judged by the real validators"""
    from basyx.aas.adapter.json import write_aas_json_file
    from basyx.aas.adapter.xml import write_aas_xml_file
    ids = sorted(o.id for o in store)
    out = {}
    buf = io.StringIO()
    write_aas_json_file(buf, store)
    d = json.loads(buf.getvalue())
    out["json"] = d
    ok = judges.json_valid(d)
    errs, queries = twin.jdoc(d)
    chk.count("write:json:" + ("valid" if ok else "invalid"))
    if ok != (not errs):
        chk.tie_broken("twin-json", {"store": ids, "jsonschema": ok, "twin_errors": errs[:3]})
    if not ok:
        for e in (errs or [("", "", "unlocated")])[:4]:
            chk.fail(sig("write", "json", e), f"SDK-written JSON of a generated store is not schema-valid: {e}",
                     {"how": f"seed={chk.seed} store #{i} ({strings}); re-run ./check C05", "ids": ids, "error": list(e),
                      "document": d})
    canons = [c05_spec.norm(aasgen.canon(o)) for o in store]
    iw = c05_spec.IndependentWriter(t or twin.t, {})
    try:
        df = aasgen.diff(c05_spec.jskel(iw.json_env(canons)), c05_spec.jskel(d))
    except Exception as e:
        chk.tie_broken("independent-writer", f"json skeleton: {type(e).__name__}: {e}")
        df = None
    chk.count("mapping:json:" + ("differs" if df else "same"))
    if df:
        chk.fail(skeleton_sig("json", df),
                 "SDK-written JSON differs from the document the mapping prescribes (names, nesting, strings; typed literals "
                 f"and defaulted attributes masked): prescribed != written at {df[:300]}",
                 {"how": f"seed={chk.seed} store #{i} ({strings}); re-run ./check C05", "ids": ids, "difference": df,
                  "document": d})
    for cls, member, vt, lit in c05_spec.typed_values_json(d):
        chk.count("lexical:json:" + vt)
        if c05_spec.lexical_ok(vt, lit) is False:
            chk.fail(f"C05:write:json:{cls}:{member}:lexical:{vt}",
                     f"typed value written to JSON is no literal of its valueType {vt}: {lit!r}",
                     {"how": f"seed={chk.seed} store #{i} ({strings}); re-run ./check C05", "ids": ids, "class": cls,
                      "member": member, "valueType": vt, "literal": lit})
    bio = io.BytesIO()
    write_aas_xml_file(bio, store)
    root = judges.etree.fromstring(bio.getvalue())
    try:
        df = c05_spec.xskel_diff(c05_spec.xskel(iw.xml_env(canons)), c05_spec.xskel(root))
    except Exception as e:
        chk.tie_broken("independent-writer", f"xml skeleton: {type(e).__name__}: {e}")
        df = None
    chk.count("mapping:xml:" + ("differs" if df else "same"))
    if df:
        chk.fail(skeleton_sig("xml", df),
                 "SDK-written XML differs from the document the mapping prescribes (element names, nesting, text; typed "
                 f"literals and defaulted attributes masked): prescribed != written at {df[:300]}",
                 {"how": f"seed={chk.seed} store #{i} ({strings}); re-run ./check C05", "ids": ids, "difference": df,
                  "document": bio.getvalue().decode("utf-8")[:20000]})
    # a second rendering that is kept as an element tree until the NEXT store has been rendered in the same process:
    # state shared between renderings (cached elements, class-level tables) shows up as a change of the earlier tree
    from basyx.aas.adapter.xml.xml_serialization import object_store_to_xml_element
    held = getattr(chk, "_c05_held", None)
    chk._c05_held = (object_store_to_xml_element(store), canons, ids)
    if held is not None:
        try:
            dfh = c05_spec.xskel_diff(c05_spec.xskel(iw.xml_env(held[1])), c05_spec.xskel(held[0]))
        except Exception as e:
            chk.tie_broken("independent-writer", f"held xml skeleton: {type(e).__name__}: {e}")
            dfh = None
        chk.count("mapping:xml-held:" + ("differs" if dfh else "same"))
        if dfh:
            chk.fail(skeleton_sig("xml", dfh) + ":after-next-rendering",
                     "an XML element tree rendered by object_store_to_xml_element changed when the next store was rendered "
                     f"in the same process: prescribed != tree at {dfh[:300]}",
                     {"how": f"seed={chk.seed} store #{i - 1} rendered, then store #{i}", "ids": held[2], "difference": dfh})
    for cls, member, vt, lit in c05_spec.typed_values_xml(root):
        chk.count("lexical:xml:" + vt)
        if c05_spec.lexical_ok(vt, lit) is False:
            chk.fail(f"C05:write:xml:{cls}:{member}:lexical:{vt}",
                     f"typed value written to XML is no literal of its valueType {vt}: {lit!r}",
                     {"how": f"seed={chk.seed} store #{i} ({strings}); re-run ./check C05", "ids": ids, "class": cls,
                      "member": member, "valueType": vt, "literal": lit})
    out["xml"] = root
    ok = judges.xml_valid(root)
    lx = judges.xml_errors() if not ok else []
    errs, queries = twin.xdoc(root)
    chk.count("write:xml:" + ("valid" if ok else "invalid"))
    if ok != (not errs):
        chk.tie_broken("twin-xml", {"store": ids, "lxml": ok, "lxml_errors": lx, "twin_errors": errs[:3]})
    if not ok:
        for e in (errs or [("", "", "unlocated")])[:4]:
            chk.fail(sig("write", "xml", e), f"SDK-written XML of a generated store is not schema-valid: {e} {lx[:1]}",
                     {"how": f"seed={chk.seed} store #{i} ({strings}); re-run ./check C05", "ids": ids, "error": list(e),
                      "lxml": lx, "document": bio.getvalue().decode("utf-8")[:20000]})
    return out



def writer_raised(chk, store, label, t):
    """the oracle could not judge a store because something raised: find out whether it was one of the SDK's writers and,
    if so, on which object - every identifiable of the store alone and, for a submodel, every top-level element alone in
    a submodel of its own - and report each culprit with its canonical form and the JSON the mapping prescribes for it
    (independent writer: class, valueType, literal).  True if at least one writer failure was reported"""
    from basyx.aas import model
    from basyx.aas.adapter.json import write_aas_json_file
    from basyx.aas.adapter.xml import write_aas_xml_file

    def attempt(objs):
        st = model.DictObjectStore()
        for o in objs:
            st.add(o)
        errs = {}
        for fmt, wr, buf in (("json", write_aas_json_file, io.StringIO()), ("xml", write_aas_xml_file, io.BytesIO())):
            try:
                wr(buf, st)
            except Exception as e:
                errs[fmt] = e
        return errs

    def prescribed(canon):
        try:
            env = c05_spec.IndependentWriter(t, {}).json_env([canon])
            return next(v[0] for v in env.values() if v)
        except Exception as e:           # the replay then carries the canonical form only
            return f"(independent writer: {type(e).__name__}: {e})"

    if not attempt(list(store)):
        return False
    found = 0
    reported = set()
    for o in sorted(store, key=lambda x: x.id):
        whole = attempt([o])
        if not whole:
            continue
        culprits = []
        if isinstance(o, model.Submodel) and len(o.submodel_element) > 1:
            for el in list(o.submodel_element):
                o.submodel_element.remove(el)
                try:
                    single = model.Submodel(o.id, submodel_element=[el])
                    errs = attempt([single])
                    if errs:
                        culprits.append((c05_spec.norm(aasgen.canon(single)), el, errs))
                    single.submodel_element.remove(el)
                finally:
                    o.submodel_element.add(el)
        if not culprits:
            culprits = [(c05_spec.norm(aasgen.canon(o)), o, whole)]
        for canon, el, errs in culprits:
            for fmt, e in sorted(errs.items()):
                vt = getattr(el, "value_type", None)
                vt = ":" + c05_spec.xsd_name(vt.__name__) if isinstance(vt, type) else ""
                s = f"C05:write:{fmt}:raised:{type(el).__name__}{vt}:{type(e).__name__}"
                if s in reported:
                    continue
                reported.add(s)
                found += 1
                chk.fail(s, f"the {fmt.upper()} writer raised {type(e).__name__}: {str(e)[:200]} on a store that satisfies the "
                            f"metamodel constraints ({label}): object {canon.get('id')!r}"
                            + (f", element {el.id_short!r}" if isinstance(el, model.SubmodelElement) else ""),
                         {"how": "build the object of `canonical` (tools/aasgen.py canonical form; `prescribed_json` is what "
                                 f"the mapping prescribes for it) and write it with write_aas_{fmt}_file",
                          "format": fmt, "raised": f"{type(e).__name__}: {e}", "canonical": canon,
                          "prescribed_json": prescribed(canon)})
    return found > 0


_SET_MEMBERS = ("submodels", "isCaseOf", "refersTo", "valueReferencePairs", "specificAssetIds")


def canon_sets_json(d, key=None):
    """SDK output lists the members of Python sets in an order that differs from process to process (Reference.__hash__
    includes the class object): sort them, so that the mutation stream below is a function of the seed alone"""
    if isinstance(d, dict):
        return {k: canon_sets_json(v, k) for k, v in d.items()}
    if isinstance(d, list):
        items = [canon_sets_json(x) for x in d]
        if key in _SET_MEMBERS and all(isinstance(x, dict) for x in items) and not any("id" in x and "modelType" in x for x in items):
            items.sort(key=lambda x: json.dumps(x, sort_keys=True))
        return items
    return d


def canon_sets_xml(root, etree):
    for el in root.iter():
        if isinstance(el.tag, str) and etree.QName(el).localname in _SET_MEMBERS \
                and not any(ch.find("{*}id") is not None for ch in el):
            kids = sorted(el, key=lambda ch: etree.tostring(ch))
            for ch in kids:
                el.remove(ch)
            for ch in kids:
                el.append(ch)
    return root


def run(chk):
    rng = chk.rng
    quick = chk.tier == "quick"
    n_store, n_jcases, n_xcases, n_read = (80, 160, 100, 16) if quick else (2400, 1800, 900, 700)
    gen_ok = regenerate(chk)
    if gen_ok:
        ok = chk.theorems("props.C05", THEOREMS, VO)
        okx = chk.theorems("props.C05x", THEOREMS_X, VO)
        if not okx:
            rows = common.coq_eval(
                "C05xrows", "From Coq Require Import List String.\nFrom Basyx Require Import model.XmlCodec model.XmlMeta "
                "model.XmlEntry model.SchemaXml model.SchemaXmlConf gen.Gen_XmlWriter gen.Gen_SchemaXml.\n"
                "Open Scope string_scope.",
                "let M := restrict [\"NormalizedString\"] xml_meta in let xt := xgfp M gen_xml_w xml_schema 20 "
                "(xcandidates gen_xml_w xml_schema) in (xenv_ok xml_schema xt (snd xml_root) xml_tops, "
                "map (fun t => match t with (f, c, _) => (f, c) end) xt)")
            chk.tie_broken("xml-conforming-triples (a writer function missing here no longer conforms)",
                           re.sub(r"\s+", " ", rows)[:2500])
        if not ok:
            common.coq_make(["theories/gen/Gen_Schema.vo", "theories/gen/Gen_JsonRules.vo"])
            rows = common.coq_eval("C05rows", PRELUDE_J, "(nonconforming json_tables json_schema json_smeta json_triples spec_xsd_names, "
                                   "incompatible_rows (mix spec_w_min json_tables) json_meta, "
                                   "incompatible_rows (mix spec_w_explicit json_tables) json_meta, "
                                   "unread_literals json_tables json_schema json_smeta json_triples)")
            chk.tie_broken("nonconforming-rows / incompatible reader rows (min, explicit) / unread literals",
                           re.sub(r"\s+", " ", rows)[:2500])
    else:
        for t in THEOREMS + THEOREMS_X:
            chk.obligations.append((t, "not-checked", []))
    probs = aasgen.meta_crosscheck()
    if probs:
        chk.tie_broken("meta-crosscheck", probs)
    try:
        import py2coq.schemas as schemas
        t = schemas.translate(strict=False)      # the oracles below need only the schema tables: they run even when a
        pats = c05_spec.Patterns(t)
        twin = c05_spec.Twin(t, pats)
        judges = Judges()                        # translator aborted or the theorems no longer build
    except Exception as e:
        chk.tie_broken("schema-tables", f"{type(e).__name__}: {e}")
        return chk.finish(level="proof", rule="schema tables could not be built")

    # ---------------------------------------------------------------- the typed-value matrix: every pool value, every run
    try:
        ms = matrix_store(rng)
        chk.seen(("matrix", sorted(o.id for o in ms)))
        chk.count("matrix:elements", sum(len(o.submodel_element) for o in ms))
        try:
            write_oracle(chk, judges, twin, ms, -1, "typed-value matrix")
        except Exception:
            if not writer_raised(chk, ms, "typed-value matrix", t):
                raise
        read_oracle(chk, judges, twin, t, rng, ms, -1, every_style=True)
    except Exception:
        import traceback
        chk.tie_broken("typed-value-matrix", traceback.format_exc()[-1500:])

    # ---------------------------------------------------------------- calendar edges x time zones: a sweep, every run
    try:
        cs = calendar_store()
        chk.seen(("calendar", sum(len(o.submodel_element) for o in cs)))
        chk.count("calendar:elements", sum(len(o.submodel_element) for o in cs))
        try:
            write_oracle(chk, judges, twin, cs, -1, "calendar edges")
        except Exception:
            if not writer_raised(chk, cs, "calendar edges", t):
                raise
        read_oracle(chk, judges, twin, t, rng, cs, -1, every_style=True, kinds=[])
    except Exception:
        import traceback
        chk.tie_broken("calendar-edges", traceback.format_exc()[-1500:])

    # ---------------------------------------------------------------- six-digit fractional seconds: a sweep, every run
    try:
        fs = fraction_store(rng, 220 if quick else 3000)
        chk.seen(("fractions", sum(len(o.submodel_element) for o in fs)))
        chk.count("fractions:elements", sum(len(o.submodel_element) for o in fs))
        try:
            write_oracle(chk, judges, twin, fs, -2, "fraction sweep")
        except Exception:
            if not writer_raised(chk, fs, "fraction sweep", t):
                raise
        read_oracle(chk, judges, twin, t, rng, fs, -2, kinds=[])
    except Exception:
        import traceback
        chk.tie_broken("fraction-sweep", traceback.format_exc()[-1500:])

    # ---------------------------------------------------------------- admissible key chains of references: a sweep, every run
    try:
        sweep = c05_spec.reference_sweep()
        chk.count("refsweep:chains", len(sweep))
        read_oracle(chk, judges, twin, t, rng, None, -9, kinds=[], spec_jobs=[
            (canons, {"note": "/".join(key_literal(k) for k in chain) + " at " + site}, (cls, "keys", "key-chain"))
            for canons, cls, chain, site in sweep])
        # writing direction: the same references in one store (obtained through the strict reader - the constructors
        # are not asked directly; a rejected chain is already reported above and left out here)
        from basyx.aas import model as _model
        ws = _model.DictObjectStore()
        for canons, cls, chain, site in sweep:
            try:
                ws.update(read_back("json", json.dumps(c05_spec.IndependentWriter(t, {}).json_env(canons))))
            except Exception:
                chk.count("refsweep:write:left-out")
        if len(ws):
            chk.seen(("refsweep-write", len(ws)))
            try:
                write_oracle(chk, judges, twin, ws, -9, "reference sweep")
            except Exception:
                if not writer_raised(chk, ws, "reference sweep", t):
                    raise
    except Exception:
        import traceback
        chk.tie_broken("reference-sweep", traceback.format_exc()[-1500:])

    # ---------------------------------------------------------------- boundary lengths of every constrained string type
    for i in range(2 if quick else 30):
        try:
            g = c05_spec.SpecGen(rng, strings="plain", depth=2, p_opt=0.85)
            bs = g.store(3)
            bs.add(g.submodel())
            for cname in ("AssetAdministrationShell", "ConceptDescription"):
                if not any(type(o).__name__ == cname for o in bs):
                    bs.add(g.obj(cname))
            chk.seen(("boundaries", i, sorted(o.id for o in bs)))
            read_oracle(chk, judges, twin, t, rng, bs, -3 - i, kinds=[], boundaries=True)
        except Exception:
            import traceback
            chk.tie_broken("boundary-lengths", traceback.format_exc()[-1500:])

    # ---------------------------------------------------------------- writing oracle on whole stores
    jdocs, xdocs = [], []
    for i in range(n_store):
        strings = ("plain", "json", "xml")[i % 3]
        g = c05_spec.SpecGen(rng, strings=strings, depth=3)
        try:
            store = g.store(rng.randint(1, 4))
        except Exception as e:
            chk.tie_broken("generator", f"{type(e).__name__}: {e}")
            continue
        chk.seen(("store", i, sorted(o.id for o in store)))
        for k, n in g.features.items():
            chk.count("elem:" + k, n)
        try:
            out = write_oracle(chk, judges, twin, store, i, strings)
        except Exception as e:
            if not writer_raised(chk, store, f"seed={chk.seed} store #{i} ({strings})", t):
                chk.fail("C05:write:raised", f"writing a generated store raised {type(e).__name__}: {e}",
                         {"how": f"seed={chk.seed} store #{i}", "ids": sorted(o.id for o in store)})
            continue
        if strings == "plain":
            jdocs.append(canon_sets_json(out["json"]))
            xdocs.append(canon_sets_xml(out["xml"], judges.etree))

    # ---------------------------------------------------------------- reading oracle (independent writer)
    for i in range(n_read):
        g = c05_spec.SpecGen(rng, strings=("plain", "json", "xml")[i % 3], depth=3)
        try:
            store = g.store(rng.randint(1, 2))
        except Exception as e:
            chk.tie_broken("generator", f"{type(e).__name__}: {e}")
            continue
        try:
            read_oracle(chk, judges, twin, t, rng, store, i)
        except Exception as e:
            import traceback
            chk.tie_broken("read-oracle", traceback.format_exc()[-1500:])

    # ---------------------------------------------------------------- tie C: Coq validators vs real validators
    jterms, jmeta = [], []
    k = 0
    while len(jterms) < n_jcases and jdocs:
        d = jdocs[k % len(jdocs)]
        k += 1
        # a single identifiable (smaller terms) or, every fifth case, the whole environment
        if k % 5 == 0:
            ty, definition, doc = f'SObj {q(t["json"]["root"])}', None, d
        else:
            member = rng.choice(sorted(d))
            doc = rng.choice(d[member])
            definition = {"assetAdministrationShells": "AssetAdministrationShell", "submodels": "Submodel",
                          "conceptDescriptions": "ConceptDescription"}[member]
            ty = f"SObj {q(definition)}"
        desc = "sdk-output"
        if k % 3:
            doc, desc = mutate_json(rng, doc)
        try:
            real = judges.json_valid(doc, definition)
            errs, queries = twin.jdoc(doc, definition)
            term = f"({ty}, {doc_term(doc)}, {fails_term(queries)}, {'true' if real else 'false'})"
        except ValueError:
            continue
        if len(term) > 120000:
            continue
        jterms.append(term)
        jmeta.append((desc, real, doc, definition, errs[:3]))
        chk.count("tieC:json:" + ("valid" if real else "invalid"))
        chk.count("tieC:json:mut:" + desc.split("@")[0])
    eterms = []
    for i in range(16 if quick else 200):
        g = c05_spec.SpecGen(rng, strings="plain", depth=2)
        try:
            store = g.store(rng.randint(0, 3))
            from basyx.aas.adapter.json import object_store_to_json
            real = json.loads(object_store_to_json(store))
            falsy = set()
            vals = [codec_terms.to_value(o, falsy).term() for o in store]
            eterms.append("([" + "; ".join(vals) + "], ([" + "; ".join(q(x) for x in sorted(falsy)) +
                          "] : list string), " + common.coq_z(codec_terms.hdoc(0, real)) + ")")
            chk.count("tieC:env:%d" % len(vals))
        except ValueError:
            continue
    xterms, xmeta = [], []
    k = 0
    while len(xterms) < n_xcases and xdocs:
        root = xdocs[k % len(xdocs)]
        k += 1
        desc = "sdk-output"
        if k % 3:
            root, desc = mutate_xml(rng, root, judges.etree)
        try:
            real = judges.xml_valid(root)
            errs, queries = twin.xdoc(root)
            term = f"({xml_term(root, twin)}, {fails_term(queries)}, {'true' if real else 'false'})"
        except ValueError:
            continue
        if len(term) > 150000:
            continue
        xterms.append(term)
        xmeta.append((desc, real, judges.xml_errors() if not real else [], errs[:3]))
        chk.count("tieC:xml:" + ("valid" if real else "invalid"))
        chk.count("tieC:xml:mut:" + desc.split("@")[0])
    if gen_ok:
        bad, errs = common.run_mismatch_shards("C05j", PRELUDE_J, jterms, "check_j", shard=10, jobs=16)
        n1 = common.run_mismatch_shards.evaluated
        bad2, errs2 = common.run_mismatch_shards("C05x", PRELUDE_X, xterms, "check_x", shard=6, jobs=16)
        n2 = common.run_mismatch_shards.evaluated
        bad3, errs3 = common.run_mismatch_shards("C05e", PRELUDE_J, eterms, "check_env", shard=6, jobs=16)
        chk.traces = n1 + n2 + common.run_mismatch_shards.evaluated - len(bad) - len(bad2) - len(bad3)
        if bad3:
            chk.tie_broken("correspondence-env-doc", {"n": len(bad3), "case_prefix": eterms[bad3[0]][:600]})
        for e in (errs + errs2 + errs3)[:3]:
            chk.tie_broken("correspondence-run", e)
        if bad:
            desc, real, doc, definition, terrs = jmeta[bad[0]]
            chk.tie_broken("correspondence-json-validator",
                           {"n": len(bad), "mutation": desc, "jsonschema": real, "definition": definition,
                            "twin_errors": terrs, "document": doc})
        if bad2:
            desc, real, lx, terrs = xmeta[bad2[0]]
            chk.tie_broken("correspondence-xml-validator",
                           {"n": len(bad2), "mutation": desc, "lxml": real, "lxml_errors": lx, "twin_errors": terrs})
        if jmeta:
            chk.samples.append({"json_case": jmeta[0][0], "jsonschema": jmeta[0][1], "term_prefix": jterms[0][:300]})
        if xmeta:
            chk.samples.append({"xml_case": xmeta[0][0], "lxml": xmeta[0][1], "term_prefix": xterms[0][:300]})

    chk.trusted = [
        "Coq 8.16.1 kernel; vm_compute for the finite conformance checks over the generated tables and for the correspondence; no native_compute",
        "translators tools/py2coq/schemas.py (fail-closed flattening of allOf / $ref / oneOf and of xs:group / xs:sequence / xs:choice), jsonrules.py, xmlrules.py",
        "specification-side table in tools/py2coq/schemas.py: attribute -> member name, constrained string types, lexical space -> schema pattern, cardinalities 1..*, DataTypeDefXsd (30 literals); aasgen.META cross-checked against constructor signatures each run",
        "`pattern` facets are not interpreted in Coq: theorems hold for every pattern oracle pm; in the correspondence Python's re decides them (JSON patterns on UTF-16 code units as ECMA-262 prescribes; XSD patterns by an own translation to re.fullmatch; xs:boolean / xs:base64Binary by own regular expressions)",
        "mapping-skeleton oracle: SDK output must equal the independent writer's document in names, nesting and strings (typed literals and defaulted attributes masked)",
        "typed XSD values / bytes are leaves identified by their literal (C06); JSON text layer json.dumps/loads, XML text layer lxml",
        "real validators as judges: jsonschema Draft 2019-09 (its `pattern` keyword re-implemented on UTF-16 code units for documents with astral characters), lxml.etree.XMLSchema (libxml2); libxml2 reads the range \\]-~ of the contentType pattern as three characters, so quoted content-type parameters are generated in upper case",
        "lexical spaces of the 30 XSD value types as regular expressions + integer ranges in tools/c05_spec.py (written from XML Schema Part 2), applied to every typed value / min / max of SDK output in both formats",
        "harness tools/c05.py, tools/c05_spec.py, tools/aasgen.py, tools/codec_terms.py",
    ]
    chk.assumptions = ["C06 (lexical forms of typed values)", "json / lxml parse and print the abstract documents faithfully"]
    return chk.finish(
        level="proof",
        rule="seeded generator c05_spec.SpecGen (aasgen.Gen with BCP 47 tags, RFC 2046 content types, RFC 8089 file URIs, "
             "version/revision digits, DataTypeDefXsd types, no empty strings): stores of 1-4 identifiables, depth<=3, every "
             "class, optional attributes p=.5, plain/JSON-stress/XML-stress strings in turn; every run also the typed-value matrix, "
             "the calendar sweep (every calendar edge of the eight date/time types x every time-zone class, as Property and "
             "Range) and the fraction sweep; a raising writer is narrowed down to one element; validator correspondence on SDK "
             "output and on one random damage per document (delete, rename, empty, retype, long, literal, modelType, extra, "
             "swap, duplicate, stray text); non-trivial = every generated case; distinct by ids")


def replay(path):
    r = json.load(open(path))
    print(json.dumps(r, indent=1)[:6000])
    return 1
