#!/bin/bash
# usage: tools/seeded_run.sh <patch.diff> <Cxx> [tier]
# Runs check Cxx against a scratch worktree of /repo with the patch applied, from a scratch copy of /verif, so that
# (VERIF_SRC=<dir> uses another copy of /verif as the source of the machinery)
# neither /repo nor /verif (gen files, evidence, .vo) is disturbed while other work is going on.  Prints the check's
# output and "SEEDED-RESULT rc=<rc>".  Removes both scratch directories afterwards.
set -u
patch="$(readlink -f "$1")"; pid="$2"; tier="${3:-quick}"
tag="seedrun-$$"
wt="/tmp/$tag-wt"; vc="/tmp/$tag-verif"
git -C /repo worktree add --detach "$wt" HEAD >/dev/null 2>&1 || { echo "worktree failed"; exit 2; }
if ! git -C "$wt" apply "$patch"; then echo "patch does not apply"; git -C /repo worktree remove --force "$wt"; exit 2; fi
rsync -a --exclude .git --exclude 'replays/' --exclude 'work/' "${VERIF_SRC:-/verif}/" "$vc/"
rm -f "$vc/coq/.lock"
cd "$vc" && VERIF_REPO="$wt" PYTHONPATH="$wt/sdk:$wt/compliance_tool:$vc/tools" PYTHONHASHSEED=0 PIP_NO_INDEX=1 \
    BASYX_PYTHON_SDK_VERIF=1 VERIF_TIER="$tier" /venv/bin/python "$vc/tools/run_check.py" "$pid" --tier "$tier" > "$vc/out.txt" 2>&1
rc=$?
grep -v -i conda "$vc/out.txt"
cd /
echo "--- replays:"; ls "$vc/replays" 2>/dev/null | head
for f in "$vc"/replays/*.json; do [ -f "$f" ] && { echo "== $f"; head -c 1500 "$f"; echo; }; done 2>/dev/null | head -80
echo "SEEDED-RESULT rc=$rc"
git -C /repo worktree remove --force "$wt"
rm -rf "$vc"
