"""C01 - namespace containment under every mutation history.

Theorems: coq/theories/props/C01.v over model/Namespace.v.
Tie C: operation sequences are run on the SDK (public API only) and on the model (vm_compute);
after every call both sides are projected to the same observation (model/NamespaceObs.v).
Oracle (independent of the model): check_invariant() over the public API + snapshot comparison
for single-element calls that raise."""
import itertools
import json
import os
import re

import common
from common import coq_str, coq_list, coq_z

THEOREMS = ["C01_init", "C01_step", "C01_reachable", "C01_public", "C01_atomic", "C01_atomic_reachable",
            "C01_extend_atomic", "C01_value_setter_atomic",
            "C01_no_internal_error", "C01_example", "C01_example_atomic", "C01_generated_ids_any_clock"]

# ----------------------------------------------------------------------------- scenarios

ATTR_PY = {"AId": "id_short", "AType": "type", "AName": "name"}
# kind -> (attr, case_sensitive, number of collections per owner, ordered, list hooks)
KINDS = {
    "submodel": ("AId", True, 1, False, False),
    "smc": ("AId", True, 1, False, False),
    "sml": ("AId", True, 1, True, True),
    "entity": ("AId", True, 1, False, False),
    "operation": ("AId", True, 3, False, False),
    "are": ("AId", True, 1, False, False),
    "qualifier": ("AType", True, 1, False, False),
    "extension": ("AName", True, 1, False, False),
    "toy_ci": ("AId", False, 1, True, False),     # the test-suite's kind of namespace: public
    "toy_cs": ("AId", True, 1, True, False),      # NamespaceSet/OrderedNamespaceSet classes on a
    "toy_q_ci": ("AType", False, 1, False, False),  # user-defined Namespace
}
NAMES = {"AId": ["a", "A", "b", "Ab", "aB"], "AType": ["t", "T", "u", "tU", "Tu"], "AName": ["n", "N", "m", "nM", "Nm"]}
GENPFX = "generated_submodel_list_hack_"
# new values for a rename that the syntax checks refuse (empty, too long, control character; for an idShort also
# AASd-002: leading digit, '-'), or accept although unusual (tab) - rename op argument ["bad", j]
BAD = ["", "x" * 129, "a\x01b", "1a", "a-b", "a\tb"]


class Idx:
    """an index object as numpy & co hand them out: __index__, but not an int"""

    def __init__(self, i):
        self.i = i

    def __index__(self):
        return self.i


import sys as _sys
# indices for insert() that are not plain small ints: wrong types and the exact Py_ssize_t boundaries
XIDX = {"str": "0", "none": None, "float": 1.5, "huge": 2 ** 70, "neghuge": -2 ** 70,
        "max": _sys.maxsize, "max+1": _sys.maxsize + 1, "min": -_sys.maxsize - 1, "min-1": -_sys.maxsize - 2,
        "2^63": 2 ** 63, "2^64": 2 ** 64, "idx0": Idx(0), "idx-1": Idx(-1)}


class FailingIterable(Exception):
    pass


def lazy(items, fails):
    """what a caller's generator / parser looks like: yields the items, then (fails) raises"""
    if not fails:
        return items

    def gen():
        for x in items:
            yield x
        raise FailingIterable("the iterable failed while it was consumed")
    return gen()


# ----------------------------------------------------------------------------- environment: the clocks
# The property quantifies over operation sequences only: what a call does must not depend on anything outside the
# history.  The one outside input that the namespace code reads is the clock (generated idShorts of list items).  Every
# case therefore names the clock it runs under ("clock" in the case, part of the replay); the model has no clock at all,
# so the tie compares the SDK under *every* clock below with the same model trace, and the oracle judges each run.
#   running   the real clocks
#   frozen    no clock advances during the history (all calls fall into one tick of a coarse clock)
#   coarse    the clocks advance by one 15.6 ms tick after every 4th reading (Windows / VM timer resolution)
#   stepback  the wall clock is set back by 1 s at every 3rd reading (NTP step, DST-less but legal); the monotonic
#             clocks are coarse
CLOCK_MODES = ["running", "frozen", "coarse", "stepback"]
_WALL = ("time", "time_ns")
_MONO = ("monotonic", "monotonic_ns", "perf_counter", "perf_counter_ns", "process_time", "process_time_ns",
         "thread_time", "thread_time_ns")
_TICK = 15_625_000


def _alias_sites(orig):
    """module globals of the SDK that were bound by `from time import ...`: (module dict, name, clock name)"""
    if not hasattr(_alias_sites, "c"):
        sites = []
        by_id = {id(f): n for n, f in orig.items()}
        for mn, mod in list(_sys.modules.items()):
            if mod is None or not (mn == "basyx" or mn.startswith("basyx.")):
                continue
            for gn, gv in list(vars(mod).items()):
                if id(gv) in by_id and gv is orig[by_id[id(gv)]]:
                    sites.append((vars(mod), gn, by_id[id(gv)]))
        _alias_sites.c = sites
    return _alias_sites.c


class clock_env:
    """`with clock_env(mode):` - the clocks of the `time` module behave as described above inside the block (the real
    functions are put back on exit, also when the block raises)."""

    def __init__(self, mode):
        assert mode in CLOCK_MODES, mode
        self.mode = mode

    def __enter__(self):
        if self.mode == "running":
            return self
        import time as _t
        _sdk()
        if not hasattr(clock_env, "orig"):
            clock_env.orig = {n: getattr(_t, n) for n in _WALL + _MONO if hasattr(_t, n)}
        orig = clock_env.orig
        mode = self.mode
        base = {}
        for n in orig:
            stem = n[:-3] if n.endswith("_ns") else n
            if stem not in base:
                base[stem] = orig[stem + "_ns"]() if stem + "_ns" in orig else int(orig[stem]() * 1e9)
        reads = {stem: 0 for stem in base}

        def reading(stem):
            k = reads[stem]
            reads[stem] = k + 1
            if mode == "frozen":
                return base[stem]
            if mode == "stepback" and stem == "time":
                return base[stem] + (k % 3) * 1000 - (k // 3) * 1_000_000_000
            return base[stem] + (k // 4) * _TICK

        def mk(n):
            stem = n[:-3] if n.endswith("_ns") else n
            if n.endswith("_ns"):
                return lambda: reading(stem)
            return lambda: reading(stem) / 1e9
        self.fakes = {n: mk(n) for n in orig}
        for n, f in self.fakes.items():
            setattr(_t, n, f)
        self.sites = _alias_sites(orig)
        for d, gn, n in self.sites:
            d[gn] = self.fakes[n]
        return self

    def __exit__(self, *a):
        if self.mode == "running":
            return False
        import time as _t
        for n, f in clock_env.orig.items():
            setattr(_t, n, f)
        for d, gn, n in self.sites:
            d[gn] = clock_env.orig[n]
        return False


def coq_str_any(t):
    """Coq string term, control characters spelled with ascii_of_nat"""
    if all(32 <= ord(ch) < 127 for ch in t):
        return coq_str(t)
    parts, cur = [], ""
    for ch in t:
        if 32 <= ord(ch) < 127:
            cur += ch
        else:
            assert ord(ch) < 128
            if cur:
                parts.append(coq_str(cur))
                cur = ""
            parts.append(f'(String (Ascii.ascii_of_nat {ord(ch)}) "")')
    if cur:
        parts.append(coq_str(cur))
    return "(" + " ++ ".join(parts) + ")%string"


def _sdk():
    from basyx.aas import model
    return model


def _sem(m):
    model = _sdk()
    if m is None:
        return None
    return model.ExternalReference((model.Key(model.KeyTypes.GLOBAL_REFERENCE, f"urn:sem:{m}"),))


def _toy_classes():
    model = _sdk()
    if not hasattr(_toy_classes, "c"):
        class ToyId(model.UniqueIdShortNamespace, model.Identifiable):
            def __init__(self, ident):
                super().__init__()
                self.id = ident

        class ToyQ(model.Qualifiable):
            def __init__(self, ident):
                super().__init__()
        _toy_classes.c = (ToyId, ToyQ)
    return _toy_classes.c


def make_elem(attr, spec):
    """spec = (name or None, cls, vt, sem)"""
    model = _sdk()
    name, cls, vt, sem = spec
    VT = {0: model.datatypes.Int, 1: model.datatypes.Int, 2: model.datatypes.String}
    if attr == "AId":
        if cls == 0:
            return model.Property(name, VT[vt], semantic_id=_sem(sem))
        if cls == 1:
            return model.Range(name, VT[vt], semantic_id=_sem(sem))
        if cls == 2:
            return model.MultiLanguageProperty(name, semantic_id=_sem(sem))
        return model.SubmodelElementCollection(name, semantic_id=_sem(sem))
    if attr == "AType":
        return model.Qualifier(name, model.datatypes.Int, semantic_id=_sem(sem))
    return model.Extension(name, semantic_id=_sem(sem))


class Ctx:
    """One universe on the SDK side: owners (namespaces), pool elements."""

    def __init__(self, kind, pool_specs):
        self.kind = kind
        self.attr, self.cs, self.nsets, self.ordered, self.hooks = KINDS[kind]
        self.attr_py = ATTR_PY[self.attr]
        self.names = NAMES[self.attr]
        self.pool = [make_elem(self.attr, sp) for sp in pool_specs]
        self.owners = {}      # owner number -> namespace object (live or zombie)
        self.live = []

    def eid(self, x):
        for i, y in enumerate(self.pool):
            if y is x:
                return i
        return -8

    def sets_of(self, o):
        return [s for s in self.owners[o].namespace_element_sets if self.attr_py in s.get_attribute_name_list()]

    def owner_code(self, p):
        if p is None:
            return -1
        for o, ns in self.owners.items():
            if ns is p:
                return o
        return -8

    # -- construction of an owner with initial collections
    def construct(self, o, ordered, lc, itemss, fails=None):
        model = _sdk()
        fails = fails or [False] * len(itemss)
        items = [lazy([self.pool[e] for e in es], f) for es, f in zip(itemss, fails)]
        k = self.kind
        if k.startswith("toy"):
            ToyId, ToyQ = _toy_classes()
            new = o not in self.owners
            ns = self.owners.get(o) or (ToyId(f"urn:toy:{o}") if self.attr == "AId" else ToyQ(o))
            cls = model.OrderedNamespaceSet if ordered else model.NamespaceSet
            if new:
                self.owners[o] = ns   # the object exists even if the set constructor raises
            try:
                for it in items:
                    cls(ns, [(self.attr_py, self.cs)], it)
            except Exception:
                if new:
                    # the caller's namespace object exists, but no set constructor returned: not live
                    pass
                raise
            return ns
        ref = model.ModelReference((model.Key(model.KeyTypes.SUBMODEL, "urn:x"),), model.Submodel)
        if k == "submodel":
            return model.Submodel(f"urn:sm:{o}", submodel_element=items[0])
        if k == "smc":
            return model.SubmodelElementCollection(f"c{o}", value=items[0])
        if k == "sml":
            CLS = {0: model.Property, 1: model.Range, 2: model.MultiLanguageProperty,
                   3: model.SubmodelElementCollection, 10: model.SubmodelElement, 11: model.DataElement,
                   12: model.EventElement}
            VT = {0: None, 1: model.datatypes.Int, 2: model.datatypes.String}
            return model.SubmodelElementList(f"l{o}", CLS[lc[0]], value=items[0],
                                             semantic_id_list_element=_sem(lc[2]),
                                             value_type_list_element=VT[lc[1]])
        if k == "entity":
            return model.Entity(f"e{o}", model.EntityType.CO_MANAGED_ENTITY, statement=items[0])
        if k == "operation":
            return model.Operation(f"op{o}", input_variable=items[0], output_variable=items[1],
                                   in_output_variable=items[2])
        if k == "are":
            return model.AnnotatedRelationshipElement(f"r{o}", ref, ref, annotation=items[0])
        if k == "qualifier":
            if o % 2 == 0:
                return model.Submodel(f"urn:sm:{o}", qualifier=items[0])
            return model.Property(f"p{o}", model.datatypes.Int, qualifier=items[0])
        if k == "extension":
            if o % 2 == 0:
                return model.Submodel(f"urn:sm:{o}", extension=items[0])
            return model.ConceptDescription(f"urn:cd:{o}", extension=items[0])
        raise AssertionError(k)

    def ns_lookup(self, ns, nm):
        if self.attr == "AId":
            return ns.get_referable(nm)
        if self.attr == "AType":
            return ns.get_qualifier_by_type(nm)
        return ns.get_extension_by_name(nm)


def exc_code(e):
    model = _sdk()
    if isinstance(e, model.AASConstraintViolation):
        return [100 + int(e.constraint_id)]
    if isinstance(e, KeyError):
        return [2]
    if isinstance(e, IndexError):
        return [3]
    if isinstance(e, ValueError):
        return [1]
    if isinstance(e, TypeError):
        return [4]
    if isinstance(e, FailingIterable):
        return [5]
    if isinstance(e, OverflowError):
        return [6]       # what list.insert() raises for an integer beyond ssize_t
    return [98]


ORDERED_ONLY = {"popat", "insert", "setitem", "setslice", "delitem", "delslice", "setvalue",
                "xsetslice", "xdelslice", "xinsert", "xdelitem", "xsetitem", "append", "extend", "reverse", "iadd"}


def apply_op(ctx, op):
    """Runs one public call.  Returns the outcome row (see NamespaceObs.enc_out)."""
    model = _sdk()
    name = op[0]
    try:
        if name == "construct":
            _, o, ordered, lc, itemss = op[:5]
            fails = op[5] if len(op) > 5 else None
            known = set(map(id, ctx.owners.values()))
            try:
                ns = ctx.construct(o, ordered, lc, itemss, fails)
            except Exception:
                # a half-built owner can still be reached through the parent link of its children
                for x in ctx.pool:
                    if x.parent is not None and id(x.parent) not in known:
                        ctx.owners[o] = x.parent
                raise
            ctx.owners[o] = ns
            if o not in ctx.live:
                ctx.live.append(o)
            return [0]
        if name in ("rename", "setsem"):
            x = ctx.pool[op[1]]
            if name == "rename":
                nm = op[2]
                setattr(x, ctx.attr_py, None if nm is None else BAD[nm[1]] if isinstance(nm, (list, tuple))
                        else ctx.names[nm])
            else:
                x.semantic_id = _sem(op[2])
            return [0]
        if name == "owneradd":
            ns, x = ctx.owners[op[1]], ctx.pool[op[2]]
            {"AId": getattr(ns, "add_referable", None), "AType": getattr(ns, "add_qualifier", None),
             "AName": getattr(ns, "add_extension", None)}[ctx.attr](x)
            return [0]
        if name == "ownerremove":
            ns, nm = ctx.owners[op[1]], ctx.names[op[2]]
            {"AId": getattr(ns, "remove_referable", None), "AType": getattr(ns, "remove_qualifier_by_type", None),
             "AName": getattr(ns, "remove_extension_by_name", None)}[ctx.attr](nm)
            return [0]
        o, j = op[1], op[2]
        sets = ctx.sets_of(o)
        if j >= len(sets):
            return [9]
        S = sets[j]
        if name in ORDERED_ONLY and not isinstance(S, model.OrderedNamespaceSet):
            return [9]
        if name == "add":
            S.add(ctx.pool[op[3]])
        elif name == "remove":
            S.remove(ctx.pool[op[3]])
        elif name == "discard":
            S.discard(ctx.pool[op[3]])
        elif name == "pop":
            return [0, ctx.eid(S.pop())]
        elif name == "popat":
            return [0, ctx.eid(S.pop(op[3]))]
        elif name == "clear":
            S.clear()
        elif name == "insert":
            S.insert(op[3], ctx.pool[op[4]])
        elif name == "setitem":
            S[op[3]] = ctx.pool[op[4]]
        elif name == "setslice":
            S[op[3]:op[4]] = [ctx.pool[e] for e in op[5]]
        elif name == "delitem":
            del S[op[3]]
        elif name == "delslice":
            del S[op[3]:op[4]]
        elif name == "xinsert":        # oracle-only stream: an index that is not an int
            S.insert(XIDX[op[3]], ctx.pool[op[4]])
        elif name == "xdelitem":       # an index object (__index__) that is not an int
            del S[Idx(op[3])]
        elif name == "xsetitem":
            S[Idx(op[3])] = ctx.pool[op[4]]
        elif name == "xsetslice":      # oracle-only stream: extended slices and mixin methods
            S[op[3]:op[4]:op[5]] = [ctx.pool[e] for e in op[6]]
        elif name == "xdelslice":
            del S[op[3]:op[4]:op[5]]
        elif name == "append":
            S.append(ctx.pool[op[3]])
        elif name == "extend":
            S.extend([ctx.pool[e] for e in op[3]])
        elif name == "reverse":
            S.reverse()
        elif name == "iadd":
            S += [ctx.pool[e] for e in op[3]]
        elif name == "ior":
            # a set-like argument with a deterministic iteration order (a set of SDK objects iterates by id())
            S |= dict.fromkeys(ctx.pool[e] for e in op[3]).keys()
        elif name == "isub":
            S -= dict.fromkeys(ctx.pool[e] for e in op[3]).keys()
        elif name == "setvalue":
            items = [ctx.pool[e] for e in op[3]]
            ns = ctx.owners[o]
            if not isinstance(ns, model.SubmodelElementList):
                return [9]                       # only SubmodelElementList has the value setter
            ns.value = items
        else:
            raise AssertionError(name)
        return [0]
    except AssertionError:
        raise
    except Exception as e:
        return exc_code(e)


def key_code(ctx, v):
    if v is None:
        return -1
    if isinstance(v, str) and v.startswith(GENPFX):
        return -2
    return ctx.names.index(v) if v in ctx.names else -9


def sem_code(r):
    if r is None:
        return -1
    return int(r.key[0].value.rsplit(":", 1)[1])


def observe(ctx, out):
    """Same rows as NamespaceObs.observe."""
    model = _sdk()
    n = len(ctx.pool)
    rows = [out]
    for o in ctx.live:
        ns = ctx.owners[o]
        for S in ctx.sets_of(o):
            row = [20, o, len(S), 1 if isinstance(S, model.OrderedNamespaceSet) else 0]
            row += [ctx.eid(x) for x in S] + [-5]
            row += [1 if x in S else 0 for x in ctx.pool] + [-5]
            for nm in ctx.names:
                r = S.get(ctx.attr_py, nm)
                row.append(-1 if r is None else ctx.eid(r))
            rows.append(row)
        if isinstance(ns, model.SubmodelElementList):
            row = [31, o]
            for j in range(n):
                try:
                    row.append(ctx.eid(ns.get_referable(str(j))))
                except KeyError:
                    row.append(-1)
        else:
            row = [30, o]
            for nm in ctx.names:
                try:
                    row.append(ctx.eid(ctx.ns_lookup(ns, nm)))
                except KeyError:
                    row.append(-1)
        rows.append(row)
    for x in ctx.pool:
        rows.append([40, ctx.owner_code(x.parent), key_code(ctx, getattr(x, ctx.attr_py)), sem_code(x.semantic_id)])
    return rows


# ----------------------------------------------------------------------------- oracle

def all_sets(ns):
    return list(ns.namespace_element_sets)


def check_invariant(ctx):
    """The statement of C01 on the live objects, public API only.  Returns a list of
    (class, message)."""
    model = _sdk()
    bad = []
    for o in ctx.live:
        ns = ctx.owners[o]
        seen = {}
        contained = []
        for S in all_sets(ns):
            attrs = S.get_attribute_name_list()
            it = list(S)
            if len(S) != len(it):
                bad.append(("len-iter", f"owner {o}: len()={len(S)} but iteration yields {len(it)} elements"))
            if len({id(x) for x in it}) != len(it):
                bad.append(("iter-dup", f"owner {o}: iteration yields an element twice"))
            for x in it:
                contained.append(x)
                if x not in S:
                    bad.append(("iter-member", f"owner {o}: iterated element is not 'in' the collection"))
                if x.parent is not ns:
                    bad.append(("parent-missing", f"owner {o}: contained element has parent {x.parent!r}"))
                for a in attrs:
                    v = getattr(x, a)
                    if (a, v) in seen and seen[(a, v)] is not x:
                        bad.append(("not-unique", f"owner {o}: two children with {a}={v!r}"))
                    seen[(a, v)] = x
                    if v is None:
                        bad.append(("none-key", f"owner {o}: contained child with {a}=None"))
                        continue
                    if S.get(a, v) is not x or not S.contains_id(a, v):
                        bad.append(("lookup-set", f"owner {o}: get({a!r},{v!r}) does not return the contained child"))
                    try:
                        if S.get_object_by_attribute(a, v) is not x:
                            bad.append(("lookup-set", f"owner {o}: get_object_by_attribute({a!r},{v!r}) wrong"))
                    except KeyError:
                        bad.append(("lookup-set", f"owner {o}: get_object_by_attribute({a!r},{v!r}) raises KeyError"))
            for x in ctx.pool:
                if (x in S) != any(x is y for y in it):
                    bad.append(("member-iter", f"owner {o}: 'in' and iteration disagree on pool element {ctx.eid(x)}"))
            if isinstance(S, model.OrderedNamespaceSet):
                try:
                    for i, x in enumerate(it):
                        if S[i] is not x or S[i - len(it)] is not x:
                            bad.append(("index-iter", f"owner {o}: [{i}] is not the {i}-th iterated element"))
                        if S.index(x) != i:
                            bad.append(("index-iter", f"owner {o}: index() of the {i}-th element is {S.index(x)}"))
                    if list(S[:]) != it or list(reversed(S)) != it[::-1]:
                        bad.append(("index-iter", f"owner {o}: slice/reversed view differs from iteration"))
                except (IndexError, ValueError, TypeError) as ex:
                    bad.append(("index-iter", f"owner {o}: positional view raises {type(ex).__name__}"))
                try:
                    S[len(it)]
                    bad.append(("index-iter", f"owner {o}: [len] does not raise"))
                except IndexError:
                    pass
        # namespace level lookup
        if isinstance(ns, model.SubmodelElementList):
            it = list(ns.value)
            for i, x in enumerate(it):
                if ns.get_referable(str(i)) is not x:
                    bad.append(("lookup-ns", f"owner {o}: get_referable('{i}') is not value[{i}]"))
            try:
                ns.get_referable(str(len(it)))
                bad.append(("lookup-ns", f"owner {o}: get_referable(len) does not raise"))
            except KeyError:
                pass
        else:
            for x in contained:
                if ctx.eid(x) < 0:
                    continue
                v = getattr(x, ctx.attr_py, None)
                if v is not None and hasattr(x, ctx.attr_py):
                    try:
                        if ctx.ns_lookup(ns, v) is not x:
                            bad.append(("lookup-ns", f"owner {o}: namespace lookup of {v!r} returns another object"))
                    except KeyError:
                        bad.append(("lookup-ns", f"owner {o}: namespace lookup of contained {v!r} raises KeyError"))
            held = {getattr(x, ctx.attr_py, None) for x in contained}
            for nm in ctx.names:
                if nm not in held and (ctx.cs or nm.upper() not in {h.upper() for h in held if isinstance(h, str)}):
                    try:
                        r = ctx.ns_lookup(ns, nm)
                        bad.append(("lookup-ns", f"owner {o}: lookup of absent {nm!r} returns {r!r}"))
                    except KeyError:
                        pass
        # parent link <=> contained
        for x in ctx.pool:
            if x.parent is ns and not any(x is y for y in contained):
                bad.append(("parent-dangling", f"pool element {ctx.eid(x)} names owner {o} as parent but is not contained"))
    for x in ctx.pool:
        if x.parent is not None and ctx.owner_code(x.parent) == -8:
            bad.append(("parent-unknown", f"pool element {ctx.eid(x)} has an unknown parent {x.parent!r}"))
    return bad


def snapshot(ctx):
    s = []
    for o in ctx.live:
        for S in all_sets(ctx.owners[o]):
            s.append((o, len(S), tuple(id(x) for x in S)))
    for x in ctx.pool:
        s.append((id(x.parent) if x.parent is not None else None, getattr(x, ctx.attr_py), x.semantic_id))
    return s


SINGLE = {"add", "remove", "discard", "pop", "popat", "insert", "setitem", "delitem", "rename",
          "owneradd", "ownerremove", "append", "xinsert", "xdelitem", "xsetitem"}


def canon_snapshot(ctx):
    """snapshot with generated idShorts replaced by a placeholder"""
    res = []
    for t in snapshot(ctx):
        if len(t) == 3 and isinstance(t[1], str) and t[1].startswith(GENPFX):
            t = (t[0], "<generated>", t[2])
        res.append(t)
    return res


def failed_construct_leaks(ctx, op, nbefore):
    """After a constructor call that raised: the collections it created must not hold children any more (neither the
    one whose items failed nor the ones created earlier in the same call), whether the namespace object is dead
    (never returned to the caller) or alive."""
    o = op[1]
    res = []
    if o not in ctx.owners:
        return res
    new_sets = ctx.sets_of(o)[nbefore:]
    for idx, S in enumerate(new_sets):
        kids = [ctx.eid(x) for x in S]
        if not kids:
            continue
        last = idx == len(new_sets) - 1
        where = "the collection whose items failed" if last else "a collection created earlier in the same call"
        if o in ctx.live:
            res.append(("ghost-child" if last else "ghost-child-earlier-collection",
                        f"failed constructor call left {where} registered in the live namespace with children {kids}"))
        else:
            res.append(("parent-dead" if last else "parent-dead-earlier-collection",
                        f"constructor raised, but pool elements {kids} stay children of the object that was never "
                        f"returned ({where})"))
    return res


def ctor_probe():
    """Directed, model-independent: every class with several child collections, one collection good and another one
    failing (a refused item / a lazy iterable that raises).  All children handed in must be free afterwards.
    Returns [(class of failure, message, replay)]."""
    model = _sdk()
    Int = model.datatypes.Int
    ref = model.ModelReference((model.Key(model.KeyTypes.SUBMODEL, "urn:x"),), model.Submodel)

    def kids(kind):
        if kind == "ref":
            return [model.Property("a", Int), model.Property("b", Int)], model.Property("a", Int)
        if kind == "lst":
            return [model.Property(None, Int), model.Property(None, Int)], model.Property(None, model.datatypes.String)
        if kind == "q":
            return [model.Qualifier("t", Int), model.Qualifier("u", Int)], model.Qualifier("t", Int)
        return [model.Extension("n"), model.Extension("m")], model.Extension("n")

    classes = {
        "Submodel": (lambda **kw: model.Submodel("urn:p", **kw), {"submodel_element": "ref"}),
        "SubmodelElementCollection": (lambda **kw: model.SubmodelElementCollection("c", **kw), {"value": "ref"}),
        "SubmodelElementList": (lambda **kw: model.SubmodelElementList("l", model.Property, value_type_list_element=Int, **kw),
                                {"value": "lst"}),
        "Entity": (lambda **kw: model.Entity("e", model.EntityType.CO_MANAGED_ENTITY, **kw), {"statement": "ref"}),
        "Operation": (lambda **kw: model.Operation("o", **kw),
                      {"input_variable": "ref", "output_variable": "ref", "in_output_variable": "ref"}),
        "AnnotatedRelationshipElement": (lambda **kw: model.AnnotatedRelationshipElement("r", ref, ref, **kw),
                                         {"annotation": "ref"}),
        "Property": (lambda **kw: model.Property("p", Int, **kw), {}),
    }
    out = []
    for cname, (ctor, own) in classes.items():
        colls = dict(own, qualifier="q", extension="x")
        for a in colls:
            for b in colls:
                for mode in ("refused", "iterable"):
                    good, _ = kids(colls[a])
                    kw = {}
                    supplied = {}
                    if a == b:
                        g, bad = kids(colls[b])
                        items = g[:1] + ([bad] if mode == "refused" else [])
                        supplied[b] = items[:1]
                        kw[b] = items if mode == "refused" else lazy(items, True)
                    else:
                        if colls[a] == colls[b] == "ref":
                            # two idShort collections of one namespace: distinct names in the good one
                            good = [model.Property("g1", Int), model.Property("g2", Int)]
                        kw[a] = good
                        supplied[a] = good
                        g, bad = kids(colls[b])
                        items = g[:1] + ([bad] if mode == "refused" else [])
                        supplied[b] = items[:1]
                        kw[b] = items if mode == "refused" else lazy(items, True)
                    try:
                        ctor(**kw)
                        continue          # nothing refused (cannot happen with these items)
                    except Exception:
                        pass
                    for coll, xs in supplied.items():
                        leaked = [x for x in xs if x.parent is not None]
                        if leaked:
                            cls = ("ctor:failed-collection-not-rolled-back" if coll == b
                                   else "ctor:earlier-collection-not-rolled-back")
                            out.append((cls, f"{cname}({a}=<good>, {b}=<{mode}>) raised, but the children passed as "
                                             f"{coll} keep a parent link to the object that was never returned",
                                        {"probe": "ctor", "class": cname, "good": a, "failing": b, "mode": mode}))
    return out


def ordered_orders(ctx):
    model = _sdk()
    return [(o, tuple(id(x) for x in S)) for o in ctx.live for S in all_sets(ctx.owners[o])
            if isinstance(S, model.OrderedNamespaceSet)]


def run_sdk(case, with_trace=True):
    """case = {kind, pool, ops[, clock]}.  Returns (trace, failures) with failures = [(step, class, message)].
    The whole history (construction of the pool included) runs under the clock named by the case."""
    with clock_env(case.get("clock", "running")):
        return _run_sdk(case, with_trace)


def _run_sdk(case, with_trace):
    ctx = Ctx(case["kind"], [tuple(p) for p in case["pool"]])
    trace, fails = [], []
    for k, op in enumerate(case["ops"]):
        op = tuple(op)
        before = snapshot(ctx)
        cbefore = canon_snapshot(ctx)
        obefore = ordered_orders(ctx)
        nsets_before = len(ctx.sets_of(op[1])) if op[0] == "construct" and op[1] in ctx.owners else 0
        out = apply_op(ctx, op)
        if op[0] == "construct" and out[0] != 0:
            for cls, msg in failed_construct_leaks(ctx, op, nsets_before):
                fails.append((k, f"construct:{cls}", msg))
        if out[0] != 0 and op[0] in SINGLE and snapshot(ctx) != before:
            fails.append((k, f"{op[0]}:not-atomic", f"{op[0]} raised (code {out[0]}) but the namespace or the element changed"))
        if out[0] not in (0, 9) and op[0] in ("extend", "iadd") and snapshot(ctx) != before:
            fails.append((k, f"{op[0]}:not-atomic", f"rejected {op[0]} (code {out[0]}) did not leave the set as it was"))
        if out[0] not in (0, 9) and op[0] == "setvalue" and canon_snapshot(ctx) != cbefore:
            fails.append((k, "setvalue:not-restored", f"rejected value setter (code {out[0]}) did not restore the "
                                                      "previous content (same elements, order, parent)"))
        if op[0] == "setsem":
            # changing a non-identifying attribute of a contained element must not move it; refused -> as before
            if ordered_orders(ctx) != obefore:
                fails.append((k, "setsem:reordered", "setting semantic_id of a contained element changed the positional "
                                                     "order / membership of an ordered collection"))
            if out[0] != 0 and canon_snapshot(ctx) != cbefore:
                fails.append((k, "setsem:not-restored", f"refused semantic_id (code {out[0]}) left the element or its "
                                                        "namespace changed"))
        if out[0] == 98:
            fails.append((k, f"{op[0]}:exception-class", f"{op[0]} raised an undocumented exception class"))
        try:
            for cls, msg in check_invariant(ctx):
                fails.append((k, f"{op[0]}:{cls}", msg))
        except Exception as e:
            fails.append((k, f"{op[0]}:checker-raised", f"public query raised {type(e).__name__}: {e}"))
        if with_trace:
            try:
                trace.append(observe(ctx, out))
            except Exception as e:
                fails.append((k, f"{op[0]}:observe-raised", f"public query raised {type(e).__name__}: {e}"))
                trace.append([[97]])
    return trace, fails


# ----------------------------------------------------------------------------- generator

def gen_pool(rng, kind):
    attr, cs, nsets, ordered, hooks = KINDS[kind]
    n = 6
    pool = []
    for i in range(n):
        if hooks:
            name = None if rng.random() < 0.8 else rng.randrange(3)
            cls = rng.choice([0, 0, 0, 0, 1, 2, 3])
            vt = rng.choice([1, 1, 1, 2]) if cls < 2 else 0
            sem = rng.choice([None, None, 0, 0, 1])
        else:
            name = rng.choice([0, 0, 1, 2, 3, 4, None]) if attr == "AId" else rng.randrange(5)
            cls = rng.choice([0, 2, 3]) if attr == "AId" else 0
            vt = 1 if cls == 0 else 0
            sem = rng.choice([None, 0, 1])
        pool.append((None if name is None else NAMES[attr][name], cls, vt, sem))
    return pool


def gen_case(rng, kind, maxlen, extra=False):
    """Generates the operations online against the SDK objects (so that indices make sense) and
    returns the replayable case.  extra=True mixes in calls that the model does not cover
    (extended slices, MutableSequence/MutableSet mixin methods): oracle-only stream."""
    clock = rng.choice(CLOCK_MODES)
    with clock_env(clock):
        case = _gen_case(rng, kind, maxlen, extra)
    case["clock"] = clock
    return case


def _gen_case(rng, kind, maxlen, extra):
    attr, cs, nsets, ordered, hooks = KINDS[kind]
    pool = gen_pool(rng, kind)
    # rollback probe (slice assignment with >= 2 accepted new items followed by a refused one): needs a
    # collection of >= 3 children and two more acceptable elements, which random pools rarely give
    probe = kind in ("sml", "toy_cs") and not extra and rng.random() < 0.35
    if probe:
        if hooks:
            pool = [(None, 0, 1, None)] * 5 + [rng.choice([(None, 0, 2, None), (None, 2, 0, None), ("a", 0, 1, None)])]
        else:
            pool = [("a", 0, 1, None), ("b", 0, 1, None), ("Ab", 0, 1, None), ("A", 0, 1, None), ("aB", 0, 1, None),
                    (rng.choice(["a", "A", None]), 0, 1, None)]
    ctx = Ctx(kind, pool)
    n = len(pool)
    ops = []

    def some(k):
        return [rng.randrange(n) for _ in range(k)]

    def construct_op(o):
        lc = None
        if hooks:
            lc = (rng.choice([0, 0, 0, 0, 2, 10, 11, 12]), 0, rng.choice([None, None, 0]))
            lc = (lc[0], 1 if lc[0] < 2 else 0, lc[2])
        per = nsets
        sizes = [0, 1, 2, 3, 3, 4] if (ordered or kind.startswith("toy")) else [0, 0, 0, 1, 2, 3]
        itemss = [some(rng.choice(sizes)) for _ in range(per)]
        # sometimes the caller passes a generator that raises after its items (a parser that fails, ...), preferably
        # after free, acceptable items so that something has been added before
        fails = [rng.random() < 0.12 for _ in range(per)]
        for k_, f in enumerate(fails):
            if f and rng.random() < 0.7:
                free = [i for i, y_ in enumerate(ctx.pool) if y_.parent is None]
                rng.shuffle(free)
                itemss[k_] = free[:rng.choice([1, 2, 2])]
        return ("construct", o, ordered if not kind.startswith("toy") else rng.random() < 0.7, lc, itemss, fails)

    def do(op):
        ops.append(op)
        apply_op(ctx, op)

    nown = 0
    if probe:
        do(("construct", 0, True, (0, 1, None) if hooks else None, [[0, 1, 2]]))
        do(("construct", 1, True, (0, 1, None) if hooks else None, [[5] if rng.random() < 0.5 else []]))
        nown = 2
        for _ in range(rng.choice([0, 0, 1, 2])):
            do(rng.choice([("popat", 0, 0, rng.randrange(-3, 3)), ("insert", 0, 0, rng.randrange(-3, 3), rng.choice([3, 4])),
                           ("remove", 0, 0, rng.randrange(3)),
                           ("add", 1, 0, rng.choice([3, 4, 5])) if 1 in ctx.live else ("discard", 0, 0, 5)]))
        last = rng.choice([0, 1, 2, 5, 5])       # contained here (collision) / refused class / owned by the other
        if 0 in ctx.live:
            do(("setslice", 0, 0, rng.choice([None, 0, -3]), rng.choice([None, 3, 7]),
                rng.choice([[3, 4, last], [4, 3, last], [3, 4, last, 1], [3, last, 4]])))
    else:
        for _ in range(2):
            do(construct_op(nown))
            nown += 1
    if kind.startswith("toy"):
        for o in list(ctx.live):
            if rng.random() < 0.7:
                do(construct_op(o))      # a second collection in the same namespace
    L = rng.randint(2, maxlen)
    while len(ops) < L + 2:
        if not ctx.live:
            do(construct_op(nown))
            nown += 1
            continue
        o = rng.choice(ctx.live)
        sets = ctx.sets_of(o)
        j = rng.randrange(len(sets)) if sets else 0
        S = sets[j] if sets else None
        isord = S is not None and hasattr(S, "insert")
        ln = len(S) if S is not None else 0
        e = rng.randrange(n)
        z = rng.randrange(-ln, ln) if ln and rng.random() < 0.7 else rng.choice([0, 1, -1, ln, -ln - 1, 5, -7])
        cont = [ctx.eid(y) for y in (S or [])]
        a = rng.choice([None, 0, 1, 2, -1, -2, 4])
        b = rng.choice([None, 0, 1, 2, 3, -1, 6])
        x = rng.random()
        if extra and rng.random() < 0.35:
            st = rng.choice([2, -1, 3, -2, 1])
            y = rng.random()
            if not isord:
                op = ("ior", o, j, some(rng.choice([1, 2, 3]))) if y < 0.5 else ("isub", o, j, some(rng.choice([1, 2, 3])))
            elif y < 0.25:
                if rng.random() < 0.6:
                    a, b = None, None
                dl = len(S[a:b:st])
                free = [i for i, y_ in enumerate(ctx.pool) if y_.parent is None] or list(range(n))
                k = max(0, rng.choice([dl - 1, dl - 1, dl, dl + 1]))
                op = ("xsetslice", o, j, a, b, st, [rng.choice(free) if rng.random() < 0.8 else rng.randrange(n)
                                                    for _ in range(k)])
            elif y < 0.32:
                op = ("xdelslice", o, j, a, b, st)
            elif y < 0.52:
                free = [i for i, y_ in enumerate(ctx.pool) if y_.parent is None] or list(range(n))
                y2 = rng.random()
                if y2 < 0.75:
                    op = ("xinsert", o, j, rng.choice(sorted(XIDX)), rng.choice(free))
                elif y2 < 0.8:
                    op = ("xdelitem", o, j, z)
                else:
                    op = ("xsetitem", o, j, z, rng.choice(free))
            elif y < 0.6:
                op = ("append", o, j, e)
            elif y < 0.7:
                op = ("extend", o, j, some(rng.choice([1, 2, 3])))
            elif y < 0.78:
                op = ("reverse", o, j)
            elif y < 0.86:
                op = ("iadd", o, j, some(rng.choice([1, 2])))
            elif y < 0.93:
                op = ("ior", o, j, some(rng.choice([1, 2, 3])))
            else:
                op = ("isub", o, j, some(rng.choice([1, 2, 3])))
            do(op)
            continue
        if x < 0.24:
            op = ("add", o, j, e)
        elif x < 0.31:
            op = ("remove", o, j, rng.choice(cont) if cont and rng.random() < 0.7 else e)
        elif x < 0.35:
            op = ("discard", o, j, rng.choice(cont) if cont and rng.random() < 0.6 else e)
        elif x < 0.39:
            op = ("pop", o, j)
        elif x < 0.41:
            op = ("clear", o, j)
        elif x < 0.55:
            nm = rng.choice([0, 1, 2, 3, 4, None]) if attr == "AId" else rng.choice([0, 1, 2, 3, 4, 0, 1, 2, 3, 4, None])
            if rng.random() < 0.2:
                nm = ("bad", rng.randrange(len(BAD)))          # a value the syntax check refuses (mostly)
            # prefer renaming contained elements
            if cont and rng.random() < 0.6:
                e = rng.choice(cont)
            op = ("rename", e, nm)
        elif x < 0.59:
            op = ("setsem", rng.choice(cont) if cont and rng.random() < 0.6 else e, rng.choice([None, 0, 1]))
        elif x < 0.63:
            op = ("owneradd", o, e)
        elif x < 0.66:
            op = ("ownerremove", o, rng.randrange(5))
        elif x < 0.69:
            op = construct_op(nown)
            nown += 1
        elif not isord:
            op = ("add", o, j, e)
        elif x < 0.75:
            op = ("insert", o, j, z, e)
        elif x < 0.81:
            op = ("setitem", o, j, z, e)
        elif x < 0.87:
            free = [i for i, y_ in enumerate(ctx.pool) if y_.parent is None]
            if ln >= 3 and len(free) >= 2 and rng.random() < 0.6:
                # rollback probe: a slice wide enough for >= 3 new items, two (probably) acceptable free
                # elements first, then one that is refused (contained here / owned elsewhere / anything)
                rng.shuffle(free)
                owned = [i for i, y_ in enumerate(ctx.pool) if y_.parent is not None]
                tail = [rng.choice(owned) if owned and rng.random() < 0.8 else rng.randrange(n)]
                op = ("setslice", o, j, None if rng.random() < 0.5 else 0, None if rng.random() < 0.5 else ln,
                      free[:rng.choice([2, 2, 3])] + tail)
            else:
                op = ("setslice", o, j, a, b, some(rng.choice([0, 1, 2, 2, 3])))
        elif x < 0.90:
            op = ("delitem", o, j, z)
        elif x < 0.93:
            op = ("delslice", o, j, a, b)
        elif x < 0.945:
            op = ("popat", o, j, z)
        else:
            # extend / += / the value setter: mostly free (acceptable) elements first, sometimes a refused one
            free = [i for i, y_ in enumerate(ctx.pool) if y_.parent is None] or list(range(n))
            items = [rng.choice(free) if rng.random() < 0.75 else rng.randrange(n) for _ in range(rng.choice([0, 1, 2, 3, 3]))]
            if kind == "sml" and x >= 0.97:
                cur = [ctx.eid(y_) for y_ in S]
                y = rng.random()
                if y < 0.2:
                    items = cur                                  # lst.value = lst.value
                elif y < 0.4:
                    items = cur[::-1] + items[:1]
                op = ("setvalue", o, j, items)
            else:
                op = (rng.choice(["extend", "iadd"]), o, j, items)
        do(op)
    return {"kind": kind, "pool": [list(p) for p in pool], "ops": [list(o) for o in ops]}


# ----------------------------------------------------------------------------- Coq terms

def nat(x):
    return f"{int(x)}%nat"


def onat(x):
    return "None" if x is None else f"(Some {nat(x)})"


def oz(x):
    return "None" if x is None else f"(Some {coq_z(x)})"


def natl(xs):
    return coq_list(nat(x) for x in xs)


def coq_op(case, op):
    attr = KINDS[case["kind"]][0]
    names = NAMES[attr]
    n = op[0]
    if n == "construct":
        _, o, ordered, lc, itemss = op[:5]
        fails = op[5] if len(op) > 5 else [False] * len(itemss)
        hk = "None" if lc is None else f"(Some (mklcfg {nat(lc[0])} {nat(lc[1])} {onat(lc[2])}))"
        pairs = coq_list(f"({natl(es)}, {'true' if f else 'false'})" for es, f in zip(itemss, fails))
        return f"Construct {nat(o)} {'true' if ordered else 'false'} {hk} {pairs}"
    if n == "rename":
        nm = op[2]
        return f"Rename {nat(op[1])} " + ("None" if nm is None else
                                          f"(Some {coq_str_any(BAD[nm[1]])})" if isinstance(nm, (list, tuple))
                                          else f"(Some {coq_str(names[nm])})")
    if n == "setsem":
        return f"SetSem {nat(op[1])} {onat(op[2])}"
    if n == "owneradd":
        return f"OwnerAdd {nat(op[1])} {nat(op[2])}"
    if n == "ownerremove":
        return f"OwnerRemove {nat(op[1])} {coq_str(names[op[2]])}"
    r = f"({nat(op[1])}, {nat(op[2])})"
    if n in ("add", "remove", "discard"):
        return f"{n.capitalize()} {r} {nat(op[3])}"
    if n == "pop":
        return f"Pop {r}"
    if n == "clear":
        return f"Clear {r}"
    if n == "popat":
        return f"PopAt {r} {coq_z(op[3])}"
    if n == "insert":
        return f"Insert {r} {coq_z(op[3])} {nat(op[4])}"
    if n == "setitem":
        return f"SetItem {r} {coq_z(op[3])} {nat(op[4])}"
    if n == "setslice":
        return f"SetSlice {r} {oz(op[3])} {oz(op[4])} {natl(op[5])}"
    if n == "delitem":
        return f"DelItem {r} {coq_z(op[3])}"
    if n == "delslice":
        return f"DelSlice {r} {oz(op[3])} {oz(op[4])}"
    if n == "setvalue":
        return f"SetValue {r} {natl(op[3])}"
    if n in ("extend", "iadd"):
        return f"Extend {r} {natl(op[3])}"
    raise AssertionError(n)


def coq_case_parts(case):
    attr, cs = KINDS[case["kind"]][:2]
    cfg = f"(mkcfg {attr} {'true' if cs else 'false'})"
    pool = coq_list(
        f"mkelem {'None' if p[0] is None else '(Some (KName ' + coq_str(p[0]) + '))'} None {nat(p[1])} {nat(p[2])} {onat(p[3])}"
        for p in case["pool"])
    names = coq_list(coq_str(x) for x in NAMES[attr])
    ops = coq_list(coq_op(case, tuple(o)) for o in case["ops"])
    return cfg, pool, names, ops


def coq_case(case, trace):
    cfg, pool, names, ops = coq_case_parts(case)
    return f"({cfg}, {pool}, {names}, {ops}, {coq_z(common.zhash_d(trace, 3))})"


PRELUDE = ("From Coq Require Import List ZArith String.\n"
           "From Basyx Require Import model.Namespace model.NamespaceObs.\nOpen Scope string_scope.")


def model_trace(case, tag="C01"):
    cfg, pool, names, ops = coq_case_parts(case)
    return common.coq_eval(tag, PRELUDE, f"trace {cfg} (init (pool_fun {pool})) [] {ops} {len(case['pool'])}%nat {names}")


# ----------------------------------------------------------------------------- shrinking

def shrink_ops(case, pred):
    """delta debugging on the op list (the two leading constructs are kept)."""
    cur = dict(case)
    ops = list(case["ops"])
    changed = True
    while changed:
        changed = False
        for i in range(len(ops) - 1, -1, -1):
            cand = ops[:i] + ops[i + 1:]
            c2 = dict(cur, ops=cand)
            if cand and pred(c2):
                ops = cand
                cur = c2
                changed = True
                break
    cur = dict(cur, ops=ops)
    if cur.get("clock", "running") != "running":
        # name a clock in the replay only if the failure needs it; otherwise the simplest one that shows it
        for c in ("running", "frozen"):
            if c != cur["clock"] and pred(dict(cur, clock=c)):
                cur = dict(cur, clock=c)
                break
    return cur


def first_fail(case):
    try:
        _, fails = run_sdk(case, with_trace=False)
    except Exception:
        return None
    return fails[0] if fails else None


def signature(case, cls):
    return f"C01:{case['kind']}:{cls}"


def with_clock(case, msg):
    c = case.get("clock", "running")
    if c == "running":
        return msg
    return msg + f" [history run under the '{c}' clock (tools/c01.py clock_env); with running clocks the same history" \
                 f" {'also fails' if first_fail(dict(case, clock='running')) else 'passes'}]"


# ----------------------------------------------------------------------------- run

def corpus_cases():
    d = os.path.join(common.VERIF, "corpus", "C01")
    res = []
    if os.path.isdir(d):
        for fn in sorted(os.listdir(d)):
            if fn.endswith(".json"):
                res.append(json.load(open(os.path.join(d, fn))))
    return res


def xslice_cases():
    """directed: every extended slice [a:b:step] with a, b in {None,0,1,-1,2,-3,5} and step in {-1,-2,2,3,-3} on
    ordered collections of length 0..4 (an ordered user namespace and a SubmodelElementList): deletion, assignment of
    as many new items as are replaced, and of one item less (size mismatch).  Oracle only (not modelled)."""
    B = [None, 0, 1, -1, 2, -3, 5]
    STEPS = [-1, -2, 2, 3, -3]
    for kind in ("toy_cs", "sml"):
        pool = [[None if kind == "sml" else f"n{i}", 0, 1, None] for i in range(8)]
        lc = (0, 1, None) if kind == "sml" else None
        for L in range(5):
            pre = [["construct", 0, True, lc, [list(range(L))]]]
            for a in B:
                for b in B:
                    for st in STEPS:
                        dl = len(range(L)[a:b:st])
                        ops = [["xdelslice", 0, 0, a, b, st], ["xsetslice", 0, 0, a, b, st, list(range(L, L + dl))]]
                        if dl >= 1:
                            ops.append(["xsetslice", 0, 0, a, b, st, list(range(L, L + dl - 1))])
                        for op in ops:
                            yield {"kind": kind, "pool": pool, "ops": pre + [op]}


def exhaustive_cases():
    """all op sequences of length <= 3 over a small alphabet on an ordered cs namespace and on a list"""
    out = []
    for kind, pool, lc in (("toy_cs", [("a", 0, 1, None), ("a", 0, 1, None), ("b", 0, 1, None)], None),
                           ("sml", [(None, 0, 1, None), (None, 0, 1, 0), (None, 0, 1, 1)], (0, 1, None))):
        pre = [("construct", 0, True, lc, [[]])]
        alpha = []
        for e in range(3):
            alpha += [("add", 0, 0, e), ("insert", 0, 0, 0, e), ("setitem", 0, 0, 0, e), ("remove", 0, 0, e)]
        alpha += [("pop", 0, 0), ("popat", 0, 0, 0), ("delitem", 0, 0, 0), ("setslice", 0, 0, 0, 2, [1, 2]),
                  ("delslice", 0, 0, 0, 1), ("clear", 0, 0), ("rename", 0, 2), ("setsem", 1, 1)]
        for L in (1, 2, 3):
            for seq in itertools.product(alpha, repeat=L):
                out.append({"kind": kind, "pool": [list(p) for p in pool], "ops": [list(o) for o in pre + list(seq)]})
    return out


def clock_cases():
    """directed, oracle only: all sequences of length <= 2 over the 20-op alphabet of exhaustive_cases() on a
    SubmodelElementList (the namespace whose identifying attributes the SDK generates itself) and on an ordered user
    namespace, under every clock that is not the running one"""
    for case in exhaustive_cases():
        if len(case["ops"]) <= 3:
            for c in CLOCK_MODES[1:]:
                yield dict(case, clock=c)


def run(chk):
    rng = chk.rng
    nseq, maxlen = (3000, 12) if chk.tier == "quick" else (12000, 20)
    chk.theorems("props.C01", THEOREMS, ["theories/props/C01.vo", "theories/model/NamespaceObs.vo"])
    cases = corpus_cases()
    ncorpus = len(cases)
    if chk.tier == "thorough":
        ex = exhaustive_cases()
        chk.cov["exhaustive_short_sequences"] = f"all sequences of length <= 3 over 20 ops, ordered namespace and SubmodelElementList: {len(ex)}"
        cases += ex
    kinds = sorted(KINDS)
    for i in range(nseq):
        cases.append(gen_case(rng, kinds[i % len(kinds)], maxlen))
    terms = []
    reported = set()
    for ci, case in enumerate(cases):
        trace, fails = run_sdk(case)
        nt = sum(1 for o in case["ops"] if o[0] != "construct") >= 2
        chk.seen((case["kind"], case["pool"], case["ops"], case.get("clock", "running")), nontrivial=nt)
        chk.count("kind=" + case["kind"])
        chk.count("clock=" + case.get("clock", "running"))
        chk.count(f"len={min(len(case['ops']) // 5 * 5, 30)}+")
        for o, t in zip(case["ops"], trace):
            chk.count("op=" + o[0])
            c = t[0][0]
            chk.count("out=" + ("ok" if c == 0 else {1: "ValueError", 2: "KeyError", 3: "IndexError", 4: "TypeError",
                                                  5: "iterable-raised", 9: "no-such-method"}.get(c, f"AASd-{c - 100}" if c >= 100 else "other")))
        if fails:
            k, cls, msg = fails[0]
            sig = signature(case, cls)
            if sig not in reported:
                reported.add(sig)
                small = shrink_ops(dict(case, ops=case["ops"][:k + 1]),
                                   lambda c2: (first_fail(c2) or (0, None, None))[1] == cls)
                ff = first_fail(small)
                chk.fail(sig, with_clock(small, ff[2] if ff else msg), {"case": small, "how": "tools/c01.py run_sdk(case): oracle check_invariant + snapshot"})
        terms.append(coq_case(case, trace))
        if len(chk.samples) < 4 and len(case["ops"]) >= 6 and ci >= ncorpus:
            chk.samples.append({"case": case, "sdk_observation_after_last_call": trace[-1]})
    # directed constructor probe (all classes with several child collections; model-independent)
    for cls, msg, rp in ctor_probe():
        chk.count("ctor_probe_failures")
        sig = "C01:" + cls
        if sig not in reported:
            reported.add(sig)
            chk.fail(sig, msg, dict(rp, how="tools/c01.py ctor_probe()"))
    # directed enumeration of extended slices on ordered collections (oracle only)
    for case in xslice_cases():
        _, fails = run_sdk(case, with_trace=False)
        chk.count("directed_extended_slice_cases")
        chk.evaluations += 1
        if fails:
            k, cls, msg = fails[0]
            sig = signature(case, cls)
            if sig not in reported:
                reported.add(sig)
                chk.fail(sig, msg, {"case": case, "how": "tools/c01.py run_sdk(case): oracle only (xslice_cases)"})
    # directed: short histories under clocks that do not advance / advance coarsely / step back (oracle only)
    for case in clock_cases():
        _, fails = run_sdk(case, with_trace=False)
        chk.count("directed_clock_cases")
        chk.evaluations += 1
        if fails:
            k, cls, msg = fails[0]
            sig = signature(case, cls)
            if sig not in reported:
                reported.add(sig)
                small = shrink_ops(dict(case, ops=case["ops"][:k + 1]),
                                   lambda c2: (first_fail(c2) or (0, None, None))[1] == cls)
                ff = first_fail(small)
                chk.fail(sig, with_clock(small, ff[2] if ff else msg),
                         {"case": small, "how": "tools/c01.py run_sdk(case): oracle only (clock_cases)"})
    # oracle-only stream: calls outside the model (extended slices, mixin methods)
    nx = 1500 if chk.tier == "quick" else 8000
    for i in range(nx):
        case = gen_case(rng, kinds[i % len(kinds)], maxlen, extra=True)
        _, fails = run_sdk(case, with_trace=False)
        chk.seen((case["kind"], case["pool"], case["ops"], case.get("clock", "running")), nontrivial=True)
        chk.count("oracle_only_cases")
        if fails:
            k, cls, msg = fails[0]
            sig = signature(case, cls)
            if sig not in reported:
                reported.add(sig)
                small = shrink_ops(dict(case, ops=case["ops"][:k + 1]),
                                   lambda c2: (first_fail(c2) or (0, None, None))[1] == cls)
                ff = first_fail(small)
                chk.fail(sig, with_clock(small, ff[2] if ff else msg), {"case": small, "how": "tools/c01.py run_sdk(case): oracle only"})
    bad, errs = common.run_mismatch_shards("C01", PRELUDE, terms, "check_case", shard=200 if chk.tier == "quick" else 400)
    chk.traces = common.run_mismatch_shards.evaluated - len(bad)
    for e in errs:
        chk.tie_broken("correspondence-run", e)
    if bad:
        case = cases[bad[0]]

        def still(c2):
            try:
                tr, _ = run_sdk(c2)
            except Exception:
                return False
            b, e = common.run_mismatch_shards("C01s", PRELUDE, [coq_case(c2, tr)], "check_case")
            return bool(b or e)
        small = shrink_ops(case, still) if len(bad) < 2000 else case
        tr, fails = run_sdk(small)
        mt = model_trace(small)
        chk.tie_broken("correspondence", {"n_disagreements": len(bad), "kinds": sorted({cases[b]["kind"] for b in bad}),
                                          "case": small, "sdk_trace_last": tr[-1], "model_trace": mt[-3000:]})
        # search: does the oracle fail on the shrunk disagreement or its prefixes?
        for k, cls, msg in fails[:1]:
            chk.fail(signature(small, cls), msg, {"case": small, "how": "tools/c01.py run_sdk(case)"})
    chk.trusted = [
        "Coq 8.16.1 kernel (coqc; vm_compute only for the Examples and the correspondence; no native_compute)",
        "hand-written model coq/theories/model/Namespace.v tied to base.py/submodel.py by this correspondence run "
        "(every public call of the history, observation after each call)",
        "uuid.uuid1 never repeats within a process (generated idShorts of SubmodelElementList children are modelled "
        "by a counter); since round 7 this is exercised rather than only assumed: every history runs under one of the "
        "clocks running / frozen / coarse / stepback (clock_env) and is compared with the clock-free model",
        "tools/c01.py (generator, SDK driver, canonicaliser, invariant oracle), tools/common.py",
    ]
    chk.assumptions = ["elements have the identifying attribute of the collection they are passed to (typed API)",
                       "all collections of one namespace that share an attribute share the case-sensitivity flag",
                       "identifying attribute values are ASCII strings (the syntax checks of new values - length, AASd-130 "
                       "character class, AASd-002 - are modelled on ASCII)"]
    return chk.finish(level="proof",
                      rule="seeded random histories over 11 namespace kinds (8 SDK kinds + 3 user-defined namespaces "
                           "built from the public NamespaceSet classes), pools of 6 elements with colliding / "
                           "case-differing / None identifying attributes, two or more owners so that elements are "
                           "owned elsewhere, removed elements re-inserted; each history under one of four clocks (running, "
                           "frozen, coarse tick, wall clock stepping back) - the model has no clock; thorough adds all sequences of length<=3 "
                           "over 20 ops; non-trivial = at least 2 calls after the constructors; distinct by (kind, pool, ops)")


def replay(path):
    r = json.load(open(path))
    rp = r.get("replay") or {}
    if rp.get("probe") == "ctor":
        hits = [x for x in ctor_probe() if x[2]["class"] == rp["class"] and x[2]["good"] == rp["good"]
                and x[2]["failing"] == rp["failing"] and x[2]["mode"] == rp["mode"]]
        for h in hits:
            print("oracle:", h[0], h[1])
        if not hits:
            print("oracle: holds")
        return 1 if hits else 0
    if "case" in rp:
        tr, fails = run_sdk(rp["case"])
        for f in fails[:5]:
            print("oracle:", f)
        if not fails:
            print("oracle: holds")
        return 1 if fails else 0
    print(json.dumps(r, indent=1)[:3000])
    return 1
