"""C02, fragment 4: SubmodelElementList - AASd-107/108/109/114/120.
(a) oracle over the public API: after every accepted way of adding/replacing (constructor value=, value.add/append/insert/
    extend/+=, value setter, __setitem__ int and slice) the list satisfies the constraint texts; a rejected call raises the
    number of a violated constraint and leaves list and elements unchanged;
(b) correspondence of the pure model check_new/sml_adds (model/ConstraintsModel.v part C) on histories of single additions.
The namespace mechanics themselves (parent, uniqueness, views) belong to property C01."""
import common
from common import coq_z

PRELUDE = ("From Coq Require Import List ZArith Bool.\n"
           "From Basyx Require Import model.Corr model.ConstraintsBase model.ConstraintsModel model.ConstraintsObs.\n")

CONCRETE = ["Property", "Range", "MultiLanguageProperty", "ReferenceElement", "File", "Blob", "SubmodelElementCollection",
            "RelationshipElement", "AnnotatedRelationshipElement", "BasicEventElement", "Capability", "Entity",
            "Operation", "SubmodelElementList"]
ABSTRACT = {"SubmodelElement": CONCRETE,
            "DataElement": ["Property", "Range", "MultiLanguageProperty", "ReferenceElement", "File", "Blob"],
            "EventElement": ["BasicEventElement"]}        # metamodel class hierarchy (Part 1), not read from the SDK
TYPE_IDS = {n: i for i, n in enumerate(CONCRETE)}
TYPE_IDS.update({"SubmodelElement": 100, "DataElement": 101, "EventElement": 102})
GEN_ELEM_TYPES = ["Property", "Range", "MultiLanguageProperty", "File", "SubmodelElementCollection", "RelationshipElement",
                  "AnnotatedRelationshipElement", "BasicEventElement"]
VTS = ["Int", "String", "Integer", "Long", "Double", "Float", "Boolean", "AnyURI", "NormalizedString", "UnsignedByte"]   # incl. every Python subclass relation between XSD classes (int, float, str, bool < int)
SEMS = [None, "A", "B"]

_refs = {}


def sem_ref(s):
    from basyx.aas import model
    if s is None:
        return None
    if s not in _refs:
        _refs[s] = model.ExternalReference((model.Key(model.KeyTypes.GLOBAL_REFERENCE, "urn:sem:" + s),))
    # a fresh but equal Reference object every second time: the constraints speak about equality, not identity
    return _refs[s] if len(_refs) % 2 else model.ExternalReference((model.Key(model.KeyTypes.GLOBAL_REFERENCE, "urn:sem:" + s),))


def mk_elem(spec):
    """spec = (class name, value type name, semantic id, with id_short?)"""
    from basyx.aas import model
    cname, vt, sem, with_id = spec
    ids = "x1" if with_id else None
    T = getattr(model.datatypes, vt)
    mref = model.ModelReference((model.Key(model.KeyTypes.SUBMODEL, "x"),), model.Submodel)
    kw = dict(semantic_id=sem_ref(sem))
    if cname in ("Property", "Range"):
        return getattr(model, cname)(ids, T, **kw)
    if cname in ("File", "Blob"):
        return getattr(model, cname)(ids, "a/b", **kw)
    if cname in ("RelationshipElement", "AnnotatedRelationshipElement"):
        return getattr(model, cname)(ids, mref, mref, **kw)
    if cname == "BasicEventElement":
        return model.BasicEventElement(ids, mref, model.Direction.OUTPUT, model.StateOfEvent.ON, **kw)
    if cname == "Entity":
        return model.Entity(ids, model.EntityType.CO_MANAGED_ENTITY, **kw)
    if cname == "SubmodelElementList":
        return model.SubmodelElementList(ids, model.Capability, **kw)
    return getattr(model, cname)(ids, **kw)


def mk_list(cfg, value=()):
    from basyx.aas import model
    tle, vtle, semle = cfg
    return model.SubmodelElementList("lst", getattr(model, tle), value=value,
                                     semantic_id_list_element=sem_ref(semle),
                                     value_type_list_element=None if vtle is None else getattr(model.datatypes, vtle))


# ---------------------------------------------------------------- the constraint texts, on public attributes
def type_matches(tle, cname):
    return cname == tle or cname in ABSTRACT.get(tle, [])


def violations_of_list(lst):
    """set of violated constraint numbers of a SubmodelElementList, from constraints.rst"""
    from basyx.aas import model
    v = set()
    tle = lst.type_value_list_element.__name__
    items = list(lst.value)
    for e in items:
        if not type_matches(tle, type(e).__name__):
            v.add(108)
        if lst.semantic_id_list_element is not None and e.semantic_id is not None \
                and e.semantic_id != lst.semantic_id_list_element:
            v.add(107)
        if tle in ("Property", "Range") and (lst.value_type_list_element is None
                                             or getattr(e, "value_type", None) is not lst.value_type_list_element):
            v.add(109)
        if e.parent is not lst:
            v.add(-1)
    if tle in ("Property", "Range") and lst.value_type_list_element is None:
        v.add(109)
    sems = [e.semantic_id for e in items if e.semantic_id is not None]
    if any(a != b for a in sems for b in sems):
        v.add(114)
    return v


def violations_of_new(cfg, existing_specs, spec):
    """which constraints would the new element violate, given list attributes and the elements it meets"""
    tle, vtle, semle = cfg
    cname, vt, sem, with_id = spec
    v = set()
    if with_id:
        v.add(120)
    if not type_matches(tle, cname):
        v.add(108)
    if semle is not None and sem is not None and sem != semle:
        v.add(107)
    if tle in ("Property", "Range") and cname in ("Property", "Range") and vt != vtle:
        v.add(109)
    if sem is not None and any(s[2] is not None and s[2] != sem for s in existing_specs):
        v.add(114)
    return v


def spec_of(e):
    from basyx.aas import model
    sem = None if e.semantic_id is None else e.semantic_id.key[0].value.rsplit(":", 1)[1]
    vt = getattr(e, "value_type", None)
    return (type(e).__name__, "Int" if vt is None else ("Int" if vt is model.datatypes.Int else "String"), sem, False)


def snapshot(lst):
    return [(id(e), id(e.parent)) for e in lst.value]


# ---------------------------------------------------------------- generation
def gen_spec(rng, cfg, p_bad=0.35):
    tle, vtle, semle = cfg
    if rng.random() < p_bad:
        return (rng.choice(GEN_ELEM_TYPES), rng.choice(VTS), rng.choice(SEMS), rng.random() < 0.15)
    cands = [c for c in GEN_ELEM_TYPES if type_matches(tle, c)] or GEN_ELEM_TYPES
    return (rng.choice(cands), vtle or rng.choice(VTS), rng.choice([None, None, semle or "A"]), False)


def gen_cfg(rng):
    tle = rng.choice(GEN_ELEM_TYPES[:6] + ["SubmodelElement", "DataElement", "EventElement", "Property", "Property", "Range"])
    vtle = rng.choice(VTS) if tle in ("Property", "Range") or rng.random() < 0.2 else None
    if tle in ("Property", "Range") and rng.random() < 0.05:
        vtle = None
    return (tle, vtle, rng.choice([None, None, "A", "B"]))


def gen_op(rng, cfg):
    k = rng.choice(["add", "append", "insert", "extend1", "extend", "iadd", "setvalue", "setitem", "setslice", "pop", "remove",
                    "delitem", "clear", "add", "append", "insert", "childsem", "childsem"])
    if k == "childsem":          # assignment to the semantic_id of a contained child (re-checked against list and siblings)
        return (k, rng.randint(0, 3), rng.choice(SEMS))
    if k in ("add", "append", "extend1"):
        return (k, gen_spec(rng, cfg))
    if k == "insert":
        return (k, rng.randint(-3, 4), gen_spec(rng, cfg))
    if k in ("extend", "iadd", "setvalue"):
        return (k, [gen_spec(rng, cfg, 0.2) for _ in range(rng.randint(0, 3))])
    if k == "setitem":
        return (k, rng.randint(-3, 3), gen_spec(rng, cfg))
    if k == "setslice":
        return (k, rng.randint(0, 3), rng.randint(0, 4), [gen_spec(rng, cfg, 0.2) for _ in range(rng.randint(0, 3))])
    if k in ("pop", "delitem"):
        return (k, rng.randint(-3, 3))
    if k == "remove":
        return (k, rng.randint(0, 3))
    return (k,)


# ---------------------------------------------------------------- SDK run with oracle
SINGLE = ("add", "append", "insert", "extend1")


def run_sdk(cfg, init, ops):
    """-> (codes of the single-addition ops for the model comparison or None, final length, first oracle failure)"""
    from basyx.aas import model
    from c02 import enc_exc
    fail = None
    news = [mk_elem(s) for s in init]
    try:
        lst = mk_list(cfg, news)
    except Exception as e:  # noqa
        code = enc_exc(e)
        # constructor: documented = a constraint number violated by the arguments
        tle, vtle, _ = cfg
        ok_doc = code == 1109 and tle in ("Property", "Range") and vtle is None
        seen = []
        for s in init:
            if (code - 1000) in violations_of_new(cfg, seen, s):
                ok_doc = True
            seen.append(s)
        if not ok_doc:
            fail = (-1, f"constructor raised {type(e).__name__}: {str(e)[:80]}")
        elif any(n.parent is not None for n in news):
            fail = (-1, "rejected constructor left elements with a parent")
        run_sdk.all_codes = [code]
        return [code], 0, fail
    v = violations_of_list(lst)
    if v:
        fail = (-1, f"constructor accepted a list violating {sorted(v)}")
    codes = []
    all_codes = []
    for k, op in enumerate(ops):
        before = snapshot(lst)
        existing = [spec_of(e) for e in lst.value]
        kind = op[0]
        specs = [op[-1]] if kind in SINGLE + ("insert", "setitem") else (op[-1] if kind in ("extend", "iadd", "setvalue", "setslice") else [])
        new = [mk_elem(s) for s in specs]
        try:
            if kind == "add":
                lst.value.add(new[0])
            elif kind == "append":
                lst.value.append(new[0])
            elif kind == "insert":
                lst.value.insert(op[1], new[0])
            elif kind == "extend1":
                lst.value.extend(iter(new))
            elif kind == "extend":
                lst.value.extend(new)
            elif kind == "iadd":
                v0 = lst.value
                v0 += new
            elif kind == "setvalue":
                lst.value = new
            elif kind == "setitem":
                lst.value[op[1]] = new[0]
            elif kind == "setslice":
                lst.value[op[1]:op[2]] = new
            elif kind == "pop":
                lst.value.pop(op[1])
            elif kind == "delitem":
                del lst.value[op[1]]
            elif kind == "remove":
                lst.value.remove(lst.value[op[1]])
            elif kind == "clear":
                lst.value.clear()
            elif kind == "childsem":
                if len(lst.value) > 0:
                    child = lst.value[op[1] % len(lst.value)]
                    sems_before = [e.semantic_id for e in lst.value]
                    try:
                        child.semantic_id = sem_ref(op[2])
                    except Exception:
                        if [e.semantic_id for e in lst.value] != sems_before and not fail:
                            fail = (k, "rejected semantic_id assignment to a list child changed a semantic id")
                        raise
            code = 0
            v = violations_of_list(lst)
            if v and not fail:
                fail = (k, f"{kind} accepted; the list now violates {sorted(v)}")
            if not fail and any(s[3] for s in specs) and any(n.parent is lst for n, s in zip(new, specs) if s[3]):
                fail = (k, f"{kind} accepted an element that came with an idShort (AASd-120)")
        except Exception as e:  # noqa
            code = enc_exc(e)
            if not fail:
                if kind in ("pop", "delitem", "remove", "setitem") and code == 4:
                    pass                                   # IndexError of the list operation itself
                elif code < 1000:
                    fail = (k, f"{kind} raised {type(e).__name__}: {str(e)[:80]}")
                elif kind == "childsem":
                    idx = op[1] % max(len(existing), 1)
                    others = existing[:idx] + existing[idx + 1:]
                    me = existing[idx] if existing else None
                    cand = (me[0], me[1], op[2], False) if me else None
                    if not (cand and (code - 1000) in (violations_of_new(cfg, others, cand) & {107, 114})):
                        fail = (k, f"semantic_id assignment to a list child raised AASd-{code - 1000} without a violation")
                else:
                    # the number must be a constraint violated by one of the new elements against what it meets
                    ok_doc, seen = False, list(existing)
                    if kind == "setvalue":
                        seen = []
                    for s in specs:
                        if (code - 1000) in violations_of_new(cfg, seen, s):
                            ok_doc = True
                        seen.append(s)
                    if not ok_doc:
                        fail = (k, f"{kind} raised AASd-{code - 1000} but no new element violates it")
                if not fail and snapshot(lst) != before:
                    fail = (k, f"rejected {kind} changed the list")
                if not fail and any(n.parent is not None or n.id_short not in (None, "x1") for n in new):
                    fail = (k, f"rejected {kind} left a new element with a parent or a generated idShort")
                if not fail:
                    v = violations_of_list(lst)
                    if v:
                        fail = (k, f"after rejected {kind} the list violates {sorted(v)}")
        if kind in SINGLE + ("insert",):
            codes.append(code)
        all_codes.append(code)
    run_sdk.all_codes = all_codes
    return codes, len(lst.value), fail


def coq_elem(s):
    cname, vt, sem, with_id = s
    vtid = VTS.index(vt)
    return (f"(mkElem {TYPE_IDS[cname]}%nat {vtid}%nat "
            + ("None" if sem is None else f"(Some {SEMS.index(sem)}%nat)") + f" {'true' if with_id else 'false'})")


def coq_cfg(cfg):
    tle, vtle, semle = cfg
    mem = ABSTRACT.get(tle, [])
    ml = "[" + "; ".join(f"{TYPE_IDS[m]}%nat" for m in mem) + "]" if mem else "(@nil nat)"
    return (f"(mkCfg {TYPE_IDS[tle]}%nat {ml} {'true' if tle in ('Property', 'Range') else 'false'} "
            + ("None" if vtle is None else f"(Some {VTS.index(vtle)}%nat)") + " "
            + ("None" if semle is None else f"(Some {SEMS.index(semle)}%nat)") + ")")


MODEL_OPS = SINGLE + ("insert", "extend", "iadd", "setvalue")


def coq_sop(op):
    k = op[0]
    if k in SINGLE + ("insert",):
        return "SAdd " + coq_elem(op[-1])
    el = "[" + "; ".join(coq_elem(s) for s in op[-1]) + "]" if op[-1] else "(@nil elem)"
    return ("SSetValue " if k == "setvalue" else "SExtend ") + el


def shrink(cfg, init, ops):
    cur = list(ops)
    changed = True
    while changed:
        changed = False
        for i in range(len(cur)):
            cand = cur[:i] + cur[i + 1:]
            if run_sdk(cfg, init, cand)[2] is not None:
                cur, changed = cand, True
                break
    return cur


def frag_sml(chk, can_eval):
    import itertools
    rng = chk.rng
    cases = []
    # every order of elements with/without semantic ids, every way of adding, lists with and without
    # semantic_id_list_element; Property/Range/abstract/concrete type_value_list_element
    sem_orders = list(itertools.product(SEMS, repeat=3))
    for tle, vtle in (("Property", "Int"), ("DataElement", None), ("SubmodelElementCollection", None)):
        et = "Property" if tle != "SubmodelElementCollection" else "SubmodelElementCollection"
        for semle in (None, "A"):
            for how in ("add", "append", "insert", "extend1", "extend", "setvalue", "ctor", "iadd", "setslice"):
                for so in sem_orders:
                    specs = [(et, "Int", s, False) for s in so]
                    if how == "ctor":
                        cases.append(((tle, vtle, semle), specs, []))
                    elif how in ("extend", "setvalue", "iadd"):
                        cases.append(((tle, vtle, semle), [], [(how, specs)]))
                    elif how == "setslice":
                        cases.append(((tle, vtle, semle), [(et, "Int", None, False)] * 3, [("setslice", 0, 3, specs)]))
                    elif how == "insert":
                        cases.append(((tle, vtle, semle), [], [("insert", 0, s) for s in specs]))
                    else:
                        cases.append(((tle, vtle, semle), [], [(how, s) for s in specs]))
    chk.cov["sml_exhaustive"] = (f"all 27 orders of 3 elements with semantic id none/A/B x 9 ways of adding x "
                                 f"semantic_id_list_element none/A x Property/DataElement(abstract)/SubmodelElementCollection "
                                 f"lists: {len(cases)} cases")
    for _ in range(1500 if chk.tier == "quick" else 15000):
        cfg = gen_cfg(rng)
        init = [gen_spec(rng, cfg, 0.1) for _ in range(rng.choice([0, 0, 1, 2]))]
        cases.append((cfg, init, [gen_op(rng, cfg) for _ in range(rng.randint(1, 8))]))
    terms, tcases = [], []
    for cfg, init, ops in cases:
        codes, n, fail = run_sdk(cfg, init, ops)
        chk.seen(("sml", repr((cfg, init, ops))), nontrivial=len(ops) + len(init) >= 2)
        chk.count("sml:list-type=" + cfg[0])
        for o in ops:
            chk.count("sml:op=" + o[0])
        if fail:
            k, msg = fail
            small = shrink(cfg, init, ops[:k + 1]) if k >= 0 else []
            k2, msg2 = run_sdk(cfg, init, small)[2]
            import re
            chk.fail(f"C02:SubmodelElementList:{small[k2][0] if k2 >= 0 else 'ctor'}:" + re.sub(r"\[.*?\]|\d+", "_", msg2)[:60], msg2,
                     {"kind": "sml", "cfg": list(cfg), "init": [list(s) for s in init], "ops": [list(o) for o in small]})
        # model comparison: histories consisting of single additions only (refused ones are skipped)
        if all(o[0] in SINGLE + ("insert",) for o in ops):
            es = list(init) + [o[-1] for o in ops]
            # the constructor stops at the first refused element: compare such cases through the op stream only
            if not init:
                el = "[" + "; ".join(coq_elem(s) for s in es) + "]" if es else "(@nil elem)"
                cl = "[" + "; ".join(coq_z(c) for c in codes) + "]" if codes else "(@nil Z)"
                terms.append(f"({coq_cfg(cfg)}, {el}, {cl}, {n})")
                tcases.append((cfg, init, ops))
    # additions-only stream for the model
    for _ in range(1500 if chk.tier == "quick" else 15000):
        cfg = gen_cfg(rng)
        ops = []
        for _ in range(rng.randint(1, 7)):
            k = rng.choice(SINGLE + ("insert",))
            ops.append((k, rng.randint(-3, 4), gen_spec(rng, cfg)) if k == "insert" else (k, gen_spec(rng, cfg)))
        codes, n, fail = run_sdk(cfg, [], ops)
        chk.seen(("sml-add", repr((cfg, ops))), nontrivial=len(ops) >= 2)
        if fail:
            chk.fail("C02:SubmodelElementList:additions:" + fail[1][:40], fail[1],
                     {"kind": "sml", "cfg": list(cfg), "init": [], "ops": [list(o) for o in ops]})
        es = [o[-1] for o in ops]
        cl = "[" + "; ".join(coq_z(c) for c in codes) + "]" if codes else "(@nil Z)"
        terms.append(f"({coq_cfg(cfg)}, [" + "; ".join(coq_elem(s) for s in es) + f"], {cl}, {n})")
        tcases.append((cfg, [], ops))
    # add/append/insert/extend/+=/value-setter stream for sml_run (multi-element calls are atomic)
    oterms, ocases = [], []
    for _ in range(1500 if chk.tier == "quick" else 15000):
        cfg = gen_cfg(rng)
        ops = []
        for _ in range(rng.randint(1, 7)):
            k = rng.choice(MODEL_OPS)
            if k in ("extend", "iadd", "setvalue"):
                ops.append((k, [gen_spec(rng, cfg, 0.2) for _ in range(rng.randint(0, 3))]))
            elif k == "insert":
                ops.append((k, rng.randint(-3, 4), gen_spec(rng, cfg)))
            else:
                ops.append((k, gen_spec(rng, cfg)))
        ocases.append((cfg, [], ops))
    ocases += [c for c in cases if not c[1] and c[2] and all(o[0] in MODEL_OPS for o in c[2])]
    for cfg, init, ops in ocases:
        _, n, fail = run_sdk(cfg, init, ops)
        acodes = list(run_sdk.all_codes) if hasattr(run_sdk, "all_codes") else []
        chk.seen(("sml-ops", repr((cfg, ops))), nontrivial=len(ops) >= 2)
        if fail:
            k, msg = fail
            small = shrink(cfg, init, ops[:k + 1]) if k >= 0 else []
            k2, msg2 = run_sdk(cfg, init, small)[2]
            import re
            chk.fail(f"C02:SubmodelElementList:{small[k2][0] if k2 >= 0 else 'ctor'}:" + re.sub(r"\[.*?\]|\d+", "_", msg2)[:60], msg2,
                     {"kind": "sml", "cfg": list(cfg), "init": [], "ops": [list(o) for o in small]})
        cl = "[" + "; ".join(coq_z(c) for c in acodes) + "]" if acodes else "(@nil Z)"
        oterms.append(f"({coq_cfg(cfg)}, [" + "; ".join(coq_sop(o) for o in ops) + f"], {cl}, {n})")
    if can_eval:
        bad, errs = common.run_mismatch_shards("C02smo", PRELUDE, oterms, "check_sml_ops_case", shard=800)
        chk.traces += common.run_mismatch_shards.evaluated - len(bad)
        for e in errs:
            chk.tie_broken("correspondence-run", e)
        if bad:
            chk.tie_broken("correspondence", {"fragment": "SubmodelElementList extend/+=/value setter", "n_disagreements": len(bad),
                                              "case": repr(ocases[bad[0]]), "term": oterms[bad[0]][:600]})
        bad, errs = common.run_mismatch_shards("C02sml", PRELUDE, terms, "check_sml_case", shard=800)
        chk.traces += common.run_mismatch_shards.evaluated - len(bad)
        for e in errs:
            chk.tie_broken("correspondence-run", e)
        if bad:
            chk.tie_broken("correspondence", {"fragment": "SubmodelElementList._check_constraints", "n_disagreements": len(bad),
                                              "case": repr(tcases[bad[0]]), "term": terms[bad[0]][:600]})
    # renaming a contained element (AASd-120 through the id_short setter)
    from basyx.aas import model
    from c02 import call
    lst = mk_list(("Property", "Int", None), [mk_elem(("Property", "Int", None, False))])
    e = call(lambda: setattr(lst.value[0], "id_short", "abc"))
    if not (isinstance(e, model.AASConstraintViolation) and e.constraint_id == 120):
        chk.fail("C02:SubmodelElementList:rename-child", f"id_short assignment to a list child: {e!r}", {"kind": "sml-rename"})


def replay_case(rp):
    cfg = tuple(rp["cfg"])
    init = [tuple(s) for s in rp["init"]]
    ops = []
    for o in rp["ops"]:
        o = list(o)
        if isinstance(o[-1], list) and o[-1] and isinstance(o[-1][0], list):
            o[-1] = [tuple(s) for s in o[-1]]
        elif isinstance(o[-1], list):
            o[-1] = tuple(o[-1]) if o[0] not in ("extend", "iadd", "setvalue", "setslice") else []
        ops.append(tuple(o))
    codes, n, fail = run_sdk(cfg, init, ops)
    print("codes:", codes, "len:", n)
    print("oracle:", fail)
    return 1 if fail else 0
