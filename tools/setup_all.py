"""setup_cmd: regenerate gen/*.v from /repo (where translators exist) and build every .vo."""
import importlib
import os
import sys
sys.path.insert(0, os.path.dirname(os.path.abspath(__file__)))
import common

os.makedirs(common.GEN, exist_ok=True)
try:
    gen = importlib.import_module("py2coq")
    for msg in gen.regenerate_all():
        print("gen:", msg)
except ModuleNotFoundError:
    pass
except Exception as e:  # a translator abort must not stop the build of the hand-written part
    print("gen: translator aborted:", e)
ok, log = common.coq_make(keep_going=True)
print(log[-3000:])
print("setup:", "ok" if ok else "some targets failed (reported by the checks that need them)")
sys.exit(0)
