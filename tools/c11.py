"""C11 - HTTP server turns every bad request into a 4xx result, never a crash or 5xx.
Theorems: coq/theories/props/C11.v over model/Http.v + gen/Gen_HttpRoutes.v (regenerated from
sdk/basyx/aas/adapter/http.py on every run).  Tie C: the route x method x malformed-input matrix and
random histories run through werkzeug's test client and through the model (vm_compute).  Oracle: no
exception / 5xx (501 only on not_implemented routes), 4xx body = result structure, store and file
container unchanged after 4xx/501, malformed/wrong-class bodies not accepted."""
import json
import os
import random
import re
import time

import logging

import common
import httpgen as G
import httpcorr as H
import httpcases as CS

THEOREMS = ["C11_no_5xx", "C11_no_5xx_partial", "C11_own_ids_reachable", "C11_4xx_body", "C11_rejected_unchanged", "C11_ok_status",
            "C11_example_hypotheses", "C11_example_renamed"]
VO = ["theories/props/C11.vo", "theories/model/HttpObs.vo"]


def fallback_routes(srv):
    """the route table as werkzeug holds it (used only when the translator aborted, to keep the oracles running)"""
    out = []
    for r in srv.app.url_map.iter_rules():
        ms = sorted(m for m in (r.methods or ()) if m not in ("HEAD", "OPTIONS"))
        out.append((r.rule[len(G.BASE):], ms, r.endpoint.__name__))
    return out


def tie_T(chk):
    """regenerate Gen_HttpRoutes.v from the current http.py and validate the extraction against werkzeug's own map.
    -> (extraction or None when the translator aborted, server)"""
    from py2coq import httproutes
    srv = H.Server()
    try:
        msg = httproutes.regenerate()
        ex = httproutes.extract()
    except Exception as e:
        chk.tie_broken("translation", f"tools/py2coq/httproutes.py aborted: {type(e).__name__}: {e}")
        return None, srv
    chk.notes.append("Gen_HttpRoutes.v " + msg)
    try:
        mine = sorted((G.BASE + r, tuple(sorted(ms)), ep) for (r, ms, ep) in ex["routes"])
        theirs = sorted((G.BASE + r, tuple(ms), ep) for (r, ms, ep) in fallback_routes(srv))
        if mine != theirs:
            diff = [x for x in mine if x not in theirs][:3] + [x for x in theirs if x not in mine][:3]
            chk.tie_broken("translation-validation", {"what": "route table extracted from the source differs from url_map.iter_rules()", "diff": diff})
        from basyx.aas.adapter import http as M
        cons = sorted(k.__name__ for k in M.HTTPApiDecoder.type_constructables_map)
        if cons != sorted(ex["constructables"]):
            chk.tie_broken("translation-validation", {"what": "type_constructables_map", "source": ex["constructables"], "runtime": cons})
        chk.count("routes", len(mine))
    except Exception as e:
        chk.tie_broken("translation-validation", f"{type(e).__name__}: {e}")
    return ex, srv


def signature(prop, req, kind, ep):
    if req.get("sig"):
        return f"{prop}:{kind}:{req['sig']}"
    b = req["body"]
    if kind == "accepted" and b[0] == "val" and b[1] != "json":
        return f"{prop}:accepted:wrong-class-xml-body"
    cls = re.sub(r"\d+", "N", req.get("cls", "?"))
    return f"{prop}:{kind}:{ep}:{req['method']}:{cls}"[:150]


def replay_dict(objs, files, backed, reqs, k):
    return {"how": "tools/c11.py replay(): fixture objects + requests through werkzeug.test.Client(WSGIApp(store, files))",
            "backed_by_local_files": backed, "objects": objs, "files": files, "failing_request_index": k,
            "requests": [{kk: (list(v) if isinstance(v, tuple) else v) for kk, v in r.items()} for r in reqs]}


def run_cases(chk, srv, ex, plans, tag, prop="C11", shard=25, model=True):
    """plans: list of (objs, files, backed, reqs, stop_after_mutation).  Runs everything on the SDK
    (oracle per request) and on the model; reports."""
    cases, deferred = [], []
    nreq = 0
    for plan in plans:
        (objs, files, backed, reqs, stop) = plan[:5]
        if len(plan) > 5 and not plan[5]:      # whole history through the oracle only (outside the model)
            res = H.run_history(srv, objs, files, backed, [dict(r, oracle_only=None) for r in reqs])
            chk.count("oracle-only", len(reqs))
            for (k, kind, text, ep) in res["fails"]:
                r = reqs[k]
                chk.fail(signature(prop, r, kind, ep), f"{r['method']} {H.url_of(r)} [{r.get('cls')}]: {text}",
                         replay_dict(objs, files, backed, reqs[:k + 1], k))
            continue
        i = 0
        while i < len(reqs):
            res = H.run_history(srv, objs, files, backed, reqs[i:i + 40] if stop else reqs, stop_after_mutation=stop,
                                routes=ex["routes"], repeat_created=True)
            i += res["n"] if stop else len(reqs)
            deferred += [(objs, files, backed, d) for d in res["deferred"]]
            if res["reqs"]:
                cases.append((objs, files, backed, res))
            nreq += len(res["reqs"])
            for (k, kind, text, ep) in res["fails"]:
                r = res["reqs"][k]
                chk.fail(signature(prop, r, kind, ep), f"{r['method']} {H.url_of(r)} [{r.get('cls')}]: {text}",
                         replay_dict(objs, files, backed, res["reqs"][:k + 1], k))
            for r, ep in zip(res["reqs"], res["eps"]):
                chk.seen((r["method"], H.url_of(r), str(r["body"])[:200], r["accept"], backed), nontrivial=True)
                chk.count("endpoint=" + str(ep))
                chk.count("method=" + r["method"])
            for row in res["rows"][0::2]:
                chk.count("status=" + str(row[0]))
    # requests the model is not asked about (URL routed to another rule, hash-ordered pages, XML root tag ignored)
    for (objs, files, backed, d) in deferred:
        r2 = dict(d, oracle_only=None)
        res = H.run_history(srv, objs, files, backed, [r2])
        chk.count("oracle-only")
        for (k, kind, text, ep) in res["fails"]:
            chk.fail(signature(prop, d, kind, ep), f"{d['method']} {H.url_of(d)} [{d.get('cls')}]: {text}",
                     replay_dict(objs, files, backed, [d], 0))
    srv.cleanup()
    if not model:       # the translator aborted: the generated tables the model needs do not describe the source
        return nreq
    bad, errs = common.run_mismatch_shards(tag, H.PRELUDE, [c[3]["case"] for c in cases], "check_case", shard=shard, jobs=12)
    chk.traces += sum(len(c[3]["reqs"]) for i, c in enumerate(cases) if i not in set(bad))
    for e in errs:
        chk.tie_broken("correspondence-run", e)
    for b in bad[:3]:
        objs, files, backed, res = cases[b]
        d = H.diagnose(tag, res, res["reqs"])
        d["n_disagreeing_histories"] = len(bad)
        d["replay"] = replay_dict(objs, files, backed, res["reqs"][:d.get("request_index", 0) + 1], d.get("request_index", 0))
        chk.tie_broken("correspondence", d)
    return nreq


def run(chk):
    rng = chk.rng
    logging.disable(logging.CRITICAL)     # the SDK's readers log every rejected body
    ex, srv = tie_T(chk)
    chk.theorems("props.C11", THEOREMS, VO)
    model = ex is not None
    if not model:       # keep searching for a concrete failing input with the oracle alone
        ex = {"routes": fallback_routes(srv), "functions": {}}
    expects = {q: f["bodies"][0][0] for q, f in ex["functions"].items() if f["bodies"]}
    full = chk.tier == "thorough"
    mx = CS.matrix(ex["routes"], rng, full, expects)
    chk.cov["matrix_size"] = len(mx)
    if not full:
        # quick tier: every (route, method, variation class) once, bodies sampled
        def xb(r):      # XML-illegal code points: always with an XML Accept on GET, a sample of the rest
            return "xmlbad" not in r["cls"] or (r["method"] == "GET" and r["accept"][1] != "json") or rng.random() < 0.05
        keep = [r for r in mx if xb(r) and ("|body:" not in r["cls"] or r["cls"].endswith("body:missing") or rng.random() < 0.07
                or (r["cls"].startswith(("path:rel|", "path:arel|")) and r["body"][0] == "val" and r["body"][2]["k"] == "elem")
                or (r["method"] == "PUT" and "qualifier_type" in r["rule"] and r["cls"].startswith(("valid|body:qual", "path:valid|body:qual")))
                or r["cls"].endswith("body:upload-samename") or "defective-" in r["cls"] or "name" in r["cls"].split("body:")[-1]
                or "deep-" in r["cls"] or "surrogate" in r["cls"] or "ctparam:" in r["cls"] or "redirect-tail" in r["cls"]
                or (r["body"][0] == "val" and any(t in r["cls"] for t in ("body:list-", "body:sm-list", "body:blob-")) and
                    r["cls"].startswith(("valid|", "path:list|", "path:list-range|", "path:blob-empty|")))
                or (r["method"] == "POST" and r["body"][0] == "val" and r["body"][1] == "json"
                    and r["cls"].startswith(("valid|", "path:coll|", "path:nested|")))      # creating requests (repeated after a 201)
                or (r["body"][0] == "val" and "classchange" in str(r["cls"]) and r["cls"].startswith(("valid|", "path:coll|", "path:classchange|"))))]
        mx_run = keep
    else:
        mx_run = mx
    objs, files = CS.fixture()
    plans = [(objs, files, False, mx_run, True)]
    # first of all (nothing has been routed yet), once per application object: writes repeated on the same URL
    plans = [(objs, files, False, CS.repeat_after_write(), False), (objs, files, False, CS.repeat_after_write(), False)] + plans
    qc = CS.query_combinations(ex["routes"], expects)
    plans.append(([], [], False, qc, False))          # against an empty store ...
    plans.append((objs, files, False, qc, False))     # ... and against the fixture
    pool = [r for r in mx if not r.get("oracle_only")]
    nh, hl = (60, 25) if not full else (600, 30)
    for k in range(nh):
        plans.append((objs, files, k % 5 == 4, CS.random_history(rng, pool, hl, k % 5 == 4), False))
    for (label, backed, reqs, oracle_only) in CS.scenarios():
        plans.append(([], [], backed, reqs, False, not oracle_only))
    # valid replacements that change only the attributes behind `tok` (description, semanticId, supplementalSemanticIds)
    # of a submodel / an element / nested children, over every pair of semantics classes: none of them may be refused,
    # crash, or leave the target half-updated
    for k in range(8 if not full else 40):
        plans.append(([], [], k % 2 == 1, CS.tok_history(rng, 24), False))
    n = run_cases(chk, srv, ex, plans, "C11", model=model)
    chk.cov["requests_compared_with_model"] = n
    chk.samples = [{"request": f"{r['method']} {H.url_of(r)}", "class": r["cls"]} for r in rng.sample(mx_run, 6)]
    chk.trusted = [
        "Coq 8.16.1 kernel (coqc; vm_compute for the finite table checks, the examples and the correspondence)",
        "tools/py2coq/httproutes.py (fail-closed ast translator; its route table is compared with url_map.iter_rules() on every run)",
        "hand-written model coq/theories/model/Http.v (sequence of operations per handler, exception class per operation, "
        "update_from merge, paging) - tied to http.py only by the differential runs",
        "werkzeug: URL matching/converters, Accept negotiation, multipart parsing (requests reach the model as route pattern + "
        "decoded arguments; the harness decodes base64url / validates idShort paths itself)",
        "JSON/XML readers and writers (a body reaches the model as the abstract value it denotes or as 'unprocessable')",
        "tools/c11.py, httpcorr.py, httpgen.py, httpcases.py (generators, canonicalisers, oracle), tools/common.py",
    ]
    chk.assumptions = ["req_ok: the request carries the idShort path its route declares (guaranteed by werkzeug's matcher)",
                       "C11_no_5xx is stated for the stores reached by request histories from an empty store; for a pre-filled store "
                       "it needs own_ids (every object filed under its own id), which every ObjectStore.add establishes"]
    return chk.finish(level="proof",
                      rule="route x method x {identifier, idShort path, body, Accept, query} malformation matrix, one variation at a time "
                           "around a valid request on a fixture with nested elements/files/qualifiers (quick: bodies sampled at 12%, "
                           "thorough: all, plus wrong-class bodies on every id variant); random histories sampled from the matrix on "
                           "the evolving store (every 5th on a LocalFileObjectStore); directed histories for the open findings; "
                           "non-trivial = every request (each is a distinct (method, URL, body, Accept, store kind))")


def replay(path):
    r = json.load(open(path))
    rp = r.get("replay") or {}
    if "requests" not in rp:
        print(json.dumps(r, indent=1)[:3000])
        return 1
    srv = H.Server()
    reqs = []
    for q in rp["requests"]:
        q = dict(q)
        for k in ("accept", "body"):
            q[k] = tuple(q[k])
        if q["body"][0] == "raw":
            b = q["body"]
            q["body"] = (b[0], b[1], b[2].encode("latin-1") if isinstance(b[2], str) else bytes(b[2]), b[3])
        if q["body"][0] == "upload" and q["body"][2] is not None:
            q["body"] = (q["body"][0], q["body"][1], tuple(q["body"][2]))
        q["query"] = [tuple(x) for x in q.get("query", [])]
        q.pop("oracle_only", None)
        reqs.append(q)
    objs = rp["objects"]
    for o in objs:
        fix_tuples(o)
    res = H.run_history(srv, objs, [tuple(f) for f in rp["files"]], rp["backed_by_local_files"], reqs)
    srv.cleanup()
    for (k, kind, text, ep) in res["fails"]:
        print(f"request {k} ({reqs[k]['method']} {H.url_of(reqs[k])}) -> {kind}: {text}")
    print("oracle failures:", len(res["fails"]))
    return 1 if res["fails"] else 0


def fix_tuples(o):
    if isinstance(o, dict):
        if "quals" in o:
            o["quals"] = [tuple(q) for q in o["quals"]]
        if o.get("val") is not None:
            o["val"] = tuple(o["val"])
        for k in ("elems", "children"):
            for c in o.get(k, []):
                fix_tuples(c)
