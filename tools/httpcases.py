"""Case generators for C10/C11: the fixture, the route x method x malformed-input matrix and
seeded random request histories (request specs as described in httpcorr.py)."""
import base64
import json

import httpgen as G
from httpgen import b64

SM1, SM2, SMX = "urn:sm/1+=", "grüße-ä", "https://ex.org/sm?a=b&c=>>>?"
AAS1, AAS2 = "urn:aas:1", ">>>???"
CD1, CD2 = "urn:cd:1", "urn:cd:2"
IDS = [SM1, SM2, SMX, AAS1, AAS2, CD1, CD2, "urn:new:1", "urn:new:2", "A", "urn:dangling"]
NAMES = ["p1", "p2", "p3", "c1", "c2", "l1", "f1", "f2", "f3", "f4", "b1", "b2", "n1", "n2", "n3", "n4", "x_9"]
QTYPES = ["q1", "q2", "Q 3/ü+="]


def P(ids, tok=1, quals=()):
    return {"mt": "Property", "ids": ids, "tok": tok, "quals": list(quals), "children": [], "ctype": 0, "val": None}


def C(ids, children, tok=2, quals=()):
    return {"mt": "SubmodelElementCollection", "ids": ids, "tok": tok, "quals": list(quals), "children": children,
            "ctype": 0, "val": None}


def L(ids, children, tok=4, ctype=0):
    """ctype of a list = its typing: 0 Property/xs:string, 1 Range/xs:int, 2 Property/xs:string + semanticIdListElement"""
    return {"mt": "SubmodelElementList", "ids": ids, "tok": tok, "quals": [], "children": children, "ctype": ctype, "val": None}


def F(ids, val, ctype=0, tok=6):
    return {"mt": "File", "ids": ids, "tok": tok, "quals": [], "children": [], "ctype": ctype,
            "val": None if val is None else ("path", val)}


def B(ids, val, ctype=0, tok=7):
    return {"mt": "Blob", "ids": ids, "tok": tok, "quals": [], "children": [], "ctype": ctype,
            "val": None if val is None else ("data", val)}


def R(ids, tok=8):
    return {"mt": "Range", "ids": ids, "tok": tok, "quals": [], "children": [], "ctype": 0, "val": None}


def REL(ids, tok=8):
    return {"mt": "RelationshipElement", "ids": ids, "tok": tok, "quals": [], "children": [], "ctype": 0, "val": None}


def AREL(ids, tok=8):
    return {"mt": "AnnotatedRelationshipElement", "ids": ids, "tok": tok, "quals": [], "children": [], "ctype": 0, "val": None}


G.RSI_IDS.update({SM2, "urn:dangling"})     # references to these carry a referredSemanticId

# code points that are not allowed in an XML document (C0 controls, DEL is allowed, U+FFFE, U+FFFF); lone surrogates
# cannot be sent as UTF-8 (they arrive as undecodable bytes: the `nonutf8` variants)
XML_ILLEGAL = [0x00, 0x01, 0x0b, 0x1f, 0xfffe, 0xffff]


def fixture():
    sm1 = {"k": "sm", "id": SM1, "ids": "Sm1", "tok": 1, "quals": [("q1", 1), ("q2", 2)], "elems": [
        P("p1", 1, [("q1", 5), ("q2", 6)]), REL("r1"), AREL("r2"), P("v1", 2),
        C("c1", [P("p2", 3), C("c2", [P("p3", 3)])], quals=[("q2", 6)]),
        L("l1", [P(None, 5), P(None, 6)]), L("l2", [R(None, 3)], ctype=1),
        F("f1", None), F("f2", "/aasx/x.txt"), F("f3", "http://ext/x.txt"), F("f4", "/aasx/missing.txt"),
        B("b1", 1), B("b2", None), B("b4", 0), B("b3", 1, ctype=2), F("f5", "/aasx/x.txt", ctype=2),
        C("c3", []), C("c4", []), C("c5", []), C("c6", [])]}
    sm2 = {"k": "sm", "id": SM2, "ids": "Sm2", "tok": 2, "quals": [], "elems": []}
    sh1 = {"k": "shell", "id": AAS1, "ids": "Sh1", "tok": 1, "refs": [SM1, "urn:dangling", CD1]}
    sh2 = {"k": "shell", "id": AAS2, "ids": "Sh2", "tok": 2, "refs": []}
    cd1 = {"k": "cd", "id": CD1, "ids": "Cd1", "tok": 1}
    cd2 = {"k": "cd", "id": CD2, "ids": None, "tok": 2}
    return [sm1, sh1, cd1, sm2, sh2, cd2], [("/aasx/x.txt", 1, 0)]


VALID = {"aas": AAS1, "sm": SM1, "cd": CD1, "qt": "q1"}
ARGN = {"aas_id": "aas", "submodel_id": "sm", "concept_id": "cd", "qualifier_type": "qt", "handleId": "qt"}


def id_variants(arg):
    v = VALID[arg]
    other = {"aas": CD1, "sm": CD1, "cd": AAS1, "qt": "q2"}[arg]
    yield "unknown", b64("urn:nope")
    yield "wrongkind", b64(other)
    yield "nopad", b64(v + "xx").rstrip("=") if not b64(v).endswith("=") else b64(v).rstrip("=")
    yield "overpadded", b64(v) + "==="
    yield "nonb64", "!!!*"
    yield "len1", "A"
    yield "len5", "QUJDR"
    yield "nonutf8", base64.urlsafe_b64encode(b"\xff\xfe\x80").decode()
    yield "nonascii", "ä"
    yield "nonascii-mixed", b64(v)[:4] + "é" + b64(v)[4:]
    yield "ctrlchar", base64.urlsafe_b64encode(b"a\x01b").decode()
    for cp in XML_ILLEGAL:
        yield f"xmlbad-{cp:04x}", b64("a" + chr(cp) + "b")
    yield "xmlbad-surrogate", base64.urlsafe_b64encode(b"a\xed\xa0\x80b").decode()
    yield "xmlbad-raw-ffff", "a\uffffb"
    yield "stdalphabet", b64(">>>???").replace("-", "+").replace("_", "/").replace("/", "_")
    if arg == "sm":
        yield "dangling", b64("urn:dangling")
        yield "refcd", b64(CD1)
        yield "other", b64(SM2)


PATHS = [("valid", "p1"), ("nested", "c1.c2.p3"), ("unknown", "zz"), ("nested-unknown", "c1.zz"),
         ("through-leaf", "p1.x"), ("list", "l1"), ("list-index", "l1.0"), ("list-name", "l1.x"),
         ("bad-syntax", "1a"), ("empty-seg", "c1..p2"), ("toolong", "a" * 200), ("deep", ".".join(["c1"] * 30)),
         ("file-none", "f1"), ("file-int", "f2"), ("file-ext", "f3"), ("file-missing", "f4"), ("blob", "b1"),
         ("blob-none", "b2"), ("coll", "c1"), ("nonascii", "pä"), ("underscore", "_a"), ("dash", "a-b"),
         ("rel", "r1"), ("arel", "r2")] + [(f"xmlbad-{cp:04x}", "a" + chr(cp) + "b") for cp in XML_ILLEGAL] \
        + [("classchange", "v1")]

ACCEPTS = [(None, "json"), ("application/json", "json"), ("application/xml", "xml"), ("text/xml", "textxml"),
           ("*/*", "json"), ("image/png", "none"), ("text/*", "textxml"), ("application/*;q=0.1, text/xml", "textxml"),
           ("text/xml;q=0.5, application/xml;q=0.6", "xml"), ("garbage", "none"), ("", "json"),
           ("application/xml, application/json", "json"), ("text/html, */*;q=0.1", "json")]
METHODS = ["GET", "HEAD", "POST", "PUT", "DELETE", "PATCH", "OPTIONS", "FOO"]


def _sad(d):
    return b64(json.dumps(d))


QUERIES = [  # (label, [(key, raw)], qlabels)
    ("limit0", [("limit", "0")], {}), ("limit-neg", [("limit", "-1")], {}), ("limit-word", [("limit", "abc")], {}),
    ("limit1-cursor1", [("limit", "1"), ("cursor", "1")], {}), ("cursor-neg", [("cursor", "-1")], {}),
    ("cursor-word", [("cursor", "x")], {}), ("limit-float", [("limit", "1e3")], {}),
    ("limit-huge", [("limit", "99999999999999999999999")], {}), ("cursor-huge", [("cursor", "9" * 30)], {}),
    ("limit-unicode-digit", [("limit", "٣")], {}), ("limit-nonascii", [("limit", "ä")], {}),
    ("limit-empty", [("limit", "")], {}), ("limit-space", [("limit", " 2 ")], {}), ("limit-underscore", [("limit", "1_0")], {}),
    ("cursor-beyond", [("cursor", "50")], {}), ("limit2", [("limit", "2")], {}),
    ("level-core", [("level", "core")], {}), ("level-deep", [("level", "deep")], {}), ("level-empty", [("level", "")], {}),
    ("level-Core", [("level", "Core")], {}),
    ("idshort", [("idShort", "Sh1")], {}), ("idshort-sm", [("idShort", "Sm2")], {}), ("idshort-empty", [("idShort", "")], {}),
    ("idshort-unknown", [("idShort", "nope")], {}),
    ("assetids-ok", [("assetIds", _sad({"name": "n", "value": "v"}))], {"assetIds": ["ok"]}),
    ("assetids-nonb64", [("assetIds", "!!!")], {"assetIds": ["bad422"]}),
    ("assetids-len1", [("assetIds", "A")], {"assetIds": ["bad400"]}),
    ("assetids-trunc-json", [("assetIds", b64("{"))], {"assetIds": ["bad422"]}),
    ("assetids-array", [("assetIds", b64("[1]"))], {"assetIds": ["bad422"]}),
    ("assetids-number", [("assetIds", b64("5"))], {"assetIds": ["bad422"]}),
    ("assetids-wrongtype", [("assetIds", _sad({"name": 5}))], {"assetIds": ["bad422"]}),
    ("assetids-nonutf8", [("assetIds", base64.urlsafe_b64encode(b"\xff\xfe").decode())], {"assetIds": ["bad400"]}),
    ("assetids-two", [("assetIds", _sad({"name": "n", "value": "v"})), ("assetIds", "A")], {"assetIds": ["ok", "bad400"]}),
    ("semid-ok", [("semanticId", _sad({"type": "ExternalReference", "keys": [{"type": "GlobalReference", "value": "x"}]}))],
     {"semanticId": "ok"}),
    ("semid-len1", [("semanticId", "x")], {"semanticId": "bad400"}),
    ("semid-empty-obj", [("semanticId", b64("{}"))], {"semanticId": "bad422"}),
    ("semid-nokeys", [("semanticId", _sad({"type": "ModelReference", "keys": []}))], {"semanticId": "bad422"}),
    ("semid-badtype", [("semanticId", _sad({"type": "Foo", "keys": [{"type": "GlobalReference", "value": "x"}]}))],
     {"semanticId": "bad422"}),
    ("semid-constraint", [("semanticId", _sad({"type": "ModelReference", "keys": [{"type": "GlobalReference", "value": "x"}]}))],
     {"semanticId": "bad422"}),
    ("semid-array", [("semanticId", b64("[]"))], {"semanticId": "bad422"}),
    ("semid-null", [("semanticId", b64("null"))], {"semanticId": "bad422"}),
    ("semid-object", [("semanticId", _sad({"modelType": "Submodel", "id": "x"}))], {"semanticId": "bad422"}),
] + [(f"xmlbad-assetids-{cp:04x}", [("assetIds", "a" + chr(cp) + "b")], {"assetIds": ["bad400" if cp > 127 else "bad422"]})
     for cp in XML_ILLEGAL] \
  + [(f"xmlbad-semid-{cp:04x}", [("semanticId", "a" + chr(cp) + "b")], {"semanticId": "bad400" if cp > 127 else "bad422"})
     for cp in (0x01, 0xfffe, 0xffff)] \
  + [(f"xmlbad-limit-{cp:04x}", [("limit", "1" + chr(cp))], {}) for cp in (0x01, 0xffff)]

VALUES = [  # (label, abstract value)
    ("sm-new", {"k": "sm", "id": "urn:new:1", "ids": "New", "tok": 9, "quals": [("q2", 7)], "elems": [P("n1", 1)]}),
    ("sm-existing", {"k": "sm", "id": SM1, "ids": "Sm1", "tok": 9, "quals": [("q1", 8)],
                     "elems": [P("p1", 4), C("c1", [P("p2", 5), P("n4", 5)], tok=5)]}),
    ("shell-new", {"k": "shell", "id": "urn:new:2", "ids": "ShN", "tok": 3, "refs": [SM2]}),
    ("shell-existing", {"k": "shell", "id": AAS1, "ids": "Sh1", "tok": 3, "refs": [SM2]}),
    ("cd-new", {"k": "cd", "id": "urn:new:1", "ids": "CdN", "tok": 3}),
    ("cd-existing", {"k": "cd", "id": CD1, "ids": "Cd1", "tok": 4}),
    ("prop-new", dict(P("n1", 2), k="elem")), ("prop-existing", dict(P("p1", 9, [("q2", 3)]), k="elem")),
    ("prop-noid", dict(P(None, 2), k="elem")), ("coll-new", dict(C("n2", [P("x_9", 1)]), k="elem")),
    ("coll-existing", dict(C("c1", [P("p2", 7)], tok=7), k="elem")), ("range-noid", dict(R(None), k="elem")),
    ("file-new", dict(F("n3", None), k="elem")), ("file-f1", dict(F("f1", None, tok=9), k="elem")),
    ("list-l1", dict(L("l1", [P(None, 6), P(None, 7)]), k="elem")),
    ("qual-new", {"k": "qual", "type": "q2", "val": 2}), ("qual-existing", {"k": "qual", "type": "q1", "val": 3}),
    ("qual-odd", {"k": "qual", "type": QTYPES[2], "val": 4}),
    ("ref-new", {"k": "ref", "id": SM2}), ("ref-existing", {"k": "ref", "id": SM1}),
    ("ai", {"k": "ai", "tok": 5}),
    # replace bodies that re-type a stored list (other item class / value type / semanticIdListElement) or resize it
    ("list-l1-range", dict(L("l1", [R(None, 1), R(None, 2)], ctype=1), k="elem")),
    ("list-l1-semid", dict(L("l1", [P(None, 8)], ctype=2), k="elem")),
    ("list-l1-grown", dict(L("l1", [P(None, 5), P(None, 6), P(None, 7)]), k="elem")),
    ("list-l2-property", dict(L("l2", [P(None, 1)], ctype=0), k="elem")),
    ("sm-list-retyped", {"k": "sm", "id": SM1, "ids": "Sm1", "tok": 9, "quals": [],
                         "elems": [L("l1", [R(None, 1)], ctype=1), L("l2", [P(None, 2), P(None, 3)], ctype=2), P("p1", 3)]}),
    ("blob-b4-empty", dict(B("b4", 0), k="elem")), ("blob-new-empty", dict(B("n5", 0), k="elem")),
    # replace bodies in which a child keeps its idShort but changes its class
    ("sm-classchange", {"k": "sm", "id": SM1, "ids": "Sm1", "tok": 9, "quals": [],
                        "elems": [R("p1"), C("c1", [R("p2"), P("c2", 5)], tok=5), P("v1", 3), F("b1", None), B("f1", 1)]}),
    ("coll-classchange", dict(C("c1", [R("p2", 7), F("c2", "/aasx/x.txt")], tok=7), k="elem")),
    ("range-v1", dict(R("v1"), k="elem")),
    # sub-/superclass pairs for PUT over a stored element of the other class
    ("arel-r1", dict(AREL("r1", 9), k="elem")), ("rel-r2", dict(REL("r2", 9), k="elem")),
    ("rel-r1", dict(REL("r1", 9), k="elem")), ("arel-r2", dict(AREL("r2", 9), k="elem")),
]


def raw_bodies():
    sm = G.mk_obj(VALUES[0][1])
    smj = json.loads(G.to_json_bytes(sm))
    J, X = "application/json", "application/xml"
    out = [("missing", ("none",)),
           ("empty-json", ("raw", J, b"", "bad")), ("empty-xml", ("raw", X, b"", "bad")),
           ("trunc-json", ("raw", J, G.to_json_bytes(sm)[:-5], "bad")),
           ("trunc-xml", ("raw", X, G.to_xml_bytes(sm)[:-5], "bad")),
           ("nonutf8-json", ("raw", J, b'{"a":"\xff"}', "bad")),
           ("nonutf8-xml", ("raw", X, b'<?xml version="1.0" encoding="utf-8"?><a>\xff</a>', "bad")),
           ("json-as-xml", ("raw", X, G.to_json_bytes(sm), "bad")),
           ("xml-as-json", ("raw", J, G.to_xml_bytes(sm), "bad")),
           ("plain", ("raw", "text/plain", G.to_json_bytes(sm), "noctype")),
           ("form", ("raw", "application/x-www-form-urlencoded", b"a=b", "noctype")),
           ("multipart-garbage", ("raw", "multipart/form-data; boundary=x", b"--x\r\ngarbage", "noctype")),
           ("multipart-noboundary", ("raw", "multipart/form-data", b"--x\r\ngarbage", "noctype")),
           ("json-charset", ("raw", "application/json; charset=utf-8", b"[", "bad")),
           ("xml-wrong-ns", ("raw", X, b'<submodel xmlns="urn:x"><id>a</id></submodel>', "bad")),
           ("xml-entity", ("raw", X, b'<!DOCTYPE a [<!ENTITY e "x">]><a>&e;</a>', "bad")),
           ("surrogate-modeltype", ("raw", J, b'{"modelType":"\\ud800","id":"x"}', "bad")),
           ("surrogate-key", ("raw", J, b'{"\\udfff":1,"modelType":"Submodel"}', "bad")),
           ("surrogate-id", ("raw", J, b'{"modelType":"Submodel","id":"x\\ud800"}', "bad")),
           ("deep-json-100000", ("raw", J, b"[" * 100000, "bad")), ("deep-json-object", ("raw", J, b'{"a":' * 50000, "bad")),
           ("deep-xml", ("raw", X, b"<a>" * 20000, "bad"))]
    for lab, d in [("array", [smj]), ("empty-array", []), ("number", 5), ("null", None), ("string", "x"),
                   ("empty-object", {}), ("wrongtype-id", dict(smj, id=5)),
                   ("missing-id", {k: v for k, v in smj.items() if k != "id"}),
                   ("constraint-idshort", dict(smj, idShort="1 bad")), ("empty-id", dict(smj, id="")),
                   ("unknown-modeltype", dict(smj, modelType="Foo")), ("modeltype-int", dict(smj, modelType=5)),
                   ("elements-not-list", dict(smj, submodelElements={"a": 1})),
                   ("nested-bad", dict(smj, submodelElements=[{"modelType": "Property", "idShort": "p"}])),
                   ("dup-idshort", dict(smj, submodelElements=[smj["submodelElements"][0]] * 2)),
                   ("deep-json", json.loads("[" * 200 + "]" * 200))]:
        out.append((lab, ("raw", J, json.dumps(d).encode(), "bad")))
    return out


def defective_bodies():
    """documents of the right class whose top-level object is fine but which contain a defective part:
    {expected class: [(label, content type, bytes)]}"""
    J, X = "application/json", "application/xml"
    out = {}
    good = {"Submodel": VALUES[0][1], "AssetAdministrationShell": dict(VALUES[2][1], id=AAS1),
            "ConceptDescription": VALUES[5][1], "SubmodelElement": dict(C("c1", [P("p2", 7)], tok=7), k="elem")}
    bad_prop = {"modelType": "Property", "idShort": "zz9"}                       # valueType missing
    bad_op = {"modelType": "Operation", "idShort": "op9", "inputVariables": [{"value": bad_prop}]}
    for cls, a in good.items():
        d = json.loads(G.to_json_bytes(G.mk_obj(a)))
        variants = [("langstring", dict(d, description=[{"language": "en"}])),
                    ("langstring-tag", dict(d, description=[{"language": "not a tag!", "text": "x"}])),
                    ("displayname-type", dict(d, displayName=[5]))]
        if cls == "Submodel":
            variants += [("nested-element", dict(d, submodelElements=d["submodelElements"] + [bad_prop])),
                         ("operation-variable", dict(d, submodelElements=[bad_op])),
                         ("qualifier", dict(d, qualifiers=[{"type": "q"}]))]
        if cls == "SubmodelElement":
            variants += [("nested-element", dict(d, value=d["value"] + [bad_prop])),
                         ("operation-variable", dict(d, value=[bad_op])), ("qualifier", dict(d, qualifiers=[{"type": "q"}]))]
        if cls == "AssetAdministrationShell":
            variants += [("submodel-ref", dict(d, submodels=[{"type": "ModelReference", "keys": []}])),
                         ("asset-information", dict(d, assetInformation=dict(d["assetInformation"], specificAssetIds=[{"name": "n"}])))]
        out[cls] = [(f"defective-{lab}-json", J, json.dumps(v).encode()) for lab, v in variants]
        from lxml import etree
        root = etree.fromstring(G.to_xml_bytes(G.mk_obj(a)))
        for t in root.iter(G.NS + "text"):
            t.tag = G.NS + "txet"                      # a lang string without its mandatory text
            out[cls].append(("defective-langstring-xml", X, etree.tostring(root)))
            break
        if cls in ("Submodel", "SubmodelElement"):
            root = etree.fromstring(G.to_xml_bytes(G.mk_obj(a)))
            for p in root.iter(G.NS + "property"):
                vt = p.find(G.NS + "valueType")
                p.remove(vt)                           # a nested Property without its mandatory valueType
                break
            out[cls].append(("defective-nested-element-xml", X, etree.tostring(root)))
    return out


def base_request(rule, method="GET"):
    import re
    req = {"rule": rule, "method": method, "accept": (None, "json"), "query": [], "body": ("none",), "cls": "valid"}
    for name in re.findall(r"<(?:\w+:)?(\w+)>", rule):
        if name == "id_shorts":
            req["path"] = "p1"
        elif name == "path":
            req["tail"] = "submodel-elements"
        else:
            req[ARGN[name]] = b64(VALID[ARGN[name]])
    return req


CT_PARAMS = [("charset-bogus", "; charset=bogus"), ("charset-utf9", "; charset=utf-9"), ("charset-hex", "; charset=hex"),
             ("charset-base64", "; charset=base64"), ("charset-rot13", "; charset=rot13"), ("charset-empty", "; charset="),
             ("charset-quoted", '; charset="utf-8"'), ("charset-upper", "; CHARSET=UTF-8"), ("charset-latin1", "; charset=latin-1"),
             ("charset-utf16", "; charset=utf-16"), ("boundary", "; boundary=xyz"), ("extra", "; foo=bar; q=0.5"),
             ("semicolon-only", ";"), ("charset-twice", "; charset=utf-8; charset=bogus")]
LIST_EPS = {"get_aas_all", "get_aas_all_reference", "get_aas_submodel_refs", "get_submodel_all", "get_submodel_all_metadata",
            "get_submodel_all_reference", "get_submodel_submodel_elements", "get_submodel_submodel_elements_metadata",
            "get_submodel_submodel_elements_reference", "get_concept_description_all"}
VCLASS = {"shell": "AssetAdministrationShell", "sm": "Submodel", "cd": "ConceptDescription", "elem": "SubmodelElement",
          "qual": "Qualifier", "ref": "ModelReference", "ai": "AssetInformation"}


def matrix(routes, rng, full, expects=None):
    """the route x method x malformed-input matrix of C11's quantifier, one variation at a time
    around an all-valid baseline (plus, in the full tier, pairs).  routes: [(rule, methods, endpoint)]"""
    import re
    rules = []
    for (rule, ms, ep) in routes:
        if rule not in rules:
            rules.append(rule)
    allowed = {r: set() for r in rules}
    anym = set()
    for (rule, ms, ep) in routes:
        allowed[rule] |= set(ms)
        if not ms:
            anym.add(rule)
    RB = raw_bodies()
    DB = defective_bodies()
    ep_of0 = {(rule, m): ep for (rule, ms, ep) in routes for m in ms}
    out = []
    for rule in rules:
        names = re.findall(r"<(?:\w+:)?(\w+)>", rule)
        variants = [("valid", {})]
        for nm in names:
            if nm == "id_shorts":
                variants += [("path:" + lab, {"path": p}) for lab, p in PATHS]
            elif nm != "path":
                variants += [(f"{ARGN[nm]}:{lab}", {ARGN[nm]: v}) for lab, v in id_variants(ARGN[nm])]
        for vlab, ch in variants:
            for m in METHODS:
                routed = m in allowed[rule] or rule in anym or (m == "HEAD" and "GET" in allowed[rule])
                if not routed and vlab != "valid":
                    continue
                base = dict(base_request(rule, m), **ch)
                base["cls"] = vlab
                bodies = [("missing", ("none",))]
                if m in ("POST", "PUT") and routed:
                    if rule.endswith("/attachment"):
                        bodies = [("upload-ok", ("upload", "/aasx/up.txt", (0, 2))), ("upload-relname", ("upload", "up.txt", (0, 2))),
                                  ("upload-noname", ("upload", None, (0, 2))), ("upload-nofile", ("upload", "/aasx/up.txt", None)),
                                  ("upload-mime", ("upload", "/aasx/up.txt", (1, 2))), ("upload-samename", ("upload", "/aasx/x.txt", (0, 2))),
                                  ("upload-longname", ("upload", "/" + "a" * 2100, (0, 2))), ("upload-ctrlname", ("upload", "/a\x01b", (0, 2))),
                                  ("missing", ("none",)), RB[10], RB[11], RB[12]]
                    elif vlab == "valid" or vlab.startswith("path:") or full:
                        bodies = RB + [(f"{lab}-{fmt}", ("val", fmt, v)) for lab, v in VALUES for fmt in ("json", "xml", "textxml")]
                    else:
                        bodies = [RB[0], RB[3]] + [(f"{lab}-json", ("val", "json", v)) for lab, v in VALUES[::3]]
                for blab, body in bodies:
                    out.append(dict(base, body=body, cls=f"{vlab}|body:{blab}"))
                want0 = (expects or {}).get(ep_of0.get((rule, m)))
                if vlab == "valid" and want0 in DB:
                    # a defective part inside a document of the right class, at every level option
                    for blab, ct, data in DB[want0]:
                        for lev in (None, "core", "deep"):
                            if lev == "core" and any(t in blab for t in ("qualifier", "submodel-ref")) and m != "POST" or \
                                    (lev == "core" and ("qualifier" in blab or blab == "defective-nested-element-xml")):
                                continue        # qualifiers / submodel references are not part of the core level
                            out.append(dict(base, body=("raw", ct, data, "bad"), query=[("level", lev)] if lev else [],
                                            cls=f"valid|body:{blab}|level:{lev}"))
                if vlab == "valid" and want0 and routed and m in ("POST", "PUT"):
                    # a document of the expected class, sent with Content-Type parameters
                    good = [v for lab, v in VALUES if VCLASS[v["k"]] == want0][:1]
                    for v in good:
                        for fmt in ("json", "xml"):
                            for plab, params in CT_PARAMS:
                                out.append(dict(base, body=("val", fmt, v, params), cls=f"valid|body:{fmt}|ctparam:{plab}"))
                if vlab == "valid" and routed and m in ("GET", "POST"):
                    out.append(dict(base, host="a..b", cls="badhost"))
                    out.append(dict(base, host="a..b", accept=ACCEPTS[2], cls="badhost|accept:xml"))
                if routed and any(t in vlab for t in ("ctrlchar", "nonascii", "nonutf8", "xmlbad")):
                    for acc in ACCEPTS[2:4]:
                        out.append(dict(base, accept=acc, cls=f"{vlab}|accept:{acc[0]}"))
                if vlab == "valid" and m == "GET" and routed:
                    for qlab, q, ql in QUERIES:
                        out.append(dict(base, query=q, qlabels=ql, cls="query:" + qlab))
                        if qlab.startswith("xmlbad"):
                            for acc in ACCEPTS[2:4]:
                                out.append(dict(base, query=q, qlabels=ql, accept=acc, cls=f"query:{qlab}|accept:{acc[0]}"))
                    for acc in ACCEPTS:
                        out.append(dict(base, accept=acc, cls="accept:" + str(acc[0])))
                    for acc in ACCEPTS[2:4]:
                        out.append(dict(base, accept=acc, query=[("level", "core")], cls="accept+core:" + str(acc[0])))
    # what remains of the path below a shell's submodel is copied into the redirect
    for rule in rules:
        if rule.endswith("<path:path>"):
            for tlab, tail in [("cr", "a\rb"), ("lf", "a\nb"), ("nonascii", "ä/ö"), ("query-chars", "a b?x#y"), ("nul", "a\x00b"),
                               ("long", "x" * 3000), ("dots", "../.."), ("percent", "%41%zz")]:
                for m in ("GET", "POST", "DELETE"):
                    out.append(dict(base_request(rule, m), tail=tail, cls="redirect-tail:" + tlab))
    # unknown routes
    for rule in ["/nothing", "/shells/<base64url:aas_id>/nothing", "/submodels/<base64url:submodel_id>/submodel-elements/<id_short_path:id_shorts>/nothing"]:
        for m in METHODS:
            out.append(dict(base_request(rule, m), cls="unknown-route"))
    ep_of = {}
    for (rule, ms, ep) in routes:
        for m in ms:
            ep_of[(rule, m)] = ep
    for r in out:
        if r["rule"].endswith("submodel-refs") and r["method"] in ("GET", "HEAD"):
            r["sorted"] = True
            if any(k in ("limit", "cursor") for k, _ in r["query"]):
                r["oracle_only"] = "reference sets are listed in hash order"
        ep = ep_of.get((r["rule"], "GET" if r["method"] == "HEAD" else r["method"]))
        if r["method"] in ("GET", "HEAD") and ep in LIST_EPS and r.get("query"):
            import httpcorr as H
            bad = [k for k, v in r["query"] if k in ("limit", "cursor") and H.int_label(v)[0] in ("bad", "huge")]
            ql = r.get("qlabels", {})
            if ep in ("get_aas_all", "get_aas_all_reference"):
                bad += ["assetIds"] * sum(1 for l in ql.get("assetIds", []) if l != "ok")
            if ep.startswith("get_submodel_all") and ql.get("semanticId", "ok") != "ok":
                bad.append("semanticId")
            if bad:
                r["must_reject"] = "malformed query value (" + ", ".join(sorted(set(bad))) + ")"
        cls0 = r["cls"].split("|")[0]
        if cls0 in ("aas:unknown", "aas:wrongkind") and r["rule"].startswith("/shells/<base64url:aas_id>") or \
                cls0 in ("sm:unknown", "sm:wrongkind") and r["rule"].startswith("/submodels/<base64url:submodel_id>") or \
                cls0 in ("cd:unknown", "cd:wrongkind") and r["rule"].startswith("/concept-descriptions/<base64url:concept_id>"):
            if ep is not None and ep != "not_implemented":
                r["must_reject"] = "identifier of no resource of this collection"
        if r.get("path") == "r2" and r["method"] == "POST" and r["rule"].endswith("<id_short_path:id_shorts>"):
            r["oracle_only"] = "an AnnotatedRelationshipElement is a namespace (annotations), modelled as a leaf"
        b = r["body"]
        want = (expects or {}).get(ep_of.get((r["rule"], r["method"])))
        if want and b[0] == "val" and VCLASS[b[2]["k"]] != want:
            r["must_reject"] = "wrong-class body"
            if b[1] != "json":
                r["oracle_only"] = "the XML reader ignores the root tag"
        if want and b[0] == "raw" and b[3] == "bad":
            r["must_reject"] = "malformed body"
    return out


def renames(req):
    """does this request change an identifier by PUT (id of a top-level object / idShort of an element)?"""
    b = req["body"]
    if req["method"] != "PUT" or b[0] != "val":
        return False
    v = b[2]
    import httpcorr as H
    if v["k"] in ("sm", "shell", "cd"):
        raw = req.get({"sm": "sm", "shell": "aas", "cd": "cd"}[v["k"]])
        lab = H.decode_label(raw) if raw else ("bad",)
        return lab[0] == "ok" and lab[1] != v["id"]
    if v["k"] == "elem" and req.get("path"):
        return req["path"].split(".")[-1] != v["ids"]
    return False


def random_history(rng, pool, n, backed=False):
    """n requests sampled from the matrix pool; the store evolves (requests that were generated
    against the fixture now meet deleted, replaced and newly created resources)."""
    out = []
    while len(out) < n:
        r = rng.choice(pool)
        if r.get("oracle_only"):
            continue
        if backed and r["method"] == "POST" and r.get("path") == "l1":
            continue    # open finding on a local-file store that is outside the model (see scenarios())
        if backed and r["rule"] in ("/shells", "/submodels", "/concept-descriptions") and r["method"] in ("GET", "HEAD"):
            r = dict(r, query=[(k, v) for (k, v) in r["query"] if k not in ("limit", "cursor")])  # directory order
            r.pop("must_reject", None)
        out.append(r)
    return out


def tok_history(rng, n):
    """successive replacements of one submodel, of a Property, of a collection and of a nested Property in it, in which
    only `tok` (= all other attributes: description, semanticId, supplementalSemanticIds - httpgen.sem_class) of the
    target changes (for the collection: of itself or of its two children); the walk over tok visits every ordered pair of semantics classes (none / semanticId / semanticId + supplemental)
    on every target; each PUT followed by a read"""
    J = (None, "json")
    smid = "urn:toks"
    FMT = ["json", "json", "xml", "textxml"]
    ACC = [(None, "json"), ("application/json", "json"), ("application/xml", "xml"), ("text/xml", "textxml")]
    cur = {"sm": rng.randrange(1, 7), "p1": rng.randrange(1, 7), "c1": rng.randrange(1, 7), "c1.p0": rng.randrange(1, 7),
           "c1.p2": rng.randrange(1, 7), "l1": 3}
    def doc():
        return {"k": "sm", "id": smid, "ids": "Toks", "tok": cur["sm"], "quals": [],
                "elems": [P("p1", cur["p1"]), C("c1", [P("p0", cur["c1.p0"]), P("p2", cur["c1.p2"])], cur["c1"]),
                          L("l1", [P(None, cur["l1"]), P(None, cur["l1"] + 1)])]}
    one = "/submodels/<base64url:submodel_id>"
    el = one + "/submodel-elements/<id_short_path:id_shorts>"
    out = [{"rule": "/submodels", "method": "POST", "accept": J, "query": [], "cls": "post-sm", "body": ("val", rng.choice(FMT), doc())},
           {"rule": "/shells", "method": "POST", "accept": J, "query": [], "cls": "post-shell",
            "body": ("val", "json", {"k": "shell", "id": "urn:toks:aas", "ids": "A", "tok": 1, "refs": [smid]})}]
    while len(out) < n:
        target = rng.choice(["sm", "sm-via-shell", "p1", "c1", "c1.p2", "c1-child", "c1-child", "l1"])
        fmt = rng.choice(FMT)
        key = {"sm-via-shell": "sm", "c1-child": "c1.p2"}.get(target, target)
        cur[key] = rng.randrange(1, 7)
        if target == "c1-child":        # two children change: the first one is taken over before the second one is looked at
            cur["c1.p0"] = rng.randrange(1, 7)
        if target == "sm":
            out.append({"rule": one, "method": "PUT", "accept": J, "query": [], "cls": "put-sm-tok", "sm": b64(smid), "body": ("val", fmt, doc())})
        elif target == "sm-via-shell":
            out.append({"rule": "/shells/<base64url:aas_id>/submodels/<base64url:submodel_id>", "method": "PUT", "accept": J, "query": [],
                        "cls": "put-via-shell-tok", "aas": b64("urn:toks:aas"), "sm": b64(smid), "body": ("val", fmt, doc())})
        else:
            path = {"c1-child": "c1"}.get(target, target)
            e = [x for x in doc()["elems"] if x["ids"] == path.split(".")[0]][0]
            if path == "c1.p2":
                e = e["children"][1]
            out.append({"rule": el, "method": "PUT", "accept": J, "query": [], "cls": "put-elem-tok", "sm": b64(smid), "path": path,
                        "body": ("val", fmt, dict(e, k="elem"))})
        out.append({"rule": one, "method": "GET", "accept": rng.choice(ACC), "query": [], "cls": "get-sm", "sm": b64(smid), "body": ("none",)})
    return out


def scenarios():
    """directed histories (repaired and open findings, refusals that must change nothing):
    (label, backed, requests, oracle_only)"""
    J = (None, "json")
    def rq(rule, method, body=("none",), **kw):
        return dict({"rule": rule, "method": method, "accept": J, "query": [], "body": body, "cls": kw.pop("cls", "scenario")}, **kw)
    out = []
    for k, rule, arg, mk in [("sm", "/submodels", "sm", lambda i: {"k": "sm", "id": i, "ids": "S", "tok": 1, "quals": [], "elems": []}),
                             ("shell", "/shells", "aas", lambda i: {"k": "shell", "id": i, "ids": "S", "tok": 1, "refs": []}),
                             ("cd", "/concept-descriptions", "cd", lambda i: {"k": "cd", "id": i, "ids": "S", "tok": 1})]:
        conv = {"sm": "submodel_id", "aas": "aas_id", "cd": "concept_id"}[arg]
        one = f"{rule}/<base64url:{conv}>"
        for backed in (False, True):
            # a PUT that changes the id files the object anew; the id of another object is refused (409, nothing changed)
            reqs = [rq(rule, "POST", ("val", "json", mk("urn:a"))),
                    rq(rule, "POST", ("val", "json", dict(mk("urn:c"), tok=3))),
                    rq(one, "PUT", ("val", "json", mk("urn:b")), cls="put-other-id", **{arg: b64("urn:a")}),
                    rq(one, "GET", **{arg: b64("urn:a")}),
                    rq(one, "GET", **{arg: b64("urn:b")}),
                    rq(rule, "GET"),
                    rq(one, "DELETE", **{arg: b64("urn:a")}),
                    rq(one, "PUT", ("val", "xml", dict(mk("urn:c"), tok=2)), cls="put-taken-id", **{arg: b64("urn:b")}),
                    rq(one, "GET", **{arg: b64("urn:b")}),
                    rq(one, "GET", **{arg: b64("urn:c")}),
                    rq(one, "PUT", ("val", "json", dict(mk("urn:a"), tok=4)), cls="put-other-id", **{arg: b64("urn:b")}),
                    rq(one, "GET", **{arg: b64("urn:a")}),
                    rq(one, "DELETE", **{arg: b64("urn:b")}),
                    rq(one, "DELETE", **{arg: b64("urn:a")}),
                    rq(rule, "GET")]
            out.append((f"rename-{k}-{'file' if backed else 'mem'}", backed, reqs, False))
    # PUT of a qualifier onto the type of another qualifier of the same object: 409 and nothing changed
    smone = "/submodels/<base64url:submodel_id>"
    for where, path in (("sm", None), ("elem", "p1")):
        sm = {"k": "sm", "id": "urn:a", "ids": "S", "tok": 1, "quals": [("q1", 1), ("q2", 2)],
              "elems": [P("p1", 1, [("q1", 3), ("q2", 4)])]}
        base = smone + ("/submodel-elements/<id_short_path:id_shorts>" if path else "") + "/qualifiers"
        kw = {"sm": b64("urn:a")}
        if path:
            kw["path"] = path
        reqs = [rq("/submodels", "POST", ("val", "json", sm)),
                rq(base + "/<base64url:qualifier_type>", "PUT", ("val", "json", {"k": "qual", "type": "q2", "val": 9}),
                   qt=b64("q1"), cls="qualifier-type-conflict", **kw),
                rq(base + "/<base64url:qualifier_type>", "GET", qt=b64("q1"), **kw),
                rq(base, "GET", **kw),
                rq(base + "/<base64url:qualifier_type>", "PUT", ("val", "xml", {"k": "qual", "type": "q1", "val": 7}),
                   qt=b64("q2"), cls="qualifier-type-conflict", **kw),
                rq(base, "GET", **kw)]
        for backed in (False, True):
            out.append((f"qualifier-conflict-{where}-{'file' if backed else 'mem'}", backed, [dict(r) for r in reqs], False))
    # two File elements uploading different bytes under the same file name
    att = smone + "/submodel-elements/<id_short_path:id_shorts>/attachment"
    sm = {"k": "sm", "id": "urn:a", "ids": "S", "tok": 1, "quals": [], "elems": [F("f1", None), F("f2", None), F("f3", None)]}
    reqs = [rq("/submodels", "POST", ("val", "json", sm)),
            rq(att, "PUT", ("upload", "/aasx/same.txt", (0, 1)), sm=b64("urn:a"), path="f1", cls="same-file-name"),
            rq(att, "PUT", ("upload", "/aasx/same.txt", (0, 2)), sm=b64("urn:a"), path="f2", cls="same-file-name"),
            rq(att, "GET", sm=b64("urn:a"), path="f1"), rq(att, "GET", sm=b64("urn:a"), path="f2"),
            rq(att, "DELETE", sm=b64("urn:a"), path="f1"),
            rq(att, "GET", sm=b64("urn:a"), path="f2"), rq(att, "GET", sm=b64("urn:a"), path="f1"),
            rq(smone + "/submodel-elements/<id_short_path:id_shorts>", "GET", sm=b64("urn:a"), path="f2")]
    for backed in (False, True):
        out.append((f"same-file-name-{'file' if backed else 'mem'}", backed, [dict(r) for r in reqs], False))
    # PUT of an element of a sub-/superclass of the stored element's class: 400 and nothing changed
    el = smone + "/submodel-elements/<id_short_path:id_shorts>"
    sm = {"k": "sm", "id": "urn:a", "ids": "S", "tok": 1, "quals": [], "elems": [REL("r1"), AREL("r2"), P("p1")]}
    reqs = [rq("/submodels", "POST", ("val", "json", sm)),
            rq(el, "PUT", ("val", "json", dict(AREL("r1", 9), k="elem")), sm=b64("urn:a"), path="r1", cls="put-subclass"),
            rq(el, "GET", sm=b64("urn:a"), path="r1"),
            rq(el, "PUT", ("val", "xml", dict(REL("r2", 9), k="elem")), sm=b64("urn:a"), path="r2", cls="put-superclass"),
            rq(el, "GET", sm=b64("urn:a"), path="r2"),
            rq(el, "PUT", ("val", "json", dict(REL("r1", 7), k="elem")), sm=b64("urn:a"), path="r1", cls="put-same-class"),
            rq(el, "GET", sm=b64("urn:a"), path="r1")]
    for backed in (False, True):
        out.append((f"put-subclass-{'file' if backed else 'mem'}", backed, [dict(r) for r in reqs], False))
    # a file name of maximal length that is taken by another file: add_file() appends a counter
    long_name = "/" + "a" * 1999
    sm = {"k": "sm", "id": "urn:a", "ids": "S", "tok": 1, "quals": [], "elems": [F("f1", None), F("f2", None), F("f3", None)]}
    reqs = [rq("/submodels", "POST", ("val", "json", sm)),
            rq(att, "PUT", ("upload", long_name, (0, 1)), sm=b64("urn:a"), path="f1", cls="max-length-file-name"),
            rq(att, "PUT", ("upload", long_name, (0, 2)), sm=b64("urn:a"), path="f2", cls="max-length-file-name-taken"),
            rq(att, "GET", sm=b64("urn:a"), path="f2"),
            rq(att, "PUT", ("upload", long_name, (0, 1)), sm=b64("urn:a"), path="f3", cls="max-length-file-name-same-content"),
            rq(att, "GET", sm=b64("urn:a"), path="f3")]
    for backed in (False, True):
        out.append((f"max-length-file-name-{'file' if backed else 'mem'}", backed, [dict(r) for r in reqs], False))
    # a SubmodelElementCollection nested ~495 levels deep: decoded and stored, but the encoder's recursion fails
    deep = {"modelType": "SubmodelElementCollection", "idShort": "d0"}
    for lvl in range(495):
        deep = {"modelType": "SubmodelElementCollection", "idShort": f"d{lvl + 1}", "value": [deep]}
    sm = {"k": "sm", "id": "urn:a", "ids": "S", "tok": 1, "quals": [], "elems": []}
    reqs = [rq("/submodels", "POST", ("val", "json", sm)),
            rq(smone + "/submodel-elements", "POST", ("raw", "application/json", json.dumps(deep).encode(), "bad"),
               sm=b64("urn:a"), sig="deeply-nested-collection"),
            rq(smone, "GET", sm=b64("urn:a"), sig="deeply-nested-collection")]
    out.append(("deeply-nested-collection", False, reqs, True))
    # POST of an item into a SubmodelElementList on a backed store (TypeError while building the Location)
    sm = {"k": "sm", "id": "urn:a", "ids": "S", "tok": 1, "quals": [], "elems": [L("l1", [])]}
    reqs = [rq("/submodels", "POST", ("val", "json", sm)),
            rq("/submodels/<base64url:submodel_id>/submodel-elements/<id_short_path:id_shorts>", "POST",
               ("val", "json", dict(P(None, 2), k="elem")), sm=b64("urn:a"), path="l1", sig="post-into-list:local-file")]
    out.append(("post-into-list-file", True, reqs, True))
    return out


def big_listing(n=130):
    """a store with n concept descriptions and a submodel with n elements + requests paging through both
    with limits below, equal to and above 100 and the listing size (for _get_slice)"""
    objs = [{"k": "cd", "id": f"urn:cd:{i:03d}", "ids": None, "tok": i % 7} for i in range(n)]
    objs.append({"k": "sm", "id": "urn:big", "ids": "Big", "tok": 1, "quals": [],
                 "elems": [P(f"e{i:03d}", i % 5) for i in range(n)]})
    reqs = []
    for rule, kw in (("/concept-descriptions", {}), ("/submodels/<base64url:submodel_id>/submodel-elements", {"sm": b64("urn:big")})):
        for lim in (1, 7, 50, 99, 100, 101, 120, n - 1, n, n + 1, 200, 1000):
            cur = 0
            pages = 0
            while pages < 4:
                reqs.append(dict({"rule": rule, "method": "GET", "accept": (None, "json"), "body": ("none",), "cls": "paging",
                                  "query": [("limit", str(lim)), ("cursor", str(cur))]}, **kw))
                cur += lim
                pages += 1
                if cur > n + lim:
                    break
    return objs, reqs


def query_combinations(routes, expects=None):
    """malformed query values combined with filters that may keep the server from ever looking at them: another
    filter that matches nothing, limit=0, a cursor beyond the listing, an earlier well-formed value that matches
    nothing.  Meant to be run against an EMPTY store as well as against the fixture."""
    out = []
    shield = [[], [("idShort", "nope")], [("limit", "0")], [("cursor", "50")], [("limit", "0"), ("cursor", "3")]]
    ok_aid = _sad({"name": "n", "value": "v"})
    for (rule, ms, ep) in routes:
        if "GET" not in ms or ep not in LIST_EPS:
            continue
        base = base_request(rule, "GET")
        for qlab, q, ql in QUERIES:
            bad_label = any(l != "ok" for l in ql.get("assetIds", [])) or ql.get("semanticId", "ok") != "ok"
            if not (bad_label or qlab.startswith(("limit-", "cursor-", "xmlbad-limit"))):
                continue
            for sh in shield:
                if any(k in dict(q) for k, _ in sh):
                    continue
                out.append(dict(base, query=sh + q, qlabels=ql, cls=f"query:{qlab}|with:{'+'.join(k for k, _ in sh) or 'nothing'}"))
            if "assetIds" in ql:
                out.append(dict(base, query=[("assetIds", ok_aid)] + q, qlabels={"assetIds": ["ok"] + ql["assetIds"]},
                                cls=f"query:{qlab}|after-valid-assetIds"))
    # label the ones that must be rejected with the same rule as the matrix
    ep_of = {(rule, m): ep for (rule, ms, ep) in routes for m in ms}
    import httpcorr as H
    for r in out:
        ep = ep_of.get((r["rule"], "GET"))
        bad = [k for k, v in r["query"] if k in ("limit", "cursor") and H.int_label(v)[0] in ("bad", "huge")]
        ql = r.get("qlabels", {})
        if ep in ("get_aas_all", "get_aas_all_reference"):
            bad += ["assetIds"] * sum(1 for l in ql.get("assetIds", []) if l != "ok")
        if ep.startswith("get_submodel_all") and ql.get("semanticId", "ok") != "ok":
            bad.append("semanticId")
        if bad:
            r["must_reject"] = "malformed query value (" + ", ".join(sorted(set(bad))) + ")"
        if r["rule"].endswith("submodel-refs"):
            r["sorted"] = True
            r["oracle_only"] = "reference sets are listed in hash order"
    return out


def repeat_after_write():
    """creating requests, each followed (by run_history(repeat_created=True)) by the identical request: same URL
    string, same application object.  Every parent path string is used here for the first time in the process
    (c3..c6 occur nowhere else), with a collection resp. a leaf as the first child created below it."""
    el = "/submodels/<base64url:submodel_id>/submodel-elements/<id_short_path:id_shorts>"
    mk = lambda path, body, cls: {"rule": el, "method": "POST", "accept": (None, "json"), "query": [], "sm": b64(SM1),
                                  "path": path, "body": ("val", "json", body), "cls": cls}
    get = lambda path: {"rule": el, "method": "GET", "accept": (None, "json"), "query": [], "sm": b64(SM1), "path": path,
                        "body": ("none",), "cls": "read-after-write"}
    coll = dict(C("n2", [P("x_9", 1)]), k="elem")
    prop = dict(P("n1", 2), k="elem")
    return [mk("c3", coll, "create-collection-child"), get("c3"), mk("c3", prop, "create-leaf-child"), get("c3.n2"),
            mk("c5", prop, "create-leaf-child"), get("c5"), mk("c5", coll, "create-collection-child"),
            mk("c3.n2", dict(C("n2", []), k="elem"), "create-collection-child"), get("c3.n2.n2")]
