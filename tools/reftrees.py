"""Shared by tools/c07.py and tools/c17.py: seeded generator of abstract Referable trees over every
container kind, construction of the corresponding SDK objects through the public constructors, and
printing of the trees as Coq terms of model/Refs.v (class = index into the generated all_cls)."""
from common import coq_str, coq_list

LEAVES = ["Property", "MultiLanguageProperty", "Range", "Blob", "File", "ReferenceElement",
          "RelationshipElement", "Capability", "BasicEventElement"]
DATA_ELEMENTS = ["Property", "MultiLanguageProperty", "Range", "Blob", "File", "ReferenceElement"]
CONTAINERS = ["SubmodelElementCollection", "SubmodelElementList", "Entity", "Operation",
              "AnnotatedRelationshipElement"]
ROOTS = ["Submodel", "AssetAdministrationShell", "ConceptDescription"]
ID_SHORTS = ["a", "b", "c", "A", "x1", "p_2", "l0", "B"]
BASE_IDS = ["urn:a", "urn:b", "urn:c", "urn:d"]
# identifiers with leading / trailing white space are valid Identifiers and differ from their trimmed twins
WS_IDS = ["urn:a ", " urn:a", "urn:b\t", "\nurn:c", "urn:c\n", "\u00a0urn:d", "urn:d\u00a0 ", "  urn:b  "]
IDS = BASE_IDS + WS_IDS
LONG_LIST = [11, 12, 21, 23]          # list lengths whose last positions contain a 0 after the first digit (10, 20)
LONG_LIST_THOROUGH = [101, 111]
long_lists = {"p": 0.05, "thorough": False}       # set by the harness


def node(c, k=None, ch=(), id_="", src="", sets=None):
    return {"c": c, "k": k, "ch": list(ch), "id": id_, "src": src, "sets": sets}


CATEGORIES = ["CONSTANT", "PARAMETER", "VARIABLE"]
vary_attrs = {"p": 0.5}          # share of nodes that get further Referable attributes (set by the harness)


def gen_attrs(rng, n, in_list=False):
    """Other attributes of a Referable that reference construction / resolution / backend dispatch must NOT depend
    on: category, display_name, description, semantic_id, qualifier, extension, kind, order_relevant."""
    a = {}
    if n["c"] == "SubmodelElementList" and rng.random() < .5:
        a["order_relevant"] = False
    if rng.random() < vary_attrs["p"]:
        if rng.random() < .6:
            a["category"] = rng.choice(CATEGORIES)
        if rng.random() < .3:
            a["display_name"] = rng.choice(["name", "CONSTANT"])
        if rng.random() < .3:
            a["description"] = rng.choice(["text", ""]) or "d"
        if n["c"] not in ("AssetAdministrationShell", "ConceptDescription"):
            if not in_list and rng.random() < .25:
                a["semantic_id"] = rng.choice(["urn:sem:1", "urn:sem:2"])
            if rng.random() < .2:
                a["qualifier"] = rng.choice(["q1", "CONSTANT"])
        if rng.random() < .2:
            a["extension"] = rng.choice(["e1", "order_relevant"])
        if n["c"] == "Submodel" and rng.random() < .3:
            a["kind"] = "TEMPLATE"
    if a:
        n["attrs"] = a
    return n


def gen_elem(rng, depth, key, force=None, stats=None):
    """one submodel element with id_short `key` (None inside a list)"""
    if force is not None:
        c = force
    elif depth <= 0 or rng.random() < 0.35:
        c = rng.choice(LEAVES)
    else:
        c = rng.choice(CONTAINERS)
    if stats is not None:
        stats[c] = stats.get(c, 0) + 1
    if c in LEAVES:
        return gen_attrs(rng, node(c, key), key is None)
    width = rng.randint(0, 3)
    if c == "SubmodelElementList":
        et = rng.choice(LEAVES + CONTAINERS) if depth > 1 else rng.choice(LEAVES)
        if rng.random() < long_lists["p"]:
            et = rng.choice(LEAVES)
            width = rng.choice(LONG_LIST + (LONG_LIST_THOROUGH if long_lists["thorough"] and rng.random() < .3 else []))
        n = node(c, key, [gen_elem(rng, depth - 1, None, force=et, stats=stats) for _ in range(width)])
        n["elem"] = et
        return gen_attrs(rng, n, key is None)
    names = rng.sample(ID_SHORTS, width)
    if c == "AnnotatedRelationshipElement":
        return gen_attrs(rng, node(c, key, [gen_elem(rng, 0, nm, force=rng.choice(DATA_ELEMENTS), stats=stats) for nm in names]),
                         key is None)
    ch = [gen_elem(rng, depth - 1, nm, stats=stats) for nm in names]
    if c == "Operation":
        a = rng.randint(0, len(ch))
        b = rng.randint(a, len(ch))
        return gen_attrs(rng, node(c, key, ch, sets=[a, b - a, len(ch) - b]), key is None)
    return gen_attrs(rng, node(c, key, ch), key is None)


def gen_root(rng, depth, id_, stats=None):
    r = rng.random()
    key = rng.choice([None, "sm", "a", "Root"])
    if r < 0.08:
        return gen_attrs(rng, node("AssetAdministrationShell", key, id_=id_))
    if r < 0.16:
        return gen_attrs(rng, node("ConceptDescription", key, id_=id_))
    names = rng.sample(ID_SHORTS, rng.randint(0, 3))
    return gen_attrs(rng, node("Submodel", key, [gen_elem(rng, depth - 1, nm, stats=stats) for nm in names], id_=id_))


def gen_provider(rng, depth, nstores, stats=None):
    """list of stores; ids are unique inside a store and may repeat across stores"""
    prov = []
    for _ in range(nstores):
        ids = rng.sample(BASE_IDS if rng.random() < .5 else IDS, rng.randint(0 if nstores > 1 else 1, 3))
        if rng.random() < .3:
            # an identifier with surrounding white space next to its trimmed twin (same store or another one)
            w = rng.choice(WS_IDS)
            for i in (w, w.strip()):
                if i not in ids and rng.random() < .8:
                    ids.append(i)
            rng.shuffle(ids)
        prov.append([gen_root(rng, depth, i, stats=stats) for i in ids])
    return prov


def walk(t, p=()):
    """(path, node, parent) for every node, pre-order"""
    res = []

    def go(n, p, par):
        res.append((p, n, par))
        for i, c in enumerate(n["ch"]):
            go(c, p + [i], n)
    go(t, list(p), None)
    return res


def size(t):
    return 1 + sum(size(c) for c in t["ch"])


def height(t):
    return 1 + max([height(c) for c in t["ch"]] or [0])


# ------------------------------------------------------------------ SDK objects

def build(t, registry=None, pos=(), attach=False):
    """Construct the SDK object for the abstract tree through the public constructors.
    registry: dict id(obj) -> (position tuple, obj).  attach: remember the object in the node as t["_o"]."""
    from basyx.aas import model
    c, k = t["c"], t["k"]
    ch = [build(x, registry, pos + (i,), attach) for i, x in enumerate(t["ch"])]
    ext = model.ExternalReference((model.Key(model.KeyTypes.GLOBAL_REFERENCE, "urn:ext"),))
    if c == "Submodel":
        o = model.Submodel(t["id"], submodel_element=ch, id_short=k)
    elif c == "AssetAdministrationShell":
        o = model.AssetAdministrationShell(model.AssetInformation(global_asset_id="urn:asset"), t["id"], id_short=k)
    elif c == "ConceptDescription":
        o = model.ConceptDescription(t["id"], id_short=k)
    elif c == "Property":
        o = model.Property(k, model.datatypes.Int)
    elif c == "MultiLanguageProperty":
        o = model.MultiLanguageProperty(k)
    elif c == "Range":
        o = model.Range(k, model.datatypes.Int)
    elif c == "Blob":
        o = model.Blob(k, "application/octet-stream")
    elif c == "File":
        o = model.File(k, "text/plain")
    elif c == "ReferenceElement":
        o = model.ReferenceElement(k)
    elif c == "RelationshipElement":
        o = model.RelationshipElement(k, ext, ext)
    elif c == "Capability":
        o = model.Capability(k)
    elif c == "BasicEventElement":
        o = model.BasicEventElement(k, model.ModelReference((model.Key(model.KeyTypes.SUBMODEL, "urn:obs"),), model.Submodel),
                                    model.Direction.OUTPUT, model.StateOfEvent.ON)
    elif c == "SubmodelElementCollection":
        o = model.SubmodelElementCollection(k, value=ch)
    elif c == "SubmodelElementList":
        et = getattr(model, t["elem"])
        o = model.SubmodelElementList(k, et, value=ch, order_relevant=(t.get("attrs") or {}).get("order_relevant", True),
                                      value_type_list_element=model.datatypes.Int if et in (model.Property, model.Range) else None)
    elif c == "Entity":
        o = model.Entity(k, model.EntityType.CO_MANAGED_ENTITY, statement=ch)
    elif c == "Operation":
        a, b, _ = t["sets"]
        o = model.Operation(k, input_variable=ch[:a], output_variable=ch[a:a + b], in_output_variable=ch[a + b:])
    elif c == "AnnotatedRelationshipElement":
        o = model.AnnotatedRelationshipElement(k, ext, ext, annotation=ch)
    else:
        raise ValueError(f"reftrees.build: class {c} unknown to the harness")
    if t.get("src"):
        o.source = t["src"]
    a = t.get("attrs") or {}
    if "category" in a:
        o.category = a["category"]
    if "display_name" in a:
        o.display_name = model.MultiLanguageNameType({"en": a["display_name"]})
    if "description" in a:
        o.description = model.MultiLanguageTextType({"en": a["description"]})
    if "semantic_id" in a:
        o.semantic_id = model.ExternalReference((model.Key(model.KeyTypes.GLOBAL_REFERENCE, a["semantic_id"]),))
    if "qualifier" in a:
        o.qualifier.add(model.Qualifier(a["qualifier"], model.datatypes.String))
    if "extension" in a:
        o.extension.add(model.Extension(a["extension"]))
    if a.get("kind") == "TEMPLATE":
        o.kind = model.ModellingKind.TEMPLATE
    if registry is not None:
        registry[id(o)] = (pos, o)
    if attach:
        t["_o"] = o
    return o


def clean(x):
    """abstract trees / providers without the attached SDK objects (for replays and evidence)"""
    if isinstance(x, dict):
        return {k: clean(v) for k, v in x.items() if k != "_o"}
    if isinstance(x, (list, tuple)):
        return [clean(v) for v in x]
    return x


# ------------------------------------------------------------------ Coq terms

def coq_str_any(s):
    """Coq string for any str: printable ASCII as a literal, every other byte of the UTF-8 encoding by its code"""
    if all(32 <= ord(c) < 127 for c in s):
        return coq_str(s)
    parts, run = [], ""
    for b in s.encode("utf-8"):
        if 32 <= b < 127:
            run += chr(b)
        else:
            if run:
                parts.append(coq_str(run))
                run = ""
            parts.append(f'(String (Ascii.ascii_of_nat {b}) "")')
    if run:
        parts.append(coq_str(run))
    return "(" + " ++ ".join(parts) + ")"


def enc_utf8(s):
    return list(s.encode("utf-8"))


def coq_tree(t, cls_index, with_src=False):
    ch = coq_list(coq_tree(c, cls_index, with_src) for c in t["ch"])
    k = coq_str(t["k"] or "")
    if with_src:
        return f"(ns {cls_index[t['c']]} {coq_str_any(t['id'])} {k} {coq_str(t['src'])} {ch})"
    if t["id"]:
        return f"(rt {cls_index[t['c']]} {coq_str_any(t['id'])} {k} {ch})"
    return f"(nd {cls_index[t['c']]} {k} {ch})"


def coq_path(p):
    return coq_list(f"{i}%nat" for i in p)
