"""C02, fragment 5: typed values (AASd-020, value / value_type agreement) - tie between model/TypedValue.v (+ the generated
gen/Gen_TypedValues.v) and datatypes.trivial_cast / the value and value_type setters of Property, Qualifier, Extension, Range.

  * class table: issubclass over the interpreter's classes  vs  the generated single-inheritance table (subcls)
  * trivial_cast: every value of the pool against every XSD type: outcome (identity / new class / TypeError / ValueError),
    class, integer payload, string length and payload identity of the result
  * holders: constructor + setter histories (value, value_type incl. None for Extension; min/max/value_type for Range)
The independent oracle for these classes is c02_small.frag_values (it judges the SDK alone); a disagreement found here is
handed to the same oracle predicate (`consistent`) before anything is reported as a failing input."""
import datetime
import decimal
import itertools
import math

import common
from common import coq_z

PRELUDE = ("From Coq Require Import List ZArith Bool.\n"
           "From Basyx Require Import model.Corr model.ConstraintsBase model.TypedBase gen.Gen_TypedValues model.TypedValue "
           "model.TypedValueObs.\n")

NAMES = ["Duration", "DateTime", "Date", "Time", "GYearMonth", "GYear", "GMonthDay", "GMonth", "GDay", "Boolean",
         "Base64Binary", "HexBinary", "Float", "Double", "Decimal", "Integer", "Long", "Int", "Short", "Byte",
         "NonPositiveInteger", "NegativeInteger", "NonNegativeInteger", "PositiveInteger", "UnsignedLong", "UnsignedInt",
         "UnsignedShort", "UnsignedByte", "AnyURI", "String", "NormalizedString"]        # = TypedBase.all_pcls, first 31
N_XSD = len(NAMES)
K_PYDATE, K_BYTES, K_BYTEARRAY, K_OTHER = 31, 32, 33, 34


def classes():
    from basyx.aas.model import datatypes as dt
    cl = [getattr(dt, n) for n in NAMES] + [datetime.date, bytes, bytearray]
    return cl


def cls_code(v, cl=None):
    cl = cl or classes()
    t = type(v)
    for i, c in enumerate(cl):
        if t is c:
            return i
    return K_OTHER


def pool():
    """values: every class of the universe, the integer range edges, strings with/without forbidden characters,
    present-but-falsy values"""
    from basyx.aas.model import datatypes as dt
    import dateutil.relativedelta as rd
    utc = datetime.timezone.utc
    ints = [0, 1, -1, 5, 127, 128, -128, -129, 255, 256, 32767, 32768, -32768, -32769, 65535, 65536, 2 ** 31 - 1, 2 ** 31,
            -2 ** 31, -2 ** 31 - 1, 2 ** 32 - 1, 2 ** 32, 2 ** 63 - 1, 2 ** 63, -2 ** 63, -2 ** 63 - 1, 2 ** 64 - 1, 2 ** 64, 10 ** 30]
    vals = list(ints)
    vals += [dt.Long(5), dt.Long(2 ** 40), dt.Int(5), dt.Int(-2 ** 31), dt.Short(300), dt.Byte(-1), dt.Byte(127),
             dt.NonPositiveInteger(0), dt.NonPositiveInteger(-7), dt.NegativeInteger(-1), dt.NonNegativeInteger(0),
             dt.NonNegativeInteger(2 ** 70), dt.PositiveInteger(1), dt.UnsignedLong(2 ** 64 - 1), dt.UnsignedInt(7),
             dt.UnsignedShort(65535), dt.UnsignedByte(200), dt.UnsignedByte(0)]
    vals += [True, False]
    vals += [3.5, 0.0, float("nan"), float("inf"), 5.0, dt.Float(1.5), dt.Float(0.0)]
    vals += ["s", "", "a\nb", "a\tb", "a\rb", "s\n", " x ", dt.AnyURI("urn:x"), dt.AnyURI(""), dt.AnyURI("a\nb"),
             dt.NormalizedString("n"), dt.NormalizedString("")]
    vals += [b"ab", b"", bytearray(b"cd"), bytearray(), dt.Base64Binary(b"x"), dt.Base64Binary(b""), dt.HexBinary(b"\x00")]
    vals += [datetime.date(2020, 1, 2), dt.Date(2020, 1, 2), dt.Date(2020, 1, 2, utc),
             datetime.datetime(2020, 1, 2, 3, 4, tzinfo=utc), datetime.datetime(2020, 1, 2), datetime.time(1, 2, 3),
             datetime.time(0, 0), rd.relativedelta(days=1), rd.relativedelta(), decimal.Decimal("1.5"), decimal.Decimal(0),
             decimal.Decimal(5), dt.GYear(2000), dt.GYearMonth(2000, 1), dt.GMonthDay(2, 29), dt.GMonth(3), dt.GDay(4)]
    vals += [[1], (1,), {"a": 1}, 1j]
    return vals


def payload_equal(a, b):
    if isinstance(a, float) and isinstance(b, float):
        return (math.isnan(a) and math.isnan(b)) or (a == b and math.copysign(1, a) == math.copysign(1, b))
    if isinstance(a, (bytes, bytearray)) and isinstance(b, (bytes, bytearray)):
        return bytes(a) == bytes(b)
    if isinstance(a, datetime.date) and isinstance(b, datetime.date) and not isinstance(a, datetime.datetime) \
            and not isinstance(b, datetime.datetime):
        return (a.year, a.month, a.day) == (b.year, b.month, b.day)
    try:
        return bool(a == b) and (isinstance(a, bool) == isinstance(b, bool) or not isinstance(a, (bool, int)))
    except Exception:  # noqa
        return False


class Pool:
    def __init__(self):
        self.cl = classes()
        self.vals = pool()
        # canonical token of a payload: the first pool index carrying an equal payload (5, Int(5), 5.0 share one token; the
        # class and the integer payload are observed separately), so that the token does not depend on which of two equal
        # inputs a result is compared with
        self.canon = []
        for i, v in enumerate(self.vals):
            self.canon.append(next(j for j in range(i + 1) if self.vals[j] is v or payload_equal(self.vals[j], v)))

    def enc(self, v, tok):
        """[class code, integer payload, number of characters, token]"""
        if v is None:
            return [-1]
        return [cls_code(v, self.cl), int(v) if isinstance(v, int) else 0, len(v) if isinstance(v, str) else 0, tok]

    def tok_of(self, r, candidates):
        """token of the result: the token of the (first) input value whose payload it carries"""
        for i in candidates:
            if r is self.vals[i] or payload_equal(r, self.vals[i]):
                return self.canon[i]
        return -7

    def coq_val(self, i):
        if i is None:
            return "None"
        v = self.vals[i]
        s = "[" + "; ".join(str(ord(c)) for c in v) + "]" if isinstance(v, str) else "[]"
        n = int(v) if isinstance(v, int) else 0
        return f"(Some (mkv {cls_code(v, self.cl)}%nat {coq_z(n)} {s} {self.canon[i]}))"

    def coq_obj(self, v, i):
        """the Coq value of an object v that carries the payload of pool value i (e.g. the constructor's cast of it)"""
        if v is None:
            return "None"
        st = "[" + "; ".join(str(ord(c)) for c in v) + "]" if isinstance(v, str) else "[]"
        n = int(v) if isinstance(v, int) else 0
        return f"(Some (mkv {cls_code(v, self.cl)}%nat {coq_z(n)} {st} {self.canon[i]}))"

    def coq_val_plain(self, i):
        return self.coq_val(i)[len("(Some "):-1]


def frag_subclass_table(chk, can_eval):
    cl = classes() + [list]
    exp = [1 if issubclass(c, d) else 0 for c in cl for d in cl]
    chk.count("typed:subclass-pairs", len(exp))
    if can_eval:
        term = "[" + "; ".join(map(str, exp)) + "]"
        bad, errs = common.run_mismatch_shards("C02tvsub", PRELUDE, [term], "check_sub_table", shard=1)
        chk.traces += common.run_mismatch_shards.evaluated - len(bad)
        for e in errs:
            chk.tie_broken("correspondence-run", e)
        if bad:
            chk.tie_broken("correspondence", {"fragment": "typed values: class table", "detail":
                                              "issubclass over the interpreter's XSD classes differs from the generated table"})


def tc_obs(P, i, t):
    from basyx.aas.model import datatypes as dt
    from c02 import enc_exc
    v = P.vals[i]
    try:
        r = dt.trivial_cast(v, P.cl[t])
    except Exception as e:  # noqa
        return [enc_exc(e)], None, e
    return [0, 1 if type(r) is type(v) else 0] + P.enc(r, P.tok_of(r, [i])), r, None


def consistent(v, t, bounds):
    """the oracle predicate (from the metamodel text): v is a value of XSD type t"""
    from basyx.aas.model import datatypes as dt
    if v is None:
        return True
    if not isinstance(v, t):
        return False
    if isinstance(v, bool) and t is not dt.Boolean:
        return False
    if t in bounds:
        lo, hi = bounds[t]
        return (lo is None or lo <= v) and (hi is None or v <= hi)
    if t is dt.NormalizedString:
        return not any(c in v for c in "\r\n\t")
    return True


def frag_trivial_cast(chk, can_eval, P):
    from basyx.aas.model import datatypes as dt
    from c02 import XSD_BOUNDS
    bounds = {getattr(dt, n): b for n, b in XSD_BOUNDS.items() if n != "Integer"}
    terms, cases = [], []
    for i, v in enumerate(P.vals):
        for t in range(N_XSD):
            obs, r, e = tc_obs(P, i, t)
            chk.seen(("tc", i, t), nontrivial=True)
            chk.count("typed:trivial_cast:" + ("ok" if e is None else type(e).__name__))
            T = P.cl[t]
            if e is None:
                if not consistent(r, T, bounds) or not payload_equal(r, v):
                    chk.fail(f"C02:trivial_cast:{NAMES[t]}", f"trivial_cast({v!r}, {NAMES[t]}) returned {r!r} "
                             f"({type(r).__name__}): not a value of the type / not the same value",
                             {"kind": "tcast", "value": repr(v), "type": NAMES[t]})
                elif type(r) is type(v) and r is not v:
                    chk.fail("C02:trivial_cast:identity", f"trivial_cast({v!r}, {NAMES[t]}) copied a value that already had the type",
                             {"kind": "tcast", "value": repr(v), "type": NAMES[t]})
            elif not isinstance(e, (TypeError, ValueError)):
                chk.fail("C02:trivial_cast:error-class", f"trivial_cast({v!r}, {NAMES[t]}) raised {type(e).__name__}",
                         {"kind": "tcast", "value": repr(v), "type": NAMES[t]})
            elif consistent(v, T, bounds):
                chk.fail("C02:trivial_cast:refused-valid", f"trivial_cast({v!r}, {NAMES[t]}) refused a value of that type "
                         f"({type(e).__name__})", {"kind": "tcast", "value": repr(v), "type": NAMES[t]})
            terms.append(f"({P.coq_val_plain(i)}, {t}%nat, {coq_z(common.zhash_d(obs, 1))})")
            cases.append((repr(v), NAMES[t], obs))
    if can_eval:
        bad, errs = common.run_mismatch_shards("C02tvtc", PRELUDE, terms, "check_tc_case", shard=1500)
        chk.traces += common.run_mismatch_shards.evaluated - len(bad)
        for e in errs:
            chk.tie_broken("correspondence-run", e)
        if bad:
            chk.tie_broken("correspondence", {"fragment": "typed values: trivial_cast", "n_disagreements": len(bad),
                                              "first_cases": [cases[b] for b in bad[:5]], "term": terms[bad[0]][:300]})


# --------------------------------------------------------------------------------------------- holders
HOLDERS = ("Property", "Qualifier", "Extension")


def mk_holder(name, t, v):
    from basyx.aas import model
    if name == "Property":
        return model.Property("p", t, value=v)
    if name == "Qualifier":
        return model.Qualifier("q", t, value=v)
    return model.Extension("e", t, value=v)


def holder_run(P, case, bounds):
    """case = (holder, type code | None, value index | None, [("v", index | None) | ("t", code | None)])"""
    from c02 import enc_exc
    name, t0, v0, ops = case
    cand = [i for i in ([v0] + [a for k, a in ops if k == "v"]) if i is not None]

    def enc(o):
        return [-1 if o.value_type is None else P.cl.index(o.value_type)] + P.enc(o.value, P.tok_of(o.value, cand))

    def wf(o):
        if o.value is None:
            return None
        if o.value_type is None:
            return "a value without value_type"
        if not consistent(o.value, o.value_type, bounds):
            return f"value {o.value!r} ({type(o.value).__name__}) is no {o.value_type.__name__}"
        return None
    try:
        o = mk_holder(name, None if t0 is None else P.cl[t0], None if v0 is None else P.vals[v0])
    except Exception as e:  # noqa
        code = enc_exc(e)
        return [[code]], (None if code in (1, 2) else (-1, f"constructor raised {type(e).__name__}"))
    fail = None
    m = wf(o)
    if m:
        fail = (-1, "constructor accepted: " + m)
    trace = [[0] + enc(o)]
    for k, (what, a) in enumerate(ops):
        before = (o.value_type, o.value)
        try:
            if what == "v":
                o.value = None if a is None else P.vals[a]
            else:
                o.value_type = None if a is None else P.cl[a]
            code = 0
            m = wf(o)
            if m and not fail:
                fail = (k, f"{what} assignment accepted: " + m)
        except Exception as e:  # noqa
            code = enc_exc(e)
            if not fail:
                if o.value_type is not before[0] or o.value is not before[1]:
                    fail = (k, "rejected assignment changed the object")
                elif code not in (1, 2):
                    fail = (k, f"assignment raised {type(e).__name__}")
        trace.append([code] + enc(o))
    return trace, fail


def range_run(P, case, bounds):
    """case = (type code, min index | None, max index | None, [("min"|"max", index | None) | ("t", code)])"""
    from basyx.aas import model
    from c02 import enc_exc
    t0, a0, b0, ops = case
    cand = [i for i in ([a0, b0] + [a for k, a in ops if k != "t"]) if i is not None]

    def enc(o):
        return [P.cl.index(o.value_type)] + P.enc(o.min, P.tok_of(o.min, cand)) + P.enc(o.max, P.tok_of(o.max, cand))

    def wf(o):
        for a in ("min", "max"):
            if not consistent(getattr(o, a), o.value_type, bounds):
                return f"{a} {getattr(o, a)!r} ({type(getattr(o, a)).__name__}) is no {o.value_type.__name__}"
        return None
    try:
        o = model.Range("r", P.cl[t0], min=None if a0 is None else P.vals[a0], max=None if b0 is None else P.vals[b0])
    except Exception as e:  # noqa
        code = enc_exc(e)
        return [[code]], (None if code in (1, 2) else (-1, f"constructor raised {type(e).__name__}"))
    fail = None
    m = wf(o)
    if m:
        fail = (-1, "constructor accepted: " + m)
    trace = [[0] + enc(o)]
    for k, (what, a) in enumerate(ops):
        before = (o.value_type, o.min, o.max)
        try:
            if what == "t":
                o.value_type = P.cl[a]
            else:
                setattr(o, what, None if a is None else P.vals[a])
            code = 0
            m = wf(o)
            if m and not fail:
                fail = (k, f"{what} assignment accepted: " + m)
        except Exception as e:  # noqa
            code = enc_exc(e)
            if not fail:
                if o.value_type is not before[0] or o.min is not before[1] or o.max is not before[2]:
                    fail = (k, "rejected assignment changed the object (min and max must be re-cast together or not at all)")
                elif code not in (1, 2):
                    fail = (k, f"assignment raised {type(e).__name__}")
        trace.append([code] + enc(o))
    return trace, fail


def _shrink(ops, pred):
    cur = list(ops)
    changed = True
    while changed:
        changed = False
        for i in range(len(cur)):
            cand = cur[:i] + cur[i + 1:]
            if pred(cand):
                cur, changed = cand, True
                break
    return cur


def coq_opt_nat(t):
    return "None" if t is None else f"(Some {t}%nat)"


def frag_holders(chk, can_eval, P):
    from basyx.aas.model import datatypes as dt
    from c02 import XSD_BOUNDS
    bounds = {getattr(dt, n): b for n, b in XSD_BOUNDS.items() if n != "Integer"}
    rng = chk.rng
    nv = len(P.vals)
    quick = chk.tier == "quick"
    # directed: every (value, type, type') triple class-wise would be 80 x 31 x 31; take every value with every type as the
    # constructor pair and re-type to a few targets of the same kind plus random ones
    kind = {}
    for i, n in enumerate(NAMES):
        T = P.cl[i]
        kind[i] = "int" if issubclass(T, int) and T is not bool else "float" if issubclass(T, float) else \
            "str" if issubclass(T, str) else "bin" if issubclass(T, bytearray) else n
    same_kind = {i: [j for j in range(N_XSD) if kind[j] == kind[i] and j != i] for i in range(N_XSD)}
    hcases, rcases = [], []
    for hname in HOLDERS:
        for i in range(nv):
            for t in range(N_XSD):
                if quick and (i + t + len(hname)) % 3 != chk.seed % 3:
                    continue
                ops = []
                for t2 in (same_kind[t][:] if not quick else rng.sample(same_kind[t], min(2, len(same_kind[t])))):
                    ops.append(("t", t2))
                ops.append(("t", rng.randrange(N_XSD)))
                ops.append(("v", rng.randrange(nv)))
                ops.append(("t", t))
                hcases.append((hname, t, i, ops))
        # value_type None (Extension: documented; the others store it blindly while no value is present)
        for i in list(range(0, nv, 7)) + [None]:
            for t in (None, 15, 29):
                hcases.append((hname, t, i, [("t", None), ("v", i), ("t", 17), ("v", None), ("t", None), ("v", i)]))
    n_rand = 600 if quick else 12000
    for _ in range(n_rand):
        hname = rng.choice(HOLDERS)
        t = rng.randrange(N_XSD)
        ops = []
        for _ in range(rng.randint(1, 8)):
            if rng.random() < 0.5:
                ops.append(("v", None if rng.random() < 0.15 else rng.randrange(nv)))
            else:
                ops.append(("t", None if (hname == "Extension" and rng.random() < 0.15) else
                            rng.choice(same_kind[t] or [t]) if rng.random() < 0.5 else rng.randrange(N_XSD)))
        hcases.append((hname, None if (hname == "Extension" and rng.random() < 0.1) else t,
                       None if rng.random() < 0.3 else rng.randrange(nv), ops))
    for _ in range(n_rand):
        t = rng.randrange(N_XSD)
        ops = []
        for _ in range(rng.randint(1, 8)):
            r = rng.random()
            if r < 0.6:
                ops.append((rng.choice(["min", "max"]), None if rng.random() < 0.15 else rng.randrange(nv)))
            else:
                ops.append(("t", rng.choice(same_kind[t] or [t]) if rng.random() < 0.6 else rng.randrange(N_XSD)))
        rcases.append((t, None if rng.random() < 0.3 else rng.randrange(nv), None if rng.random() < 0.3 else rng.randrange(nv), ops))
    # directed Range: one bound fits the new type, the other does not (atomicity of the value_type setter)
    small, big = P.vals.index(5), P.vals.index(2 ** 31)
    for t, t2 in ((15, 17), (16, 19), (24, 27), (15, 19), (16, 17)):
        for a, b in ((small, big), (big, small), (small, None), (None, big), (big, big)):
            rcases.append((t, a, b, [("t", t2), ("min", small), ("t", t2), ("max", small), ("t", t2)]))
    hterms, rterms = [], []
    for case in hcases:
        tr, fail = holder_run(P, case, bounds)
        chk.seen(("holder",) + (case[0], case[1], case[2], tuple(case[3])), nontrivial=len(case[3]) >= 2)
        chk.count("typed:" + case[0] + (":ctor-rejected" if len(tr[0]) == 1 else ":histories"))
        if fail:
            k, msg = fail
            small_ops = _shrink(case[3][:k + 1], lambda o: holder_run(P, case[:3] + (o,), bounds)[1] is not None)
            _, msg2 = holder_run(P, case[:3] + (small_ops,), bounds)[1]
            chk.fail(f"C02:value-history:{case[0]}:{msg2.split(':')[0][:40]}", f"{case[0]}(value_type="
                     f"{None if case[1] is None else NAMES[case[1]]}, value={None if case[2] is None else P.vals[case[2]]!r}) then "
                     + ", ".join(("value=" + (repr(P.vals[a]) if a is not None else "None")) if w == "v" else
                                 ("value_type=" + (NAMES[a] if a is not None else "None")) for w, a in small_ops) + ": " + msg2,
                     {"kind": "tvholder", "case": [case[0], case[1], case[2], [list(o) for o in small_ops]]})
        ops_t = common_list([f"HSetValue {P.coq_val(a)}" if w == "v" else f"HT {coq_opt_nat(a)}" for w, a in case[3]], "hop")
        hterms.append(f"({'true' if case[0] == 'Extension' else 'false'}, {coq_opt_nat(case[1])}, {P.coq_val(case[2])}, "
                      f"{ops_t}, {coq_z(common.zhash_d(tr, 2))})")
    for case in rcases:
        tr, fail = range_run(P, case, bounds)
        chk.seen(("range",) + (case[0], case[1], case[2], tuple(case[3])), nontrivial=len(case[3]) >= 2)
        chk.count("typed:Range" + (":ctor-rejected" if len(tr[0]) == 1 else ":histories"))
        if fail:
            k, msg = fail
            small_ops = _shrink(case[3][:k + 1], lambda o: range_run(P, case[:3] + (o,), bounds)[1] is not None)
            _, msg2 = range_run(P, case[:3] + (small_ops,), bounds)[1]
            chk.fail(f"C02:value-history:Range:{msg2.split(':')[0][:40]}",
                     f"Range(value_type={NAMES[case[0]]}, min={None if case[1] is None else P.vals[case[1]]!r}, "
                     f"max={None if case[2] is None else P.vals[case[2]]!r}) then "
                     + ", ".join((w + "=" + (repr(P.vals[a]) if a is not None else "None")) if w != "t" else
                                 ("value_type=" + NAMES[a]) for w, a in small_ops) + ": " + msg2,
                     {"kind": "tvrange", "case": [case[0], case[1], case[2], [list(o) for o in small_ops]]})
        ops_t = common_list([f"RT {a}%nat" if w == "t" else f"{'RSetMin' if w == 'min' else 'RSetMax'} {P.coq_val(a)}"
                             for w, a in case[3]], "rop")
        rterms.append(f"({case[0]}%nat, {P.coq_val(case[1])}, {P.coq_val(case[2])}, {ops_t}, {coq_z(common.zhash_d(tr, 2))})")
    chk.cov["typed_values"] = (f"{len(P.vals)} values x {N_XSD} types through trivial_cast; {len(hcases)} Property/Qualifier/Extension "
                               f"histories, {len(rcases)} Range histories (constructor, value / min / max and value_type setters, "
                               "None, same-kind and foreign target types)")
    if not can_eval:
        return
    for tag, terms, fn, cases, what in (("C02tvh", hterms, "check_holder_case", hcases, "holders"),
                                        ("C02tvr", rterms, "check_range_case", rcases, "Range")):
        bad, errs = common.run_mismatch_shards(tag, PRELUDE, terms, fn, shard=700)
        chk.traces += common.run_mismatch_shards.evaluated - len(bad)
        for e in errs:
            chk.tie_broken("correspondence-run", e)
        if bad:
            c = cases[bad[0]]
            chk.tie_broken("correspondence", {"fragment": "typed values: " + what, "n_disagreements": len(bad),
                                              "first_case": repr(c), "values": [repr(P.vals[a]) for w, a in c[3]
                                                                                if w != "t" and a is not None],
                                              "term": terms[bad[0]][:500]})


def item_run(P, case, bounds):
    """case = (is_range, list type code, item type code, a index | None, b index | None, [target type codes]):
    a Property (value a) / Range (min a, max b) of the item type is put into a SubmodelElementList of Properties / Ranges
    announcing value_type_list_element, then its value_type is assigned"""
    from basyx.aas import model
    from c02 import enc_exc
    is_range, vtle, t0, a, b, ts = case
    cand = [i for i in (a, b) if i is not None]
    lst = model.SubmodelElementList("l", model.Range if is_range else model.Property, value_type_list_element=P.cl[vtle])
    try:
        if is_range:
            o = model.Range(None, P.cl[t0], min=None if a is None else P.vals[a], max=None if b is None else P.vals[b])
        else:
            o = model.Property(None, P.cl[t0], value=None if a is None else P.vals[a])
        lst.value.add(o)
    except Exception:  # noqa
        return None, None        # not a case: the item cannot be built / put into the list

    def enc():
        if is_range:
            return [P.cl.index(o.value_type)] + P.enc(o.min, P.tok_of(o.min, cand)) + P.enc(o.max, P.tok_of(o.max, cand))
        return [P.cl.index(o.value_type)] + P.enc(o.value, P.tok_of(o.value, cand)) + [-1]
    fail = None
    trace = []
    item_run.initial = ((o.min, o.max) if is_range else (o.value, None))      # the fields as the constructor left them
    for k, t in enumerate(ts):
        before = (o.value_type, o.min, o.max) if is_range else (o.value_type, o.value)
        try:
            o.value_type = P.cl[t]
            code = 0
        except Exception as e:  # noqa
            code = enc_exc(e)
            after = (o.value_type, o.min, o.max) if is_range else (o.value_type, o.value)
            if not fail and any(x is not y for x, y in zip(before, after)):
                fail = (k, "rejected value_type assignment changed the item")
            if not fail and code not in (1, 2, 1109):
                fail = (k, f"value_type assignment raised {type(e).__name__}")
        if not fail and o.value_type is not lst.value_type_list_element:
            fail = (k, f"AASd-109: the list announces {lst.value_type_list_element.__name__}, its item now has value_type "
                       f"{o.value_type.__name__}")
        if not fail and o.parent is not lst:
            fail = (k, "the item left its list")
        vals = (o.min, o.max) if is_range else (o.value,)
        if not fail and any(not consistent(v, o.value_type, bounds) for v in vals):
            fail = (k, "value is no value of the item's value_type")
        trace.append([code] + enc())
    return trace, fail


def frag_items(chk, can_eval, P):
    """AASd-109 under assignment to value_type of a contained Property / Range"""
    from basyx.aas.model import datatypes as dt
    from c02 import XSD_BOUNDS
    bounds = {getattr(dt, n): b for n, b in XSD_BOUNDS.items() if n != "Integer"}
    rng = chk.rng
    cases = []
    small = P.vals.index(5)
    for is_range in (False, True):
        for vtle in range(N_XSD):
            # every target type once, the list's own type in between (accepted: nothing to re-cast or re-cast to itself)
            order = list(range(N_XSD))
            rng.shuffle(order)
            order.insert(rng.randrange(len(order)), vtle)
            for a in (None, small if issubclass(P.cl[vtle], int) and P.cl[vtle] is not bool else None):
                cases.append((is_range, vtle, vtle, a, a if is_range else None, order))
    terms, kept = [], []
    for case in cases:
        tr, fail = item_run(P, case, bounds)
        if tr is None:
            continue
        kept.append(case)
        chk.seen(("item",) + case[:5] + (tuple(case[5]),), nontrivial=True)
        chk.count("typed:list-item:" + ("Range" if case[0] else "Property"))
        if fail:
            k, msg = fail
            chk.fail(f"C02:list-item:value_type:{msg.split(':')[0][:40]}",
                     f"{'Range' if case[0] else 'Property'} item of a SubmodelElementList(value_type_list_element={NAMES[case[1]]}): "
                     f"value_type = {NAMES[case[5][k]]}: {msg}",
                     {"kind": "tvitem", "case": [case[0], case[1], case[2], case[3], case[4], case[5][:k + 1]]})
        terms.append(f"({'true' if case[0] else 'false'}, {case[1]}%nat, {case[2]}%nat, {P.coq_obj(item_run.initial[0], case[3])}, "
                     f"{P.coq_obj(item_run.initial[1], case[4])}, "
                     + common_list([f"{t}%nat" for t in case[5]], "nat") + f", {coq_z(common.zhash_d(tr, 2))})")
    chk.cov["typed_list_items"] = f"{len(kept)} re-typing histories of list items (every list type x every target type)"
    if can_eval and terms:
        bad, errs = common.run_mismatch_shards("C02tvi", PRELUDE, terms, "check_item_case", shard=200)
        chk.traces += common.run_mismatch_shards.evaluated - len(bad)
        for e in errs:
            chk.tie_broken("correspondence-run", e)
        if bad:
            chk.tie_broken("correspondence", {"fragment": "typed values: list items", "n_disagreements": len(bad),
                                              "first_case": repr(kept[bad[0]]), "term": terms[bad[0]][:400]})


def common_list(items, ty):
    return f"(@nil {ty})" if not items else "[" + "; ".join(items) + "]"


def run_all(chk, can_eval):
    P = Pool()
    frag_subclass_table(chk, can_eval)
    frag_trivial_cast(chk, can_eval, P)
    frag_holders(chk, can_eval, P)
    frag_items(chk, can_eval, P)


def replay_case(rp):
    from basyx.aas.model import datatypes as dt
    from c02 import XSD_BOUNDS
    bounds = {getattr(dt, n): b for n, b in XSD_BOUNDS.items() if n != "Integer"}
    P = Pool()
    c = rp["case"]
    if rp["kind"] == "tvitem":
        tr, fail = item_run(P, (c[0], c[1], c[2], c[3], c[4], list(c[5])), bounds)
        print("trace:", tr)
        print("oracle:", fail)
        return 1 if fail else 0
    ops = [tuple(o) for o in c[3]]
    if rp["kind"] == "tvholder":
        tr, fail = holder_run(P, (c[0], c[1], c[2], ops), bounds)
    else:
        tr, fail = range_run(P, (c[0], c[1], c[2], ops), bounds)
    print("trace:", tr)
    print("oracle:", fail)
    return 1 if fail else 0
