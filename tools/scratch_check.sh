#!/bin/bash
# usage: tools/scratch_check.sh <Cxx> [tier] [repo dir]   - runs a check from a scratch copy of /verif (VERIF_SRC) against
# /repo (or another tree) without touching /verif's gen files, .vo files, evidence or replays.  Scratch copy removed afterwards.
set -u
pid="$1"; tier="${2:-quick}"; repo="${3:-/repo}"
vc="/tmp/scratchchk-$$-verif"
rsync -a --exclude .git --exclude 'replays/' --exclude 'work/' "${VERIF_SRC:-/verif}/" "$vc/"
rm -f "$vc/coq/.lock"
cd "$vc" && VERIF_REPO="$repo" PYTHONPATH="$repo/sdk:$repo/compliance_tool:$vc/tools" PYTHONHASHSEED=0 PIP_NO_INDEX=1 \
    BASYX_PYTHON_SDK_VERIF=1 VERIF_TIER="$tier" /venv/bin/python "$vc/tools/run_check.py" "$pid" --tier "$tier" > "$vc/out.txt" 2>&1
rc=$?
grep -v -i conda "$vc/out.txt" | tail -${TAIL:-15}
for f in "$vc"/replays/*.json; do [ -f "$f" ] && { echo "== $f"; head -c 1200 "$f"; echo; }; done 2>/dev/null | head -60
echo "SCRATCH-RESULT rc=$rc"
cd /; rm -rf "$vc"
