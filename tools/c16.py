"""C16 - CouchDB store is a revision-guarded map: no lost update, no phantom object.

Theorems: coq/theories/props/C16.v over model/Couch.v (client = couchdb.py statement by statement,
          server = CouchDB's documented MVCC rules).
Tie C:    histories of SDK calls (add, get_identifiable, modify+commit, update, discard, safe discard,
          in, len, iteration) interleaved with a second actor that writes/deletes documents behind the
          SDK's back, every SDK request optionally answered by a fault (401/404/409/412/500, non-JSON
          body, dropped connection), identifiers with '/', '?', '#', '%', spaces, non-ASCII - run through
          the public API against the loopback fake tools/fakes/couchdb_server.py and on the model
          (vm_compute), compared after every call.
Oracle:   a reference dict id -> payload + the MVCC rule (client revision == server revision) + the
          fault rule (a faulted call raises a documented error class and leaves the server unchanged).

There is no CouchDB server and no network in this sandbox: a real CouchDB and urllib3 against a remote
host are NOT exercised.  Level: proof on the protocol model, partial.
"""
import base64
import gc
import http.client
import json
import os
import signal
import urllib.parse

import common
from common import coq_list, coq_z

TAG = "C16_%d" % os.getpid()    # scratch-file prefix in coq/build, unique per process
THEOREMS = ["C16_refines", "C16_no_lost_update", "C16_fresh_commit_visible", "C16_safe_delete",
            "C16_child_calls", "C16_lost_answer_add", "C16_lost_answer_commit", "C16_lost_answer_safe_delete", "C16_lost_answer_pool_add", "C16_lost_answer_pool_commit", "C16_lost_answer_pool_safe_delete", "C16_lost_answer_pool_lookup", "C16_discard_keeps_other_revisions", "C16_safe_delete_gone", "C16_lookup_live", "C16_lookup_missing", "C16_membership", "C16_len", "C16_fault_total",
            "C16_unquote_quote", "C16_quote_inj", "C16_unquote_transform", "C16_transform_inj",
            "C16_doc_url_inj", "C16_key_agreement", "C16_routing", "C16_reserved_id_refuted", "C16_second_replica_refuted", "C16_example"]

ID_POOL = ["a", "http://x/a b?c#d%e", "é/ü", "x/y z", "p%2Fq", "a+b&c=d", ".", "..", "~t_-", "€", "%", "a\tb",
           "urn:x:y#frag?q=1", "A.b", "?#"]
# identifiers in string-prefix relation (also after URL quoting): hierarchical IRIs, the usual shape of AAS ids
ID_FAMILIES = [["https://e.org/sm", "https://e.org/sm/1", "https://e.org/sm?version=2", "https://e.org/sm (copy)",
                "https://e.org/sm/1/2"],
               ["a", "a+b&c=d", "a\tb", "ab", "a/"], [".", "..", "..."], ["x", "x%", "x%2F", "x%2Fy"],
               ["é", "é/ü", "éé"], ["urn:x:y", "urn:x:y#frag?q=1", "urn:x:y:z"]]
FAULTS = [("status", 401), ("status", 404), ("status", 409), ("status", 412), ("status", 500), ("garbage",),
          ("garbage", "empty"), ("garbage", "truncated"), ("drop",)]     # non-JSON body: text, nothing, half a document
# transports: "default" = the module's urllib3.PoolManager() (urllib3 repeats a request whose connection broke, and
# reports MaxRetryError in the end); "noretry" = a PoolManager(retries=False), where urllib3's ProtocolError reaches
# do_request itself (CouchDBConnectionError).  Under "noretry" also: the answer is lost AFTER the server has processed
# the request.
LOST = ("lost",)
USER, PASSWORD = "verif", "s3cret"


# ------------------------------------------------------------------ SDK side

class Env:
    """one fake server for the whole run; one database per case"""
    def __init__(self):
        from fakes.couchdb_server import FakeCouchDB
        from basyx.aas.backend import couchdb
        self.fake = FakeCouchDB(USER, PASSWORD).start()
        couchdb.register_credentials(self.fake.url, USER, PASSWORD)
        self.ndb = 0
        self.auth = {"Authorization": "Basic " + base64.b64encode(f"{USER}:{PASSWORD}".encode()).decode(),
                     "Accept": "application/json", "Content-Type": "application/json"}
        self.conn = None

    def close(self):
        self.fake.stop()

    def raw(self, method, path, body=None):
        """the second actor's HTTP client (not the SDK's)"""
        for attempt in (0, 1):
            try:
                if self.conn is None:
                    self.conn = http.client.HTTPConnection("127.0.0.1", self.fake.httpd.server_address[1], timeout=10)
                self.conn.request(method, path, body, self.auth)
                r = self.conn.getresponse()
                data = r.read()
                return r.status, (json.loads(data) if data else None)
            except (http.client.HTTPException, OSError):
                self.conn = None
                if attempt:
                    raise


_ENV = None


def env():
    global _ENV
    if _ENV is None:
        _ENV = Env()
    return _ENV


PARTS = ("pa", "pb")


ABSENT_PART = 999      # an optional part that is not set (Property.value / category / id_short is None)


def _opt(v):
    return None if v == ABSENT_PART else v


def make_object(ident, a, b, kind):
    """an Identifiable with two independently changeable, optional parts (a, b): a Submodel carries them in the
    values of two nested Properties, the other kinds in id_short / category; ABSENT_PART = the attribute is None"""
    from basyx.aas import model
    if kind == 1:
        return model.Submodel(ident, id_short="s", submodel_element=[
            model.Property(PARTS[0], model.datatypes.Int, _opt(a)), model.Property(PARTS[1], model.datatypes.Int, _opt(b))])
    ids = None if a == ABSENT_PART else f"v{a}"
    cat = None if b == ABSENT_PART else f"c{b}"
    if kind == 0:
        return model.AssetAdministrationShell(model.AssetInformation(global_asset_id="urn:g"), ident,
                                              id_short=ids, category=cat)
    return model.ConceptDescription(ident, id_short=ids, category=cat)


def total(a, b):
    """the payload token of the model stands for all parts of the object"""
    return a * 1000 + b


def parts_of(o):
    from basyx.aas import model
    if isinstance(o, model.Submodel):
        va, vb = o.get_referable(PARTS[0]).value, o.get_referable(PARTS[1]).value
        return (ABSENT_PART if va is None else int(va)), (ABSENT_PART if vb is None else int(vb))
    return (ABSENT_PART if o.id_short is None else int(o.id_short[1:]),
            ABSENT_PART if o.category is None else int(o.category[1:]))


def set_part(o, part, v):
    from basyx.aas import model
    if isinstance(o, model.Submodel):
        o.get_referable(PARTS[part]).value = _opt(v)
    elif part == 0:
        o.id_short = None if v == ABSENT_PART else f"v{v}"
    else:
        o.category = None if v == ABSENT_PART else f"c{v}"


def json_parts(data):
    """(a, b) of a stored document's `data` member; a missing member = the optional part is not set"""
    if data.get("modelType") == "Submodel":
        vals = {e["idShort"]: (int(e["value"]) if "value" in e else ABSENT_PART) for e in data.get("submodelElements", [])}
        return vals[PARTS[0]], vals[PARTS[1]]
    return (int(data["idShort"][1:]) if "idShort" in data else ABSENT_PART,
            int(data["category"][1:]) if "category" in data else ABSENT_PART)


def json_val(data):
    return total(*json_parts(data))


def gen_of(rev):
    return int(rev.split("-")[0])


class Hang(BaseException):
    pass


HUNG = []


def _alarm(*_):
    HUNG.append(1)       # the exception below is swallowed when it hits inside a finalizer / __del__
    raise Hang()


def watchdog(f, seconds=30.0):
    """a call of the SDK that never returns (e.g. a lock taken twice) must not hang the check"""
    del HUNG[:]
    old = signal.signal(signal.SIGALRM, _alarm)
    signal.setitimer(signal.ITIMER_REAL, seconds)
    try:
        r = f()
    finally:
        signal.setitimer(signal.ITIMER_REAL, 0)
        signal.signal(signal.SIGALRM, old)
    if HUNG:
        raise Hang()
    return r


def _run_sdk(case):
    """Runs the case against the fake.  Returns (trace, first oracle failure or None);
    failure = (step index, op kind, code, message)."""
    from basyx.aas import model
    from basyx.aas.backend import couchdb
    from basyx.aas.adapter.json import json_serialization
    E = env()
    fake = E.fake
    E.ndb += 1
    db = f"db{E.ndb}"
    store = couchdb.CouchDBObjectStore(fake.url, db)
    fake.arm()
    store.check_database(create=True)
    if case.get("transport") == "noretry":
        import urllib3
        saved_pm = couchdb._http_pool_manager
        couchdb._http_pool_manager = urllib3.PoolManager(retries=False)
        try:
            return _run_history(case, E, fake, db, store)
        finally:
            couchdb._http_pool_manager.clear()
            couchdb._http_pool_manager = saved_pm
    return _run_history(case, E, fake, db, store)


def _run_history(case, E, fake, db, store):
    from basyx.aas import model
    from basyx.aas.backend import couchdb
    from basyx.aas.adapter.json import json_serialization
    pool = case["pool"]
    kind_of = {}
    for ident, val in pool:
        kind_of.setdefault(ident, (len(kind_of) + 1) % 3)        # Submodel, ConceptDescription, AAS, ...
    objs = [make_object(i, v, 0, kind_of[i]) for i, v in pool]      # all objects ever seen, by token; kept alive
    tok = {id(o): t for t, o in enumerate(objs)}
    ids = [p[0] for p in pool]
    ref = {}                                                     # the oracle's map: id -> payload on the server
    synced = {}      # object token -> generation of its document when THIS object was last synchronised with the
    #                  server (successful add / lookup returning it / update() / commit / iteration returning it)
    writer = {}      # id -> who wrote the document's current generation: "ext" (second actor) | "client"
    attached = {}    # object token -> it is a replica of a stored document (added / fetched, not discarded since)
    dirty = {}       # object token -> parts changed locally since the object was last synchronised
    fetched_in_aborted_iteration = {}   # id -> generation fetched for a replica that died with a failed iteration
    cached = {}      # id -> token of the replica the store has handed out / been given last for that id
    documented = (KeyError, couchdb.CouchDBConnectionError, couchdb.CouchDBResponseError,
                  couchdb.CouchDBServerError, couchdb.CouchDBConflictError)
    fails = []

    def bad(k, kind, code, msg):
        if not fails:
            fails.append((k, kind, code, msg))

    def url_of(ident):
        return "{}/{}/{}".format(fake.url, db, couchdb.CouchDBObjectStore._transform_id(ident))

    def docpath(ident):      # the second actor's own addressing, independent of the SDK's quoting
        q = "".join("%{:02X}".format(b) for b in ident.encode("utf-8"))
        return "/{}/{}".format(db, q)

    def token(o):
        if id(o) not in tok:
            tok[id(o)] = len(objs)
            objs.append(o)
        return tok[id(o)]

    def val_of(o):
        return total(*parts_of(o))

    def enc_exc(e):
        if isinstance(e, KeyError):
            return [6, 1]
        if isinstance(e, couchdb.CouchDBConnectionError):
            return [6, 2]
        if isinstance(e, couchdb.CouchDBResponseError):
            return [6, 3]
        if isinstance(e, couchdb.CouchDBServerError):
            return [6, 4, e.code]
        if isinstance(e, couchdb.CouchDBConflictError):
            return [6, 5]
        if isinstance(e, couchdb.CouchDBSourceError):
            return [6, 6]
        return [6, 99]

    def same_replica(o):
        """the store keeps ONE live replica per document: while the application holds the object it was given (or
        gave) for an id, a lookup / iteration hands out that very object, refreshed - not a second replica"""
        t = cached.get(o.id)
        if t is not None and objs[t] is not o and objs[t].source != "":
            bad(k, kind, "second-replica-handed-out", "the store handed out a new object for a document whose replica "
                "it had handed out before and which is still alive and attached (two replicas of one document)")

    def up_to_date(x, pre):
        """this very object is attached and was last synchronised with the document's current revision"""
        return pre["server_live"] and pre["source"] != "" and synced.get(tok[id(x)]) == pre["server_gen"]

    def refused(x, what):
        # whatever the client has (or has lost) in its revision store: nobody has written since this replica was
        # synchronised, so its commit / safe delete must go through
        if exc is not None:
            bad(k, kind, "up-to-date-replica-refused", f"a {what} from an up-to-date replica (nobody wrote the document "
                f"since this object was last synchronised) was refused with {type(exc).__name__}")

    def stale_replica(x, pre):
        return writer.get(x.id) == "ext" and synced.get(tok[id(x)]) != pre["server_gen"]

    def multi(x, pre):
        """another local object attached to the same document HAS seen the current revision: the SDK keeps one
        revision per URL, not per object (known finding); otherwise nobody in this process has seen it"""
        other = any(o is not x and o.id == x.id and o.source != "" and synced.get(tok[id(o)]) == pre["server_gen"]
                    for o in objs) or fetched_in_aborted_iteration.get(x.id) == pre["server_gen"]
        return "-multi-replica" if other else ""

    def state_rows(snap):
        rows = []
        for i in ids:
            d = snap.get(i)
            row = [20, d[0], 0 if d[1] else 1, 0 if d[1] else json_val(d[2]["data"])] if d else [20, 0, 0, 0]
            r = couchdb.get_couchdb_revision(url_of(i))
            rows.append(row + [gen_of(r) if r else -1])
        for o in objs:
            rows.append([24, val_of(o), int(o.source != "")])
        return rows

    trace = []
    for k, (op, fault) in enumerate(case["ops"]):
        kind = op[0]
        if kind == "gc":
            # a run of the cyclic garbage collector at this point of the history (unreferenced temporaries and their
            # weak references / finalizers go now): nothing the application can see may change.  Not a call of the
            # model (no trace row).
            view0 = ({i: couchdb.get_couchdb_revision(url_of(i)) for i in set(ids)}, [(o.source, val_of(o)) for o in objs])
            gc.collect(1)      # the young generations: where the temporaries of the last calls are (a full run is slow)
            view1 = ({i: couchdb.get_couchdb_revision(url_of(i)) for i in set(ids)}, [(o.source, val_of(o)) for o in objs])
            if view1 != view0:
                bad(k, kind, "gc-changed-client", "a garbage collector run changed the client's view (recorded "
                    "revisions / objects) although every replica is still referenced")
            continue
        snap0 = fake.snapshot(db)
        exc = None
        out = None
        sent = 0
        result = None
        pre = {}
        try:
            if kind in ("extput", "extdel"):
                st, doc = E.raw("GET", docpath(op[1]))
                rev = doc["_rev"] if st == 200 else None
                if kind == "extput":
                    # the second actor changes ONE part of the document (creates it if missing)
                    ab = list(json_parts(doc["data"])) if st == 200 else [0, 0]
                    ab[op[3] if len(op) > 3 else 0] = op[2]
                    body = {"data": make_object(op[1], ab[0], ab[1], kind_of.get(op[1], 1))}
                    if rev:
                        body["_rev"] = rev
                    st2, _ = E.raw("PUT", docpath(op[1]), json.dumps(body, cls=json_serialization.AASToJsonEncoder))
                    assert st2 == 201, st2
                    ref[op[1]] = total(*ab)
                    writer[op[1]] = "ext"
                elif rev:
                    st2, _ = E.raw("DELETE", docpath(op[1]) + "?rev=" + rev)
                    assert st2 == 200, st2
                    ref.pop(op[1], None)
                    writer[op[1]] = "ext"
                out = [0]
            else:
                if kind in ("add", "modify", "commit", "update", "discard", "cobj", "updatec", "commitc"):
                    if op[1] >= len(objs):      # an object that does not exist (yet): no call is made
                        trace.append([[6, 9, -1, 0]] + state_rows(snap0))
                        continue
                    x = objs[op[1]]
                    pre = {"source": x.source, "client_rev": couchdb.get_couchdb_revision(url_of(x.id)),
                           "val": val_of(x)}
                    d = snap0.get(x.id)
                    pre["server_live"] = bool(d and not d[1])
                    pre["server_gen"] = d[0] if d else 0
                revs0 = {i: couchdb.get_couchdb_revision(url_of(i)) for i in set(ids)}
                objs0 = [(o.source, val_of(o)) for o in objs]
                fake.arm({fault[0]: tuple(fault[1])} if fault else None)
                try:
                    if kind == "add":
                        store.add(x)
                        out = [0]
                    elif kind == "get":
                        result = store.get_identifiable(op[1])
                        out = [1, token(result)]
                    elif kind == "modify":
                        set_part(x, op[3] if len(op) > 3 else 0, op[2])
                        out = [0]
                    elif kind in ("updatec", "commitc"):
                        # update() / commit() called on an element nested in the Identifiable (if it has one)
                        target = x.get_referable(PARTS[op[2]]) if isinstance(x, model.Submodel) else x
                        if kind == "updatec":
                            target.update()
                        else:
                            target.commit()
                        out = [0]
                    elif kind == "commit":
                        x.commit()
                        out = [0]
                    elif kind == "update":
                        x.update()
                        out = [0]
                    elif kind == "discard":
                        store.discard(x, safe_delete=bool(op[2]))
                        out = [0]
                    elif kind == "cid":
                        result = op[1] in store
                        out = [3, int(result)]
                    elif kind == "cobj":
                        result = x in store
                        out = [3, int(result)]
                    elif kind == "len":
                        result = len(store)
                        out = [4, result]
                    elif kind == "iter":
                        result = [o for o in store]    # (list(store) would add a len() request as length hint)
                        out = [5] + [token(o) for o in result]
                    else:
                        raise ValueError(kind)
                except Exception as e:   # classified below
                    exc = e
                    out = enc_exc(e)
                sent = fake.n + (1 if fake.drops else 0)
                hit = fake.fault_hits > 0
                if (hit and fault[1][0] == "lost" and case.get("transport") != "noretry" and fake.repeats
                        and fake.lost_request[0] in ("GET", "HEAD")):
                    # the answer to a lookup was lost and the connection pool has asked again: nothing was applied
                    # twice, the call is judged like an undisturbed one
                    hit = False
                fake.arm()
        except Exception as e:           # the harness itself failed (second actor, ...)
            bad(k, kind, "harness-" + type(e).__name__, f"harness error: {type(e).__name__}: {e}")
            trace.append([[98]])
            continue
        snap1 = fake.snapshot(db)
        okind = {"updatec": "update", "commitc": "commit"}.get(kind, kind)    # same calls towards the backend
        # ---------------- oracle
        if kind not in ("extput", "extdel"):
            if exc is not None and not isinstance(exc, documented):
                bad(k, kind, "undocumented-" + type(exc).__name__,
                    f"{kind} raised {type(exc).__name__} ({exc}), which is not a documented CouchDB error class / KeyError")
            if hit and fault[1][0] == "lost" and snap1 != snap0:
                # the server processed the request, its answer was lost: the client cannot know the outcome and has to
                # say so (transport error) - a KeyError ("duplicate" / "missing") or a conflict error claims that the
                # server refused, although this very call changed the document
                changed = {i for i in set(snap0) | set(snap1) if snap0.get(i) != snap1.get(i)}
                d = snap1.get(x.id) if okind in ("add", "commit", "discard") else None
                if not (d and changed == {x.id} and ((okind == "discard" and d[1]) or
                                                     (okind != "discard" and not d[1] and json_val(d[2]["data"]) == pre["val"]))):
                    bad(k, kind, "fault-changed-server", f"{kind} whose answer was lost changed the server otherwise "
                        "than by the effect of the call")
                if d and okind == "discard":
                    ref.pop(x.id, None)
                elif d:
                    ref[x.id] = pre["val"]
                if d:
                    writer[x.id] = "client"
                if isinstance(exc, (KeyError, couchdb.CouchDBConflictError)):
                    bad(k, kind, "applied-write-reported-as-refused", f"the server applied the {kind} and its answer was "
                        f"lost on the wire, but the call raised {type(exc).__name__} - a refusal (duplicate / missing / "
                        "conflict) reported for a write that changed the server document")
                elif exc is None:
                    bad(k, kind, "fault-reported-as-success", f"{kind} whose answer was lost returned normally")
            elif hit:
                # a faulted request: an error of a documented class, never success; server unchanged
                if snap1 != snap0:
                    bad(k, kind, "fault-changed-server", f"{kind} under fault {fault[1]} changed the server")
                if isinstance(exc, KeyError):
                    # KeyError is the store's "missing id" / "duplicate id" answer: under a fault only where the server
                    # said so (404; 409 to add's PUT; a HEAD answer without revision in a plain discard)
                    ft = fault[1]
                    if not (ft == ["status", 404] or (ft == ["status", 409] and kind == "add")
                            or (ft[0] == "garbage" and kind == "discard" and not op[2])):
                        bad(k, kind, "fault-reported-as-keyerror", f"{kind} under fault {ft} raised KeyError - a transport / "
                            "server error reported as a missing or duplicate identifier")
                if exc is None:
                    allowed = kind in ("cid", "cobj") and ((result is False and fault[1] == ["status", 404])
                                                           or (result is True and fault[1][0] == "garbage"))
                    if not allowed:
                        bad(k, kind, "fault-reported-as-success", f"{kind} under fault {fault[1]} returned normally")
            else:
                def expect(cls, what):
                    if cls is None:
                        if exc is not None:
                            bad(k, kind, "spurious-" + type(exc).__name__, f"{kind}: {what}, but it raised {type(exc).__name__}: {exc}")
                    elif not isinstance(exc, cls):
                        got = "returned normally" if exc is None else f"raised {type(exc).__name__}"
                        names = "/".join(c.__name__ for c in (cls if isinstance(cls, tuple) else (cls,)))
                        bad(k, kind, "expected-" + names, f"{kind}: {what}: expected {names}, but it {got}")
                if kind == "add":
                    if x.id in ref:
                        expect(KeyError, "the identifier is already stored")
                    else:
                        expect(None, "the identifier is free")
                        if exc is None:
                            ref[x.id] = pre["val"]
                elif kind == "get":
                    if op[1] in ref:
                        expect(None, "the identifier is stored")
                        if exc is None and (result.id != op[1] or val_of(result) != ref[op[1]] or not result.source):
                            bad(k, kind, "stale-or-wrong-object", "lookup returned an object that differs from the stored document")
                        if exc is None:
                            same_replica(result)
                    else:
                        expect(KeyError, "the identifier is not stored")
                elif kind == "modify":
                    expect(None, "local change")
                elif okind == "commit":
                    if pre["source"] == "":
                        expect(None, "object without source: nothing to do")
                    else:
                        fresh = (pre["server_live"] and pre["client_rev"] is not None
                                 and gen_of(pre["client_rev"]) == pre["server_gen"])
                        if fresh and stale_replica(x, pre):
                            # the client's recorded revision is current, but THIS replica has not seen the second
                            # actor's last write: accepting the commit loses that write
                            if exc is None:
                                ref[x.id] = pre["val"]
                                bad(k, kind, "stale-replica-accepted" + multi(x, pre),
                                    "a commit from a replica that was last synchronised before the second actor's "
                                    "write was accepted and overwrote that write (lost update)")
                            else:
                                expect(couchdb.CouchDBConflictError, "the replica has not seen the server's current revision")
                        elif fresh:
                            expect(None, "the replica's revision is the server's current one")
                            if exc is None:
                                # no lost update, part by part: a part the client has not touched since its last
                                # synchronisation must not overwrite what the second actor wrote there
                                before = divmod(ref[x.id], 1000)
                                mine = parts_of(x)
                                lost = [p for p in (0, 1) if p not in dirty.get(tok[id(x)], set()) and mine[p] != before[p]]
                                if lost and writer.get(x.id) == "ext":
                                    bad(k, kind, "lost-update-of-untouched-part" + multi(x, pre),
                                        "an accepted commit overwrote a part of the document that the second actor had "
                                        "changed and this client had neither changed nor refreshed (stale part of the "
                                        "replica carried over a current revision)")
                                ref[x.id] = pre["val"]
                        elif up_to_date(x, pre):
                            refused(x, "commit")
                            if exc is None:
                                ref[x.id] = pre["val"]
                        else:
                            expect(couchdb.CouchDBConflictError, "the replica's revision is not the server's current one")
                            if snap1 != snap0:
                                bad(k, kind, "lost-update", "a commit from a stale replica changed the server document")
                elif okind == "update":
                    if pre["source"] == "":
                        expect(None, "object without source: nothing to do")
                    elif x.id in ref:
                        expect(None, "the document exists")
                        if exc is None and kind == "update" and val_of(x) != ref[x.id]:
                            bad(k, kind, "stale-or-wrong-object", "update() did not deliver the stored document")
                        if exc is None and kind == "updatec" and parts_of(x)[op[2]] != divmod(ref[x.id], 1000)[op[2]]:
                            bad(k, kind, "stale-or-wrong-object", "update() of a nested element did not deliver the "
                                "stored state of that element")
                    else:
                        expect(KeyError, "the document does not exist")
                elif kind == "discard":
                    if not op[2]:
                        if x.id in ref:
                            expect(None, "the document exists")
                            if exc is None:
                                ref.pop(x.id, None)
                        else:
                            expect(KeyError, "the document does not exist")
                    elif up_to_date(x, pre) and (pre["client_rev"] is None or gen_of(pre["client_rev"]) != pre["server_gen"]):
                        refused(x, "safe delete")
                        if exc is None:
                            ref.pop(x.id, None)
                    elif pre["client_rev"] is None:
                        expect(couchdb.CouchDBConflictError, "safe delete without a known revision")
                    elif not pre["server_live"]:
                        expect((couchdb.CouchDBConflictError, KeyError), "safe delete of a document that is already gone")
                    elif gen_of(pre["client_rev"]) == pre["server_gen"] and stale_replica(x, pre):
                        if exc is None:
                            ref.pop(x.id, None)
                            bad(k, kind, "stale-replica-accepted" + multi(x, pre),
                                "a safe delete from a replica that was last synchronised before the second actor's "
                                "write was accepted and removed that write (lost update)")
                        else:
                            expect(couchdb.CouchDBConflictError, "the replica has not seen the server's current revision")
                    elif gen_of(pre["client_rev"]) == pre["server_gen"]:
                        expect(None, "the replica's revision is the server's current one")
                        if exc is None:
                            ref.pop(x.id, None)
                    else:
                        expect(couchdb.CouchDBConflictError, "the replica's revision is not the server's current one")
                        if snap1 != snap0:
                            bad(k, kind, "lost-update", "a safe delete from a stale replica changed the server document")
                elif kind in ("cid", "cobj"):
                    want = (op[1] if kind == "cid" else x.id) in ref
                    expect(None, "membership")
                    if exc is None and result is not want:
                        bad(k, kind, "membership", "membership differs from the stored documents")
                elif kind == "len":
                    expect(None, "len")
                    if exc is None and result != len(ref):
                        bad(k, kind, "len", "len differs from the number of stored documents")
                elif kind == "iter":
                    expect(None, "iteration")
                    if exc is None:
                        got = sorted((o.id, val_of(o)) for o in result)
                        if got != sorted(ref.items()) or len({id(o) for o in result}) != len(result):
                            bad(k, kind, "iteration", "iteration does not yield each stored document exactly once")
                        for o in result:
                            same_replica(o)
            # after a successful add / lookup / update() / commit the replica is up to date: the revision
            # recorded for its document is the server's current one
            if exc is None and not hit and okind in ("add", "get", "update", "commit"):
                o = result if okind == "get" else x
                d = snap1.get(o.id)
                r = couchdb.get_couchdb_revision(url_of(o.id))
                if o.source != "" and d and not d[1] and (r is None or gen_of(r) != d[0]):
                    bad(k, kind, "recorded-revision-stale", f"after a successful {kind} the recorded revision is not "
                        "the server's current one (the next commit would be refused)")
            # ---- bookkeeping: which replica is synchronised with which generation; who wrote last
            revs1 = {i: couchdb.get_couchdb_revision(url_of(i)) for i in set(ids)}

            def gen_now(ident):
                d = snap1.get(ident)
                return d[0] if d else 0
            if exc is None and not hit:
                if kind == "modify":
                    dirty.setdefault(tok[id(x)], set()).add(op[3] if len(op) > 3 else 0)
                if kind in ("add", "update", "commit", "commitc") and x.source != "":
                    dirty[tok[id(x)]] = set()
                if kind == "updatec" and x.source != "" and x.id in ref:
                    # the requested part is refreshed; another part counts as refreshed if it now shows the server's state
                    sv = divmod(ref[x.id], 1000)
                    dirty[tok[id(x)]] = {p for p in dirty.get(tok[id(x)], set())
                                         if p != op[2] and parts_of(x)[p] != sv[p]}
                if kind == "get":
                    dirty[tok[id(result)]] = set()
                if kind == "iter":
                    for o in result:
                        dirty[tok[id(o)]] = set()
                if okind in ("add", "update", "commit") and x.source != "":
                    synced[tok[id(x)]] = gen_now(x.id)
                if kind == "get":
                    synced[tok[id(result)]] = gen_now(result.id)
                    attached[tok[id(result)]] = True
                    cached[result.id] = tok[id(result)]
                if kind == "iter":
                    for o in result:
                        synced[tok[id(o)]] = gen_now(o.id)
                        attached[tok[id(o)]] = True
                        cached[o.id] = tok[id(o)]
                if okind in ("add", "commit", "discard") and snap1 != snap0:
                    writer[x.id] = "client"
                if kind == "add":
                    attached[tok[id(x)]] = True
                    cached[x.id] = tok[id(x)]
                if kind == "discard":
                    attached[tok[id(x)]] = False
                    cached.pop(x.id, None)
            elif kind == "iter":
                # a failed iteration has refreshed the cached replicas of the rows fetched so far
                for i in revs1:
                    if revs1[i] != revs0[i] and revs1[i]:
                        fetched_in_aborted_iteration[i] = gen_of(revs1[i])
                        for o in objs:
                            if o.id == i and o.source != "":
                                synced[tok[id(o)]] = gen_of(revs1[i])
                                dirty[tok[id(o)]] = set()
            # ---- a failed call leaves the client's view alone: sources, payloads, recorded revisions
            if exc is not None:
                now = [(o.source, val_of(o)) for o in objs[:len(objs0)]]
                if [a[0] for a in now] != [a[0] for a in objs0]:
                    bad(k, kind, "failed-call-changed-source", f"{kind} raised {type(exc).__name__} but changed the "
                        "`source` of an object (a later commit()/update() of it silently does nothing)")
                if kind != "iter" and (now != objs0 or revs1 != revs0):
                    bad(k, kind, "failed-call-changed-client", f"{kind} raised {type(exc).__name__} but changed the "
                        "client's view (object payload or recorded revision)")
            # ---- an object stays attached to its document until it is successfully discarded
            for t, a in attached.items():
                if (objs[t].source != "") != a:
                    bad(k, kind, "attachment-lost" if a else "attachment-left",
                        "an object that was added/fetched and not discarded has lost its source (its commit() would "
                        "silently do nothing)" if a else "a discarded object still has a source")
        live = {i: json_val(d[2]["data"]) for i, d in snap1.items() if not d[1]}
        if live != ref:
            bad(k, kind, "server-differs-from-map", "the server's documents differ from the reference map "
                "(phantom or lost document)")
        # ---------------- observation for the model
        trace.append([out + [-1, sent]] + state_rows(snap1))
    return trace, (fails[0] if fails else None)


def run_sdk(case):
    """_run_sdk under the watchdog: a hanging SDK call is an oracle failure of its own"""
    try:
        return watchdog(lambda: _run_sdk(case))
    except Hang:
        return [[[98]]], (0, "hang", "no-termination", "a call of the store / backend did not return within 30 s "
                                                       "(a lock taken twice?)")


def probe_reserved():
    """directed probe for the excluded identifier class of the theorems (known finding)"""
    from basyx.aas.backend import couchdb
    from basyx.aas import model
    E = env()
    E.ndb += 1
    db = f"db{E.ndb}"
    store = couchdb.CouchDBObjectStore(E.fake.url, db)
    E.fake.arm()
    store.check_database(create=True)
    res = []
    for ident in ("_x", "_all_docs"):
        try:
            store.add(model.Submodel(ident, id_short="v1"))
            ok = store.get_identifiable(ident).id == ident
            res.append((ident, None if ok else "lookup after add failed"))
        except Exception as e:
            res.append((ident, f"{type(e).__name__}: {e}"))
    return res


# ------------------------------------------------------------------ case generation

REQ_COUNT = {"add": 1, "get": 1, "commit": 1, "update": 1, "updatec": 1, "commitc": 1, "discard": 2, "cid": 1, "cobj": 1, "len": 1, "iter": 4}


def gen_case(rng, maxlen):
    nid = rng.randint(1, 3)
    if nid > 1 and rng.random() < .35:
        fam = rng.choice(ID_FAMILIES)
        nid = min(nid, len(fam))
        idpool = rng.sample(fam, nid)
    else:
        idpool = rng.sample(ID_POOL, nid)
    nobj = rng.randint(nid, nid + 2)
    pool = [[i, j + 1] for j, i in enumerate(idpool)]
    while len(pool) < nobj:
        pool.append([rng.choice(idpool), len(pool) + 1])
    rng.shuffle(pool)
    ids = idpool + [rng.choice([i for i in ID_POOL if i not in idpool])]
    ncell = len(pool)          # grows when lookups return new objects; indices beyond are never generated
    ops = []
    L = rng.randint(3, maxlen)
    nextval = 10
    pfault = rng.choice([0, 0, .15, .4])
    transport = "noretry" if pfault and rng.random() < .5 else "default"
    for _ in range(L):
        kind = rng.choices(["add", "get", "modify", "commit", "update", "discard", "cid", "cobj", "len", "iter",
                            "extput", "extdel", "updatec", "commitc"], [18, 12, 11, 12, 6, 10, 3, 2, 3, 5, 10, 5, 5, 5])[0]
        x = rng.randrange(ncell)
        if kind in ("get", "iter"):
            ncell += 1 if kind == "get" else 2
        if kind in ("add", "commit", "update", "cobj"):
            op = [kind, x]
        elif kind == "modify":
            nextval += 1
            # one of the object's two parts; sometimes the optional part is removed (set to None)
            op = [kind, x, ABSENT_PART if rng.random() < .12 else nextval, rng.randrange(2)]
        elif kind in ("updatec", "commitc"):
            op = [kind, x, rng.randrange(2)]                  # through the nested element carrying that part
        elif kind == "discard":
            op = [kind, x, rng.randrange(2)]
        elif kind in ("get", "cid", "extdel"):
            op = [kind, rng.choice(ids)]
        elif kind == "extput":
            nextval += 1
            # the second actor changes - or removes - one part of the document
            op = [kind, rng.choice(idpool), ABSENT_PART if rng.random() < .3 else nextval, rng.randrange(2)]
        else:
            op = [kind]
        if rng.random() < .04:
            ops.append([["gc"], None])
        fault = None
        if kind in REQ_COUNT and rng.random() < pfault:
            fault = [rng.randrange(REQ_COUNT[kind]) if rng.random() < .6 else 0, list(rng.choice(FAULTS))]
            if rng.random() < .3:
                fault[1] = list(LOST)
        ops.append([op, fault])
    case = {"pool": pool, "ops": ops}
    if transport != "default":
        case["transport"] = transport
    return case


def gen_scenario(rng):
    """scripted histories around the two ways of losing a write: (1) calls that do not synchronise a replica
    (in, len, iteration of other documents) between the second actor's write and a commit / safe delete;
    (2) carrying on with an object after a failed discard"""
    idpool = rng.sample(ID_POOL, 2)
    a, b = idpool
    pool = [[a, 1], [a, 2], [b, 3]]
    ops = [[["add", 0], None]]
    if rng.random() < .5:
        ops.append([["add", 2], None])
    if rng.random() < .4:
        ops.append([["get", a], None])
    v = 20
    r0 = rng.random()
    if r0 < .12:
        # (7) the second actor REMOVES an optional part of a document with a live replica; lookup / update() /
        #     iteration must show the removal, and the next commit must not write the old value back
        p = rng.randrange(2)
        ops += [[["extput", a, ABSENT_PART, p], None],
                [rng.choice([["update", 0], ["updatec", 0, p], ["get", a], ["iter"]]), None],
                [["modify", 0, v, 1 - p], None], [rng.choice([["commit", 0], ["commitc", 0, 1 - p]]), None],
                [["get", a], None], [["extput", a, v + 1, p], None], [["update", 0], None], [["len"], None]]
        return {"pool": pool, "ops": ops}
    if r0 < .24:
        # (8) garbage collector runs at arbitrary points while every replica is still referenced: second lookup of
        #     a live replica (its decoded temporary is garbage), gc, then commit / safe delete
        ops += [[["get", a], None], [["gc"], None], [["get", a], None], [["iter"], None], [["gc"], None],
                [["modify", 0, v, rng.randrange(2)], None],
                [rng.choice([["commit", 0], ["commitc", 0, 0], ["discard", 0, 1]]), None], [["gc"], None],
                [["get", a], None], [["len"], None]]
        return {"pool": pool, "ops": ops}
    if rng.random() < .15:
        # (6) identifiers in prefix relation: discarding one document must not touch what the client knows about the
        #     others - their up-to-date replicas stay committable / safely deletable
        fam = rng.choice(ID_FAMILIES)
        short, long1, long2 = fam[0], *rng.sample(fam[1:], 2)
        if rng.random() < .25:
            short, long1 = long1, short
        pool = [[short, 1], [long1, 2], [long2, 3]]
        ops = [[["add", t], None] for t in rng.sample([0, 1, 2], 3)]
        if rng.random() < .4:
            ops += [[["extput", long1, v, rng.randrange(2)], None], [rng.choice([["update", 1], ["get", long1]]), None]]
        ops.append([["discard", 0, rng.randrange(2)], None])
        ops.append([["modify", 1, v + 1, 0], None])
        ops.append([rng.choice([["commit", 1], ["commitc", 1, 0], ["discard", 1, 1]]), None])
        ops += [[["get", long1], None], [rng.choice([["discard", 2, 1], ["commit", 2]]), None], [["len"], None], [["iter"], None]]
        return {"pool": pool, "ops": ops}
    r3 = rng.random()
    if r3 < .18:
        # (4) a long life of ONE document (well beyond ten revisions: CouchDB revisions are "<generation>-<hash>",
        #     10-... sorts before 9-... as a string), both actors writing in turn; every commit / safe delete
        #     from an up-to-date replica must keep being accepted, every stale one refused
        for _ in range(rng.randint(8, 13)):
            v += 1
            ops += rng.choice([
                [[["modify", 0, v, rng.randrange(2)], None], [["commit", 0], None]],
                [[["extput", a, v, rng.randrange(2)], None], [["update", 0], None]],
                [[["extput", a, v, rng.randrange(2)], None], [["get", a], None]],
                [[["extput", a, v, rng.randrange(2)], None], [["commit", 0], None], [["updatec", 0, 0], None]],
                [[["modify", 0, v, 0], None], [["commitc", 0, 0], None], [["get", a], None]],
                [[["discard", 0, rng.randrange(2)], None], [["add", 0], None]],
                [[["extdel", a], None], [["add", 0], None]],
            ])
        ops += [[["modify", 0, v + 1, 1], None], [["commit", 0], None], [["get", a], None],
                [rng.choice([["discard", 0, 1], ["len"]]), None]]
        return {"pool": pool, "ops": ops}
    if r3 < .3:
        # (5) the replica returns to a payload it has committed before (A, B, A): the commit of A must reach the
        #     server again; a stale replica must be refused even if it has not changed since its last commit
        ops += [[["modify", 0, v, 0], None], [["commit", 0], None]]                      # A
        if rng.random() < .5:
            ops += [[["extput", a, v + 1, 0], None], [["update", 0], None]]             # B (second actor), seen
        else:
            ops += [[["modify", 0, v + 1, 0], None], [["commit", 0], None]]             # B (this client)
        ops += [[["modify", 0, v, 0], None], [rng.choice([["commit", 0], ["commitc", 0, 0]]), None], [["get", a], None]]
        ops += [[["extput", a, v + 2, rng.randrange(2)], None], [["commit", 0], None],   # unchanged but stale
                [["get", a], None], [["update", 0], None], [["commit", 0], None], [["len"], None]]
        return {"pool": pool, "ops": ops}
    r3 = rng.random()
    if r3 < .3:
        # (3) the second actor changes one part, the client refreshes through (an element of) the other part,
        #     changes it and commits: both changes must survive, or the commit must be refused
        pe, pc = rng.sample([0, 1], 2) if rng.random() < .8 else [rng.randrange(2)] * 2
        ops.append([["extput", a, v, pe], None])
        ops.append([rng.choice([["updatec", 0, pc], ["updatec", 0, pe], ["update", 0], ["get", a]]), None])
        ops.append([["modify", 0, v + 1, pc], None])
        ops.append([rng.choice([["commitc", 0, pc], ["commit", 0]]), None])
        ops += [[["get", a], None], [["updatec", 0, pe], None]]
    elif r3 < .65:
        # (1)
        ops.append([["extput", a, v], None])
        for _ in range(rng.randint(1, 4)):
            ops.append([rng.choice([["cid", a], ["cobj", 0], ["len"], ["cid", b], ["cobj", 1], ["get", b], ["update", 2]]), None])
        ops.append([["modify", 0, v + 1], None])
        ops.append([rng.choice([["commit", 0], ["discard", 0, 1]]), None])
        ops += [[["get", a], None], [["len"], None]]
        if rng.random() < .5:
            ops += [[["update", 0], None], [["modify", 0, v + 2], None], [["commit", 0], None], [["get", a], None]]
    else:
        # (2)
        how = rng.randrange(3)
        if how == 0:
            ops += [[["extput", a, v], None], [["discard", 0, 1], None]]                 # stale safe delete: 409
        elif how == 1:
            ops.append([["discard", 0, 1], [0, list(rng.choice(FAULTS))]])             # safe delete, DELETE faulted
        else:
            ops.append([["discard", 0, 0], [rng.randrange(2), list(rng.choice(FAULTS))]])  # HEAD or DELETE faulted
        ops += [[["modify", 0, v + 1], None], [["commit", 0], None], [["update", 0], None],
                [["modify", 0, v + 2], None], [["commit", 0], None], [["get", a], None], [["cobj", 0], None]]
    for _ in range(rng.randint(0, 3)):
        ops.append([rng.choice([["len"], ["iter"], ["get", a], ["commit", 0], ["discard", 0, rng.randrange(2)],
                                ["add", 1], ["extdel", a]]), None])
    return {"pool": pool, "ops": ops}


def fault_matrix():
    """every operation kind x every request position x every fault, in a state where the operation would
    otherwise succeed, followed by calls that show whether anything changed"""
    cases = []
    pool = [["x/y z", 1], ["é", 2], ["x/y z", 3]]
    prefix = [[["add", 0], None], [["add", 1], None], [["get", "é"], None], [["modify", 0, 5], None]]
    targets = {"add": ["add", 2], "get": ["get", "x/y z"], "commit": ["commit", 0], "update": ["update", 1],
               "discard": ["discard", 0, 0], "safe-discard": ["discard", 1, 1], "cid": ["cid", "é"],
               "cobj": ["cobj", 0], "len": ["len"], "iter": ["iter"], "child-update": ["updatec", 0, 1],
               "child-commit": ["commitc", 0, 0]}
    for name, op in targets.items():
        nreq = {"discard": 2, "iter": 3}.get(name, 1)
        for pos in range(nreq):
            for ft in FAULTS:
                pre = list(prefix)
                if name == "add":
                    pre = pre + [[["discard", 0, 0], None]]
                cases.append({"pool": pool, "ops": pre + [[op, [pos, list(ft)]], [["len"], None], [["iter"], None],
                                                          [op, None], [["get", "x/y z"], None]]})
            # answer lost after processing, on the module's pool and on one without urllib3's own repetitions
            for ft, tr in ((("drop",), "noretry"), (LOST, "noretry"), (LOST, "default")):
                pre = list(prefix) + ([[["discard", 0, 0], None]] if name == "add" else [])
                cases.append({"pool": pool, "transport": tr,
                              "ops": pre + [[op, [pos, list(ft)]], [["len"], None], [["iter"], None],
                                            [op, None], [["get", "x/y z"], None], [["update", 0], None],
                                            [["modify", 0, 6], None], [["commit", 0], None]]})
    return cases


# ------------------------------------------------------------------ Coq side

def cstr(s):
    b = s.encode("utf-8")
    if all(32 <= c < 127 for c in b):
        return common.coq_str(s)
    return "(sofz " + coq_list(str(c) for c in b) + ")"


PRELUDE = """From Coq Require Import List ZArith String.
From Basyx Require Import model.Couch model.CouchObs.
Open Scope string_scope.
Definition n := Z.to_nat.
Definition oAdd x := Add (n x).
Definition oGet i := GetId i.
Definition oMod x v := Modify (n x) (n v).
Definition oCom x := Commit (n x).
Definition oUpd x := Update (n x).
Definition oDis x s := Discard (n x) (Z.eqb s 1).
Definition oCI i := ContainsId i.
Definition oCO x := ContainsObj (n x).
Definition oXP i v := ExtPut i (n v).
Definition oXD i := ExtDel i.
Definition oUpC x := UpdateChild (n x).
Definition oCoC x := CommitChild (n x).
Definition nf (o : op) : op * fspec := (o, None).
Definition fs (o : op) (k c : Z) : op * fspec := (o, Some (n k, FStatus (n c))).
Definition fg (o : op) (k : Z) : op * fspec := (o, Some (n k, FGarbage)).
Definition fd (o : op) (k : Z) : op * fspec := (o, Some (n k, FDropPool)).
Definition flp (o : op) (k : Z) : op * fspec := (o, Some (n k, FLostPool)).
Definition fdp (o : op) (k : Z) : op * fspec := (o, Some (n k, FDrop TProto)).
Definition fl (o : op) (k : Z) : op * fspec := (o, Some (n k, FLost TProto)).
Definition case (pool : list (string * Z)) (ops : list (op * fspec)) (h : Z) :=
  (map (fun p => (fst p, n (snd p))) pool, ops, h)."""


def coq_op(op):
    k = op[0]
    if k == "add":
        return f"oAdd {op[1]}"
    if k == "get":
        return f"oGet {cstr(op[1])}"
    if k == "modify":
        return f"oMod {op[1]} {op[2]}"
    if k == "commit":
        return f"oCom {op[1]}"
    if k == "update":
        return f"oUpd {op[1]}"
    if k == "discard":
        return f"oDis {op[1]} {op[2]}"
    if k == "cid":
        return f"oCI {cstr(op[1])}"
    if k == "cobj":
        return f"oCO {op[1]}"
    if k == "len":
        return "Len"
    if k == "iter":
        return "Iter"
    if k == "extput":
        return f"oXP {cstr(op[1])} {op[2]}"
    if k == "extdel":
        return f"oXD {cstr(op[1])}"
    raise ValueError(op)


def coq_step(op, fault, rows, ids, noretry=False):
    """rows: the SDK's observation after this call - the model is told the resulting payload token of a `modify`
    (the changed object's) and of an `extput` (the document's), since the token stands for all parts"""
    if op[0] == "modify":
        r = rows[1 + len(ids) + op[1]] if len(rows) > 1 + len(ids) + op[1] and rows[0][:2] != [6, 9] else [24, 0, 0]
        o = f"oMod {op[1]} {r[1]}"
    elif op[0] == "extput":
        r = rows[1 + ids.index(op[1])] if len(rows) > 1 else [20, 0, 0, 0, -1]
        o = f"oXP {cstr(op[1])} {r[3]}"
    elif op[0] == "updatec":
        o = f"oUpC {op[1]}"
    elif op[0] == "commitc":
        o = f"oCoC {op[1]}"
    else:
        o = coq_op(op)
    if not fault:
        return f"nf ({o})"
    pos, ft = fault
    if ft[0] == "status":
        return f"fs ({o}) {pos} {ft[1]}"
    if ft[0] == "garbage":
        return f"fg ({o}) {pos}"
    if ft[0] == "lost":
        return f"fl ({o}) {pos}" if noretry else f"flp ({o}) {pos}"
    return f"fdp ({o}) {pos}" if noretry else f"fd ({o}) {pos}"


def coq_parts(case, trace):
    ids = [i for i, _ in case["pool"]]
    pool = coq_list(f"({cstr(i)}, {total(v, 0)})" for i, v in case["pool"])
    calls = [(o, f) for o, f in case["ops"] if o[0] != "gc"]
    ops = coq_list(coq_step(o, f, rows, ids, case.get("transport") == "noretry") for (o, f), rows in zip(calls, trace))
    return pool, ops


def coq_case(case, trace):
    pool, ops = coq_parts(case, trace)
    return f"(case {pool} {ops} {coq_z(common.zhash_d(trace, 3))})"


def model_trace(case, trace):
    pool, ops = coq_parts(case, trace)
    return common.coq_eval(TAG, PRELUDE, f"let pool := map (fun p => (fst p, n (snd p))) {pool} in "
                                           f"trace (map fst pool) (init pool) {ops}")


def shrink_ops(case, pred, budget=60):
    cur = dict(case)
    changed = True
    while changed and budget > 0:
        changed = False
        for i in range(len(cur["ops"])):
            cand = dict(cur, ops=cur["ops"][:i] + cur["ops"][i + 1:])
            budget -= 1
            if cand["ops"] and pred(cand):
                cur, changed = cand, True
                break
            if budget <= 0:
                break
    return cur


def valid(case):
    return True


# ------------------------------------------------------------------ the check

def run(chk):
    rng = chk.rng
    quick = chk.tier == "quick"
    nseq, maxlen = (2500, 12) if quick else (12000, 16)
    chk.theorems("props.C16", THEOREMS, ["theories/props/C16.vo", "theories/model/CouchObs.vo"])
    cases = []
    corpus = os.path.join(common.VERIF, "corpus", "C16")
    if os.path.isdir(corpus):
        for fn in sorted(os.listdir(corpus)):
            cases.append(json.load(open(os.path.join(corpus, fn))))
    fm = fault_matrix()
    cases += fm
    chk.cov["fault_matrix"] = f"{len(fm)} directed cases: 12 operations x request position x 9 faults, + dropped / lost answer on a pool without repetitions"
    for j in range(nseq):
        cases.append(gen_scenario(rng) if j % 4 == 3 else gen_case(rng, maxlen))
    chk.cov["scripted_scenarios"] = (f"{nseq // 4} histories: non-synchronising calls between the second actor's write "
                                     "and a commit / safe delete; carrying on with an object after a failed discard")
    try:
        terms = []
        reported = set()
        for case in cases:
            trace, fail = run_sdk(case)
            if fail and fail[1] == "hang":
                chk.count("oracle_failures")
                chk.fail("C16:hang:no-termination", fail[3], {"case": case, "how": "tools/c16.py run_sdk(case)"})
                chk.cov["stopped_early"] = f"after {len(terms)} of {len(cases)} cases: an SDK call hung"
                cases = cases[:len(terms)]
                break
            ops = case["ops"]
            chk.seen(case, nontrivial=len(ops) >= 3)
            chk.count(f"len={min(len(ops), 16)}")
            chk.count("op=gc", sum(1 for o, _ in ops if o[0] == "gc"))
            for (o, f), t in zip([(o, f) for o, f in ops if o[0] != "gc"], trace):
                chk.count("op=" + o[0])
                if f:
                    chk.count("fault=" + "-".join(str(z) for z in f[1]))
                    chk.count("faulted_requests")
                code = t[0][0]
                chk.count("out=" + ({0: "None", 1: "object", 3: "bool", 4: "int", 5: "list"}.get(code) or
                                    "exc-" + {1: "KeyError", 2: "Connection", 3: "Response", 4: "Server", 5: "Conflict",
                                              6: "Source", 9: "(no such object: call not made)"}.get(t[0][1] if len(t[0]) > 1 else -1, "other")))
            if fail:
                chk.count("oracle_failures")
                sig0 = f"C16:{fail[1]}:{fail[2]}"
                if sig0 not in reported and len(reported) < 8:
                    reported.add(sig0)
                    small = shrink_ops(case, lambda c: valid(c) and (run_sdk(c)[1] or (0, 0, 0))[1:3] == fail[1:3])
                    again = run_sdk(small)[1]
                    if again is None:       # not reproducible in isolation (e.g. depends on a garbage collector run)
                        small, again = case, fail
                    k, kind, code, msg = again
                    chk.fail(f"C16:{kind}:{code}", msg, {"case": small, "failing_step": k,
                                                         "how": "tools/c16.py run_sdk(case) -> (trace, failure)"})
            terms.append(coq_case(case, trace))
            if len(chk.samples) < 4 and len(ops) >= 8 and any(f for _, f in ops) and any(o[0] == "extput" for o, _ in ops):
                chk.samples.append({"case": case, "sdk_observation_last_step": trace[-1]})
        # identifiers: _transform_id on its own
        from basyx.aas.backend.couchdb import CouchDBObjectStore
        qin = ["a" + chr(c) + "b" for c in range(0, 0x180)] + ID_POOL + ["", "€", "\U0001f600x y", ".", "..", "...", "%2E"]
        alphabet = [chr(c) for c in list(range(0x20, 0x7f)) + [0xe9, 0x20ac, 9, 10]]
        for _ in range(300 if quick else 3000):
            qin.append("".join(rng.choice(alphabet) for _ in range(rng.randint(0, 8))))
        qterms = ["(" + coq_list(str(c) for c in s.encode("utf-8")) + ", "
                  + coq_list(str(c) for c in CouchDBObjectStore._transform_id(s).encode("utf-8")) + ")" for s in qin]
        chk.count("quote_inputs", len(qin))
        # the excluded identifier class (known finding)
        for ident, err in probe_reserved():
            if err:
                chk.fail("C16:add:reserved-id", f"an Identifiable whose id starts with an underscore cannot be stored: {err}",
                         {"id": ident, "how": "tools/c16.py probe_reserved()"})
        bad, errs = common.run_mismatch_shards(TAG, PRELUDE, terms, "check_case", shard=150)
        n1 = common.run_mismatch_shards.evaluated
        bad2, errs2 = common.run_mismatch_shards(TAG + "q", PRELUDE, qterms, "check_quote", shard=4000)
        chk.traces = n1 + common.run_mismatch_shards.evaluated - len(bad) - len(bad2)
        for e in errs + errs2:
            chk.tie_broken("correspondence-run", e)
        if bad:
            case = min((cases[i] for i in bad), key=lambda c: len(c["ops"]))
            for _ in range(20):
                cands = [dict(case, ops=case["ops"][:i] + case["ops"][i + 1:]) for i in range(len(case["ops"]))]
                cands = [c for c in cands if c["ops"] and valid(c)]
                if not cands:
                    break
                b, e = common.run_mismatch_shards(TAG + "s", PRELUDE, [coq_case(c, run_sdk(c)[0]) for c in cands],
                                                  "check_case", shard=400)
                if e or not b:
                    break
                case = cands[b[0]]
            tr, fail = run_sdk(case)
            chk.tie_broken("correspondence", {"n_disagreements": len(bad), "case": case, "sdk_trace": tr,
                                              "model_trace": model_trace(case, tr), "oracle_on_this_case": fail})
        if bad2:
            s = qin[bad2[0]]
            chk.tie_broken("correspondence-quote", {"n": len(bad2), "input": s, "sdk": CouchDBObjectStore._transform_id(s)})
    finally:
        env().close()
    chk.trusted = [
        "Coq 8.16.1 kernel (coqc; vm_compute for the Example and the correspondence; no native_compute)",
        "CouchDB's documented MVCC rules for documents, as written down in model/Couch.v:serve (the specification "
        "assumed) - a real CouchDB server is not exercised",
        "tools/fakes/couchdb_server.py: an independent implementation of the same rules, standing in for the server in "
        "the correspondence run; urllib3 over loopback only, no network",
        "hand-written client model coq/theories/model/Couch.v (+ CouchObs.v) tied to couchdb.py / base.py by this "
        "correspondence run; payloads abstracted to one token standing for all parts of the object (two nested Properties of a Submodel, id_short/category of the other kinds), revisions to their generation",
        "the harness keeps every object alive, so the WeakValueDictionary object cache behaves as a dict",
        "tools/c16.py (generator, SDK driver, second actor, canonicaliser, oracle), tools/common.py",
    ]
    chk.assumptions = ["the store URL contains no further 'http://' / 'https://' (generate_source replaces all occurrences)",
                       "documents are written only through the document API (by this client or a second actor that "
                       "obeys MVCC and writes well-formed AAS documents whose id equals the document id)",
                       "operations of the two actors are atomic with respect to each other (no interleaving inside "
                       "one SDK call)",
                       "a dropped connection is dropped either before the server processes the request or (fault 'lost', "
                       "run with a urllib3 pool without repetitions) after it has processed it"]
    chk.cov["level_scope"] = ("proof on the protocol model, PARTIAL: the server side of the theorems is CouchDB's documented "
                              "MVCC behaviour as a specification; a real CouchDB server and the network are not exercised "
                              "(the correspondence runs against a loopback fake)")
    return chk.finish(level="proof",
                      explanation="Theorems hold for the model client (couchdb.py, statement by statement) against a server that "
                                  "obeys CouchDB's documented document-API rules; the model client is compared with the real "
                                  "client on every run against a loopback fake of that API with fault injection. No real "
                                  "CouchDB, no network.",
                      rule="corpus, the fault matrix (12 operations x request position x 9 faults), then seeded random "
                           "histories of 3-12 (quick) / 3-16 (thorough) calls over 1-3 identifiers drawn from a pool with "
                           "'/', '?', '#', '%', spaces, tabs, non-ASCII, '.', '..', 1-5 local objects (several per id), a "
                           "second actor writing/deleting behind the SDK's back, and a fault on 0/15/40 % of the calls; "
                           "non-trivial = at least 3 calls; distinct by case")


def replay(path):
    r = json.load(open(path))
    rp = r.get("replay") or {}
    try:
        if "case" in rp:
            tr, fail = run_sdk(rp["case"])
            print("oracle:", fail)
            return 1 if fail else 0
        if "id" in rp:
            res = probe_reserved()
            print("probe:", res)
            return 1 if any(e for _, e in res) else 0
    finally:
        env().close()
    print(json.dumps(r, indent=1)[:3000])
    return 1
