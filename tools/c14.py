"""C14 - local-file store persists, refreshes and shares objects coherently.

Theorems: coq/theories/props/C14.v over model/LocalFile.v.
Tie C: (a) seeded histories of add/get/contains/len/iter/discard/commit/update/local edits/dropped
references/re-opened instances over two store instances on one scratch directory are run on the SDK
and on the model (vm_compute); after every step the answer, every live object (identity, id,
content, source), the directory and membership (by id and by live object, through every instance)
are compared.  (b) two real threads are driven through every
interleaving of the yield points of get/get, get/add and add/add on one instance (lock proxy,
wrapped json.load) and compared with the model's small-step semantics.
Property oracle (independent of the model): a Python dict as the persistent map, the rule that an
instance keeps handing out the replica it handed out before, and for threads: all calls and a later
get end up with one and the same object."""
import gc
import itertools
import json
import os
import threading

import common
import lf_common as L

THEOREMS = ["C14_persistent_map", "C14_get", "C14_update", "C14_add", "C14_add_fault", "C14_add_fault_transparent",
            "C14_add_fault_example", "C14_discard", "C14_identity_seq",
            "C14_identity_threads", "C14_pinned_get_refuted", "C14_split_add_refuted", "C14_example",
            "C14_threads_example", "C14_observer_during_write", "C14_observer_example",
            "C14_concurrent_commits", "C14_concurrent_commits_example"]

NKEYS = 4
CALL_LIMIT = 5.0     # seconds one step (an SDK call plus the probes after it) may take before it counts as a hang
KINDS = ["sm_small", "sm_props", "cd", "aas"]
NVARIANTS = 6


# how the store directory is named and reached: (absolute | relative to the working directory, name).
# The source URI is the directory path pasted behind "file://localhost/", so URL-significant characters
# and relative paths must survive the way to LocalFileBackend and back.
DIR_SHAPES = [("abs", "store"), ("abs", "plant#1"), ("rel", "rel_store"), ("abs", "what?really=1&x"),
              ("abs", "pct%20enc%2Fx%23"), ("rel", "./dot/rel#x"), ("abs", "with space"),
              ("abs", "\u00fcn\u00ef \u00e7\u00f8d\u00e9#?"), ("rel", "sub/deep?dir"), ("rel", "file:name;v=1")]


def ids_of(base):
    return [L.IDS[(base + i) % len(L.IDS)] for i in range(NKEYS)]


def _ref(name):
    from basyx.aas import model
    return model.ExternalReference((model.Key(model.KeyTypes.GLOBAL_REFERENCE, name),))


def set_optional_groups(el, v):
    """optional attributes that appear, change and disappear TOGETHER between versions: semantic id with its
    supplemental semantic ids (v mod 3: none | semantic id only | semantic id + two supplemental ids), qualifiers
    (odd v), extensions (v mod 4 < 2).  Assigned through the public attributes in an order that is valid at every
    intermediate step."""
    from basyx.aas import model
    if isinstance(el, model.HasSemantics):
        g = v % 3
        el.supplemental_semantic_id = []
        el.semantic_id = None if g == 0 else _ref("urn:sem:{}".format(v))
        if g == 2:
            el.supplemental_semantic_id = [_ref("urn:sup:{}:a".format(v)), _ref("urn:sup:{}:b".format(v))]
    if isinstance(el, model.Qualifiable):
        for q in list(el.qualifier):
            el.remove_qualifier_by_type(q.type)
        if v % 2 == 1:
            el.add_qualifier(model.Qualifier("q{}".format(v), model.datatypes.Int, v))
            el.add_qualifier(model.Qualifier("fixed", model.datatypes.String, "s{}".format(v)))
    if isinstance(el, model.HasExtension):
        for e in list(el.extension):
            el.remove_extension_by_name(e.name)
        if v % 4 < 2:
            el.add_extension(model.Extension("ext{}".format(v % 2), model.datatypes.String, "x{}".format(v)))


def apply_variant(obj, v):
    """in-place local modification of public attributes: the object's content becomes 'version v'"""
    from basyx.aas import model
    obj.id_short = "V{}".format(v)
    obj.category = "c{}".format(v)
    obj.description = model.MultiLanguageTextType({"en": "d{}".format(v)})
    set_optional_groups(obj, v)
    if isinstance(obj, model.Submodel):
        names = {e.id_short for e in obj.submodel_element}
        if "p0" in names:
            obj.get_referable("p0").value = v
            obj.get_referable("col").get_referable("inner").value = "in{}".format(v)
            set_optional_groups(obj.get_referable("p0"), v + 1)
            set_optional_groups(obj.get_referable("col").get_referable("inner"), v + 2)
        if v % 2 == 1 and "odd" not in names:
            obj.submodel_element.add(model.Property("odd", model.datatypes.Int, value=v))
        elif v % 2 == 1:
            obj.get_referable("odd").value = v
        elif "odd" in names:
            obj.submodel_element.remove(obj.get_referable("odd"))
    elif isinstance(obj, model.AssetAdministrationShell):
        obj.asset_information.global_asset_id = "urn:asset:{}".format(v)
    elif isinstance(obj, model.ConceptDescription):
        obj.is_case_of = {model.ExternalReference((model.Key(model.KeyTypes.GLOBAL_REFERENCE, "urn:ref:{}".format(v)),))}


def build(kind, idn, v):
    o = L.make_object(kind, idn, 0)
    apply_variant(o, v)
    return o


FAULT_POINTS = ["open", "write", "replace"]


class refused_write:
    """context manager: the file system refuses ONE step of a document write inside `directory` - point 0: opening a
    file for writing, 1: the write() into it, 2: os.replace() onto a name in it - with OSError(ENOSPC).  `hit` tells
    whether the fault was reached.  Reads and everything outside the directory are untouched."""

    def __init__(self, directory, point):
        self.root = os.path.realpath(directory)
        self.point = FAULT_POINTS[point % len(FAULT_POINTS)]
        self.hit = False

    def inside(self, path):
        try:
            return os.path.realpath(os.path.dirname(os.path.abspath(os.fspath(path)))) == self.root
        except TypeError:
            return False

    def err(self, path):
        import errno
        self.hit = True
        return OSError(errno.ENOSPC, os.strerror(errno.ENOSPC), os.fspath(path))

    def __enter__(self):
        import builtins
        self.saved = (builtins.open, os.replace)
        real_open, real_replace = self.saved
        me = self

        class RefusingFile:
            def __init__(self, f, name):
                self.f, self.name = f, name

            def __enter__(self):
                self.f.__enter__()
                return self

            def __exit__(self, *a):
                return self.f.__exit__(*a)

            def write(self, data):
                if not me.hit:
                    raise me.err(self.name)
                return self.f.write(data)

            def __getattr__(self, n):
                return getattr(self.f, n)

        def f_open(file, mode="r", *a, **k):
            if isinstance(file, (str, bytes, os.PathLike)) and any(c in mode for c in "wax+") and me.inside(file) \
                    and not me.hit:
                if me.point == "open":
                    raise me.err(file)
                if me.point == "write":
                    return RefusingFile(real_open(file, mode, *a, **k), file)
            return real_open(file, mode, *a, **k)

        def f_replace(src, dst, *a, **k):
            if me.point == "replace" and not me.hit and me.inside(dst):
                raise me.err(dst)
            return real_replace(src, dst, *a, **k)
        builtins.open, os.replace = f_open, f_replace
        return self

    def __exit__(self, *a):
        import builtins
        builtins.open, os.replace = self.saved
        return False


class World:
    """the SDK side of a history: two store instances on one scratch directory, the client's live
    objects (numbered like the model numbers them) and the reference dict of the oracle"""

    def __init__(self, idbase, dshape=0):
        from basyx.aas.backend import local_file
        self.lf = local_file
        self.base = L.scratch_dir("c14")
        self.cwd = None
        mode, name = DIR_SHAPES[dshape % len(DIR_SHAPES)]
        os.makedirs(os.path.join(self.base, name))
        if mode == "rel":
            self.cwd = os.getcwd()
            os.chdir(self.base)
            self.dir = name
        else:
            self.dir = os.path.join(self.base, name)
        self.ids = ids_of(idbase)
        self.bound = {}     # oracle: oid -> key the object is bound to by the history (None: unbound)
        self.stores = [local_file.LocalFileObjectStore(self.dir), local_file.LocalFileObjectStore(self.dir + "/")]
        self.live = {}      # oid -> object
        self.next = 0
        self.canon = {(k, v): L.canon(build(KINDS[k], self.ids[k], v)) for k in range(NKEYS) for v in range(NVARIANTS)}
        self.rev = {c: kv for kv, c in self.canon.items()}
        # oracle state
        self.M = {}         # id -> canonical content
        self.rep = {}       # (instance, key) -> oid last handed out / added
        self.fail = None

    def close(self):
        self.live.clear()
        if self.cwd is not None:
            os.chdir(self.cwd)
        L.rm_scratch(self.base)

    def stray_files(self):
        """files below the scratch base that are not inside the store directory"""
        root = os.path.realpath(os.path.join(self.base, self.dir) if self.cwd is not None else self.dir)
        res = []
        for dp, dn, fn in os.walk(self.base):
            for f in fn:
                if os.path.realpath(dp) != root:
                    res.append(os.path.relpath(os.path.join(dp, f), self.base))
        return res

    def tok(self, obj):
        kv = self.rev.get(L.canon(obj))
        return kv[1] if kv else 98

    def key_of(self, obj):
        return self.ids.index(obj.id) if obj.id in self.ids else 98

    def oid_of(self, obj):
        for o, x in self.live.items():
            if x is obj:
                return o
        return None

    def src_key(self, obj):
        if obj.source == "":
            return None
        name = obj.source.rsplit("/", 1)[-1]
        for k, i in enumerate(self.ids):
            if L.doc_name(i) == name:
                return k
        return 98

    def via(self, obj, x):
        """commit()/update() reach the document also through a contained element (base.py walks up to
        the ancestor that has a source): used for every second object that has nested elements"""
        from basyx.aas import model
        if x % 2 == 1 and isinstance(obj, model.Submodel) and any(e.id_short == "col" for e in obj.submodel_element):
            return obj.get_referable("col").get_referable("inner")
        return obj

    def flag(self, op, what, msg):
        if self.fail is None:
            self.fail = ("C14:{}:{}".format(op, what), msg)

    # ---- one op on the SDK; returns the encoded answer; runs the oracle
    def do(self, op):
        name = op[0]
        M = self.M
        if name == "New":
            _, k, v = op
            self.live[self.next] = build(KINDS[k], self.ids[k], v)
            self.bound[self.next] = None
            self.next += 1
            return [0]
        if name == "Add":
            _, i, x = op
            obj = self.live[x]
            k, v, c = self.key_of(obj), self.tok(obj), L.canon(obj)
            try:
                self.stores[i].add(obj)
            except KeyError:
                if obj.id not in M:
                    self.flag("add", "spurious-keyerror", "add of an id that is not stored raised KeyError")
                if self.src_key(obj) != self.bound.get(x):
                    self.flag("add", "rejected-object-bound", "a rejected add() changed the object's source to {!r}: "
                              "the object that was not stored is now bound to the stored document".format(
                                  obj.source.rsplit("/", 1)[-1]))
                return [2, k]
            if obj.id in M:
                self.flag("add", "duplicate-accepted", "add of an id that is already stored succeeded")
            M[obj.id] = c
            self.rep[(i, k)] = x
            self.bound[x] = k
            if obj.source == "":
                self.flag("add", "no-source", "added object has no source")
            return [1, k, v]
        if name == "AddFault":
            # add() while the file system refuses the write at point p.  Oracle: an add() that raised has not added -
            # the map, the object's binding and the instance's replicas are what they were (the checks after every
            # step compare the directory, every live object's source and membership with them).
            _, i, x, p = op
            obj = self.live[x]
            k, v, c = self.key_of(obj), self.tok(obj), L.canon(obj)
            with refused_write(self.dir, p) as fault:
                try:
                    self.stores[i].add(obj)
                except KeyError:
                    if obj.id not in M:
                        self.flag("add", "spurious-keyerror", "add of an id that is not stored raised KeyError")
                    return [2, k]
                except OSError as e:
                    if not fault.hit:
                        raise
                    if obj.id in M:
                        self.flag("add", "duplicate-reaches-write", "add of an id that is already stored got as far as "
                                                                    "writing the document")
                    if L.canon(obj) != c:
                        self.flag("add", "refused-add-changed-object", "an add() refused by the file system changed the "
                                                                       "object's content")
                    return [13, k]
            # the write did not pass the refused step (or swallowed the error): the add counts as done
            if obj.id in M:
                self.flag("add", "duplicate-accepted", "add of an id that is already stored succeeded")
            if fault.hit:
                self.flag("add", "write-error-swallowed", "the file system refused the write ({}) but add() returned "
                                                          "normally".format(fault.point))
            M[obj.id] = c
            self.rep[(i, k)] = x
            self.bound[x] = k
            return [1, k, v]
        if name == "Get":
            _, i, k = op
            idn = self.ids[k]
            try:
                obj = self.stores[i].get_identifiable(idn)
            except KeyError:
                if idn in M:
                    self.flag("get", "stored-id-keyerror", "get_identifiable of a stored id raised KeyError")
                return [5, k]
            if idn not in M:
                self.flag("get", "missing-id-returned", "get_identifiable of an id that is not stored returned an object")
            elif L.canon(obj) != M[idn]:
                self.flag("get", "stale-or-wrong-content", "object read back differs from what was added or last committed")
            o = self.oid_of(obj)
            want = self.rep.get((i, k))
            if want is not None and want in self.live and o != want:
                self.flag("get", "second-copy", "instance handed out another object although the replica it handed "
                                                "out before is alive and still bound to the document")
            if o is None:
                o = self.next
                self.next += 1
                self.live[o] = obj
            self.rep[(i, k)] = o
            self.bound[o] = k
            return [3, k, o, self.tok(obj)]
        if name == "Contains":
            _, i, k = op
            b = self.ids[k] in self.stores[i]
            if b != (self.ids[k] in M):
                self.flag("contains", "wrong", "membership answer differs from the persistent map")
            return [6, k, 1 if b else 0]
        if name == "Len":
            n = len(self.stores[op[1]])
            if n != len(M):
                self.flag("len", "wrong", "len() = {} but {} objects are stored".format(n, len(M)))
            return [7, n]
        if name == "Iter":
            objs = list(self.stores[op[1]])
            rows = []
            seen = {}
            for obj in objs:
                o = self.oid_of(obj)
                rows.append([self.key_of(obj), self.tok(obj), -1 if o is None else o])
                seen[obj.id] = L.canon(obj)
            if seen != M:
                self.flag("iter", "wrong", "iteration does not yield exactly the stored objects with their stored content")
            # one live replica per id also for objects obtained by iteration: the replica the instance handed out
            # before (and that the client still holds, bound) is the object iteration yields, and it is refreshed
            i = op[1]
            for obj in objs:
                k = self.key_of(obj)
                want = self.rep.get((i, k))
                if want is not None and want in self.live:
                    if obj is not self.live[want]:
                        self.flag("iter", "second-copy", "iteration handed out another object for an id although the replica "
                                                         "the instance handed out before is alive and still bound to the "
                                                         "document")
                    elif obj.id in M and L.canon(self.live[want]) != M[obj.id]:
                        self.flag("iter", "replica-not-refreshed", "after iterating, the live replica does not hold the "
                                                                   "stored state")
            for (ii, k), want in list(self.rep.items()):
                if ii == i and want in self.live and self.ids[k] in M and L.canon(self.live[want]) != M[self.ids[k]]:
                    self.flag("iter", "replica-not-refreshed", "after iterating, the live replica of a stored id does not "
                                                               "hold the stored state")
            obj = objs = None
            gc.collect()
            return [8] + [x for r in sorted(rows) for x in r]
        if name == "Discard":
            _, i, x = op
            obj = self.live[x]
            k = self.key_of(obj)
            try:
                self.stores[i].discard(obj)
            except KeyError:
                if obj.id in M:
                    self.flag("discard", "stored-id-keyerror", "discard of a stored id raised KeyError")
                return [5, k]
            if obj.id not in M:
                self.flag("discard", "missing-id-accepted", "discard of an id that is not stored succeeded")
            M.pop(obj.id, None)
            self.bound[x] = None
            for key in [kk for kk in self.rep if kk[1] == k]:
                del self.rep[key]
            if obj.source != "":
                self.flag("discard", "source-left", "discarded object still has a source")
            return [9, k]
        if name == "SetVal":
            apply_variant(self.live[op[1]], op[2])
            return [0]
        if name == "Commit":
            obj = self.live[op[1]]
            sk = self.src_key(obj)
            v, c = self.tok(obj), L.canon(obj)
            self.via(obj, op[1]).commit()
            bk = self.bound.get(op[1])      # the oracle's own reckoning, not the object's source attribute
            if bk is not None:
                M[self.ids[bk]] = c
            if sk is None:
                return [0]
            return [10, sk, v]
        if name == "Update":
            obj = self.live[op[1]]
            sk = self.src_key(obj)
            bk = self.bound.get(op[1])
            c0 = L.canon(obj)
            try:
                self.via(obj, op[1]).update()
            except (FileNotFoundError, KeyError):
                if bk is not None and self.ids[bk] in M:
                    self.flag("update", "stored-id-missing", "update() of an object whose document exists failed")
                return [5, sk if sk is not None else 98]
            if bk is None:
                if L.canon(obj) != c0:
                    self.flag("update", "unbound-object-changed", "update() changed an object that the history never "
                                                                  "bound to a document")
            elif self.ids[bk] not in M:
                self.flag("update", "vanished-document-read", "update() succeeded although the document is gone")
            elif L.canon(obj) != M[self.ids[bk]]:
                self.flag("update", "not-refreshed", "update() did not bring the live object to the stored state")
            if sk is None:
                return [0]
            return [11, sk, self.tok(obj)]
        if name == "ClearSource":
            self.live[op[1]].source = ""
            self.bound[op[1]] = None
            for key in [kk for kk, o in self.rep.items() if o == op[1]]:
                del self.rep[key]
            return [0]
        if name == "Drop":
            del self.live[op[1]]
            self.bound.pop(op[1], None)
            for key in [kk for kk, o in self.rep.items() if o == op[1]]:
                del self.rep[key]
            gc.collect()
            return [0]
        if name == "Reopen":
            i = op[1]
            self.stores[i] = self.lf.LocalFileObjectStore(self.dir if i == 0 else self.dir + "/")
            for key in [kk for kk in self.rep if kk[0] == i]:
                del self.rep[key]
            gc.collect()
            return [0]
        raise ValueError(op)

    def probe(self):
        heap = []
        for o in sorted(self.live):
            obj = self.live[o]
            sk = self.src_key(obj)
            heap += [o, self.key_of(obj), self.tok(obj)] + ([0] if sk is None else [1, sk])
        from basyx.aas.adapter.json import json_deserialization
        d = []
        names = {L.doc_name(i): k for k, i in enumerate(self.ids)}
        rows = []
        for n in os.listdir(self.dir):
            if n in names:
                with open(os.path.join(self.dir, n)) as f:
                    rows.append([names[n], self.tok(json.load(f, cls=json_deserialization.AASFromJsonDecoder)["data"])])
            else:
                rows.append([97, 0])
        for r in sorted(rows):
            d += r
        want = sorted([k, self.rev[c][1] if c in self.rev else 98] for k, c in
                      ((self.ids.index(i), c) for i, c in self.M.items()))
        if sorted(rows) != want:
            self.flag("directory", "differs-from-map", "the documents in the directory {} are not what was added or last "
                      "committed {} ([key, content] pairs)".format(sorted(rows), want))
        return heap, d

    def membership(self):
        """`id in store` for every id of the pool and `obj in store` for every live object, through EVERY
        instance; oracle: each answer is that of the persistent map"""
        by_id, by_obj = [], []
        for i, st in enumerate(self.stores):
            for k, idn in enumerate(self.ids):
                b = idn in st
                by_id.append(1 if b else 0)
                if b != (idn in self.M):
                    self.flag("contains", "by-id-wrong", "`id in store` through instance {} is {} but the id is {}stored "
                              "(membership is asked after every step through every instance)".format(
                                  i, b, "" if idn in self.M else "not "))
        for o in sorted(self.live):
            obj = self.live[o]
            row = [o]
            for i, st in enumerate(self.stores):
                b = obj in st
                row.append(1 if b else 0)
                if b != (obj.id in self.M):
                    self.flag("contains", "by-object-wrong", "`obj in store` through instance {} is {} but the id is "
                              "{}stored".format(i, b, "" if obj.id in self.M else "not "))
            by_obj += row
            if self.src_key(obj) != self.bound.get(o):
                self.flag("binding", "source-not-as-history-implies", "a live object's source names document {} but by the "
                          "history it is bound to {}".format(self.src_key(obj), self.bound.get(o)))
        stray = self.stray_files()
        if stray:
            self.flag("files", "outside-store-directory", "files appeared outside the store directory: {}".format(stray[:3]))
        return by_id, by_obj


# ---------------------------------------------------------------- history generation (on the fly)

def gen_op(rng, w):
    """next op, drawn against the live state so that most steps are applicable and hit stored ids /
    bound objects (the unbiased cases - missing ids, unbound objects, dead instances - stay in)"""
    live = sorted(w.live)
    r = rng.random()
    i = rng.randrange(2)
    # after a commit/update/get on one replica of an id: with some probability the next step works on ANOTHER live
    # replica of the same id (held through the other instance), without any refresh in between
    last = getattr(w, "last", None)
    if last is not None and rng.random() < 0.35:
        others = [x for x in live if x != last[1] and w.bound.get(x) == last[0]]
        if others and rng.random() < 0.6:
            x = rng.choice(others)
            return rng.choice([("Commit", x), ("Commit", x), ("Update", x), ("SetVal", x, rng.randrange(NVARIANTS))])
        # ... or the same id is retrieved / listed again right away (repeated retrievals with uncommitted local
        # modifications in between must come back refreshed)
        return rng.choice([("Get", i, last[0]), ("Get", i, last[0]), ("Iter", i), ("SetVal", last[1], rng.randrange(NVARIANTS))])
    refused = getattr(w, "refused", None)
    if refused is not None and refused in w.live and rng.random() < 0.3:
        # the object of an add() the file system refused: the application goes on working with it, another object is
        # stored under its id through either instance, the add is retried
        kk = w.key_of(w.live[refused])
        return rng.choice([("Commit", refused), ("Update", refused), ("SetVal", refused, rng.randrange(NVARIANTS)),
                           ("Add", i, refused), ("Get", i, kk), ("New", kk, rng.randrange(NVARIANTS)), ("Iter", i)])
    stored = [k for k in range(NKEYS) if w.ids[k] in w.M]
    k = rng.choice(stored) if stored and rng.random() < 0.75 else rng.randrange(NKEYS)
    if not live or (r < 0.09 and len(live) < 7):
        return ("New", rng.randrange(NKEYS), rng.randrange(NVARIANTS))
    bound = [x for x in live if w.live[x].source != ""]
    unbound = [x for x in live if w.live[x].source == ""]
    x = rng.choice(live)
    xb = rng.choice(bound) if bound and rng.random() < 0.8 else x
    xu = rng.choice(unbound) if unbound and rng.random() < 0.7 else x
    if r < 0.025:
        return ("AddFault", i, xu, rng.randrange(len(FAULT_POINTS)))
    if r < 0.22:
        return ("Add", i, xu)
    if r < 0.44:
        return ("Get", i, k)
    if r < 0.47:
        return ("Contains", i, k)
    if r < 0.50:
        return ("Len", i)
    if r < 0.56:
        return ("Iter", i)
    if r < 0.63:
        return ("Discard", i, xb)
    if r < 0.73:
        return ("SetVal", x, rng.randrange(NVARIANTS))
    if r < 0.83:
        return ("Commit", xb)
    if r < 0.91:
        return ("Update", xb)
    if r < 0.93:
        return ("ClearSource", x)
    if r < 0.97:
        return ("Drop", x)
    return ("Reopen", i)


def run_history(idbase, ops=None, rng=None, n=0, dshape=0):
    """runs given ops, or generates n ops on the fly.  Returns (ops, trace, fail)"""
    w = World(idbase, dshape)
    try:
        done, trace = [], []
        for t in range(len(ops) if ops is not None else n):
            op = tuple(ops[t]) if ops is not None else gen_op(rng, w)
            if op[0] in ("Add", "AddFault", "Discard", "SetVal", "Commit", "Update", "ClearSource", "Drop") and \
                    (op[2] if op[0] in ("Add", "AddFault", "Discard") else op[1]) not in w.live:
                continue        # (only when replaying a shrunk history) the op names a dead object
            try:
                with L.deadline(CALL_LIMIT):      # every step has its own time limit: a call that hangs is a failure
                    out = w.do(op)
            except L.Hang:
                w.flag(op[0].lower(), "does-not-return", "{} did not return within {} s".format(op, CALL_LIMIT))
                done.append(op)
                trace.append([[98], [], [], [], []])
                break
            except Exception as e:   # any undocumented exception
                w.flag(op[0].lower(), "exception-" + type(e).__name__, "{} raised {}: {}".format(op, type(e).__name__, e))
                out = [99, L.exc_code(e)]
            try:
                with L.deadline(CALL_LIMIT):
                    heap, d = w.probe()
                    by_id, by_obj = w.membership()
            except L.Hang:
                w.flag(op[0].lower(), "store-hangs-afterwards", "after {} the store's membership/listing did not answer "
                       "within {} s".format(op, CALL_LIMIT))
                done.append(op)
                trace.append([out, [], [], [], []])
                break
            done.append(op)
            trace.append([out, heap, d, by_id, by_obj])
            # which replica of which id was just worked on (for the generator's follow-up on another replica)
            w.last = None
            if op[0] in ("Commit", "Update", "SetVal") and w.bound.get(op[1]) is not None:
                w.last = (w.bound[op[1]], op[1])
            elif op[0] == "Get" and out[0] == 3:
                w.last = (out[1], out[2])
            elif op[0] == "Add" and out[0] == 1:
                w.last = (out[1], op[2])
            elif op[0] == "AddFault" and out[0] == 13:
                w.refused = op[2]       # the generator comes back to the object of a refused add
            if w.fail and ops is None:
                break
        return done, trace, (w.fail, len(done) - 1) if w.fail else None
    finally:
        w.close()


def coq_op(op):
    n = op[0]
    args = " ".join("{}%nat".format(a) for a in op[1:])
    return "({} {})".format(n, args)


PRELUDE = ("From Coq Require Import List ZArith.\nFrom Basyx Require Import model.LocalFile model.LocalFileObs.\n"
           "Open Scope nat_scope.")


def coq_case(ops, trace):
    return "({}, {})".format(common.coq_list(coq_op(o) for o in ops), common.coq_z(common.zhash_d(trace, 3)))


def shrink_ops(ops, pred):
    cur = list(ops)
    changed = True
    while changed:
        changed = False
        for i in range(len(cur)):
            cand = cur[:i] + cur[i + 1:]
            if cand and pred(cand):
                cur = cand
                changed = True
                break
    return cur


# ---------------------------------------------------------------- threads

STEPS = {"get": 4, "add": 3}


def run_threads(idbase, pre, progs, sched, dshape=0):
    """pre: sequential ops; progs: [("get",) | ("add", oid)] for thread 0 and 1, both on instance 0
    and key 1; sched: list of 0/1.  Returns (obs, fail)."""
    w = World(idbase, dshape)
    S = L.Sched(timeout=2 * CALL_LIMIT)
    key = 1
    lf = w.lf
    real_load = json.load
    try:
        for op in pre:
            w.do(tuple(op))
        store = w.stores[0]

        class LockProxy:
            def __init__(self):
                self.l = threading.Lock()
                self.owner = None

            def __enter__(self):
                S.point("lock")
                self.l.acquire()
                self.owner = threading.get_ident()

            def __exit__(self, *a):
                self.owner = None
                self.l.release()
                S.point("unlocked")
                return False
        lp = LockProxy()
        store._object_cache_lock = lp

        def load(*a, **k):
            r = real_load(*a, **k)
            if lp.owner != threading.get_ident():
                S.point("loaded")
            return r
        json.load = load
        res = {}
        order = []

        def worker(tid, prog):
            S.register(tid)
            S.point("start")
            try:
                if prog[0] == "get":
                    res[tid] = ("obj", store.get_identifiable(w.ids[key]))
                else:
                    store.add(w.live[prog[1]])
                    res[tid] = ("added", w.live[prog[1]])
            except KeyError:
                res[tid] = ("keyerror",)
            except BaseException as e:   # noqa
                res[tid] = ("exc", repr(e))
            finally:
                S.finish()
        ts = [threading.Thread(target=worker, args=(t, progs[t]), daemon=True) for t in (0, 1)]
        for t in ts:
            t.start()
        try:
            for tid in sched:
                lab = S.step(tid)
                if lab == "lock":
                    order.append(tid)
            for tid in (0, 1):
                while S.step(tid) is not None:
                    pass
        finally:
            json.load = real_load
        for t in ts:
            t.join(20)
        store._object_cache_lock = threading.Lock()
        # number new objects in the order of the critical sections that created them
        enc = {}
        for tid in order:
            r = res[tid]
            if r[0] == "obj" and w.oid_of(r[1]) is None:
                w.live[w.next] = r[1]
                w.next += 1
        for tid in (0, 1):
            r = res[tid]
            prog = progs[tid]
            if r[0] == "obj":
                enc[tid] = [3, key, w.oid_of(r[1]), w.tok(r[1])]
            elif r[0] == "added":
                enc[tid] = [1, key, w.tok(r[1])]
            elif r[0] == "keyerror":
                enc[tid] = [5, key] if prog[0] == "get" else [2, key]
            else:
                enc[tid] = [99]
        # oracle: one replica
        handed = [r[1] for r in (res[0], res[1]) if r[0] in ("obj", "added")]
        fail = None
        pname = "/".join(p[0] for p in progs)
        if any(r[0] == "exc" for r in res.values()):
            fail = ("C14:threads:{}:exception".format(pname), "a call raised {}".format([r for r in res.values() if r[0] == "exc"]))
        if len(handed) == 2 and handed[0] is not handed[1]:
            fail = ("C14:threads:{}:two-replicas".format(pname),
                    "two threads on one instance ended up with two different live objects for one id")
        if progs[0][0] == "add" and progs[1][0] == "add" and res[0][0] == "added" and res[1][0] == "added":
            fail = ("C14:threads:add/add:duplicate-accepted", "two concurrent add() of one id both succeeded")
        for r in (res[0], res[1]):
            if r[0] == "added":
                w.M[r[1].id] = L.canon(r[1])
        final = w.do(("Get", 0, key))
        if final[0] == 3 and handed and w.live[final[2]] is not handed[-1] and fail is None:
            fail = ("C14:threads:{}:later-get-second-copy".format(pname),
                    "a later get returned another object than the one handed out to a thread that still holds it")
        if w.fail and fail is None:
            fail = w.fail
        heap, d = w.probe()
        by_id, by_obj = w.membership()
        if w.fail and fail is None:
            fail = w.fail
        return [enc[0], enc[1], final, heap, d, by_id, by_obj], fail
    finally:
        json.load = real_load
        w.close()


SCENARIOS = [
    ("doc stored via the other instance, cache empty", [("New", 1, 2), ("Add", 1, 0)]),
    ("live replica cached", [("New", 1, 2), ("Add", 0, 0)]),
    ("cached object with cleared source", [("New", 1, 2), ("Add", 0, 0), ("ClearSource", 0)]),
    ("stale live replica (document changed through the other instance)",
     [("New", 1, 2), ("Add", 0, 0), ("Get", 1, 1), ("SetVal", 1, 5), ("Commit", 1)]),
    ("document absent, two unstored objects", [("New", 1, 3), ("New", 1, 4)]),
]


def thread_cases(tier):
    cases = []
    for si, (desc, pre) in enumerate(SCENARIOS):
        nobj = sum(1 for o in pre if o[0] == "New") + sum(1 for o in pre if o[0] == "Get")
        combos = [(("get",), ("get",))]
        if si == 4:
            combos = [(("get",), ("add", 0)), (("add", 0), ("add", 1)), (("add", 0), ("add", 0)), (("get",), ("get",))]
        elif si in (0, 1) and tier == "thorough":
            combos.append((("get",), ("add", 0)))
        for progs in combos:
            n0, n1 = STEPS[progs[0][0]], STEPS[progs[1][0]]
            for pos in itertools.combinations(range(n0 + n1), n0):
                sched = [0 if t in pos else 1 for t in range(n0 + n1)]
                cases.append((si, pre, progs, sched))
    return cases


def coq_prog(p):
    return "TGet" if p[0] == "get" else "(TAdd {}%nat)".format(p[1])


def coq_sched_case(pre, progs, sched, obs):
    return "({}, {}, 0%nat, 1%nat, {}, {}, {})".format(
        coq_prog(progs[0]), coq_prog(progs[1]), common.coq_list(coq_op(o) for o in pre),
        common.coq_list("true" if t else "false" for t in sched), common.coq_z(common.zhash_d(obs, 2)))


# ---------------------------------------------------------------- a writer observed at every pause point

WRITER_SCENARIOS = [
    ("add next to a stored neighbour", [("New", 0, 1), ("Add", 0, 0), ("New", 1, 2)], ("Add", 0, 1)),
    ("add into an empty store", [("New", 1, 2)], ("Add", 0, 0)),
    ("rejected duplicate add", [("New", 1, 2), ("Add", 1, 0), ("New", 1, 3)], ("Add", 0, 1)),
    ("commit of a locally changed object", [("New", 1, 2), ("Add", 0, 0), ("New", 2, 1), ("Add", 1, 1), ("SetVal", 0, 5)],
     ("Commit", 0)),
    ("commit through the other instance's replica", [("New", 1, 2), ("Add", 0, 0), ("Get", 1, 1), ("SetVal", 1, 3)],
     ("Commit", 1)),
    ("commit after the document was discarded elsewhere",
     [("New", 1, 2), ("Add", 0, 0), ("Get", 1, 1), ("Discard", 1, 1), ("SetVal", 0, 4)], ("Commit", 0)),
    ("commit of an unbound object", [("New", 1, 2), ("Add", 0, 0), ("New", 1, 4)], ("Commit", 1)),
]
# pause points a write passes (cf. the effect lists of model/Crash.v: exists, encode, open/write/close of the
# temporary file, replace)
PAUSES = {"add": ["start", "exists", "encode", "open", "opened", "replace", "replaced"],
          "add-dup": ["start", "exists"],
          "commit": ["start", "encode", "open", "opened", "replace", "replaced"],
          "commit-unbound": ["start"]}


def run_writer(idbase, dshape, pre, wop):
    """One writer thread performs `wop` on the SDK and is parked before os.path.exists, before the
    encoder, before and after opening the temporary file, before and after os.replace.  At every
    pause every read view (len, iteration, membership, lookup) is taken through a third instance,
    through a freshly opened instance and (lock-free views) through the writer's instance.
    Oracle: at each pause all views show one and the same state, which is the persistent-dict
    reference either before or after the write, and never goes back.  Returns (labels, kind, fail)."""
    import builtins
    w = World(idbase, dshape)
    S = L.Sched(timeout=2 * CALL_LIMIT)
    saved = (os.path.exists, json.dumps, builtins.open, os.replace)
    try:
        for op in pre:
            w.do(tuple(op))
        before = dict(w.M)
        obj = w.live[wop[2] if wop[0] == "Add" else wop[1]]
        if wop[0] == "Add":
            kind = "add-dup" if obj.id in before else "add"
            after = dict(before) if obj.id in before else dict(before, **{obj.id: L.canon(obj)})
        else:
            bk = w.bound.get(wop[1])
            kind = "commit" if bk is not None else "commit-unbound"
            after = dict(before) if bk is None else dict(before, **{w.ids[bk]: L.canon(obj)})
        root = os.path.realpath(w.dir)

        def inside(path):
            try:
                return os.path.realpath(os.path.dirname(os.fspath(path))) == root
            except TypeError:
                return False

        def p_exists(path):
            if inside(path):
                S.point("exists")
            return saved[0](path)

        def p_dumps(o, *a, **k):
            if k.get("cls") is not None:
                S.point("encode")
            return saved[1](o, *a, **k)

        def p_open(file, mode="r", *a, **k):
            if isinstance(file, (str, bytes, os.PathLike)) and any(c in mode for c in "wax+") and inside(file):
                S.point("open")
                f = saved[2](file, mode, *a, **k)
                S.point("opened")
                return f
            return saved[2](file, mode, *a, **k)

        def p_replace(a, b, **k):
            if inside(b):
                S.point("replace")
                r = saved[3](a, b, **k)
                S.point("replaced")
                return r
            return saved[3](a, b, **k)
        os.path.exists, json.dumps, builtins.open, os.replace = p_exists, p_dumps, p_open, p_replace
        done = {}

        def worker():
            S.register("w")
            S.point("start")
            try:
                done["out"] = w.do(tuple(wop))
            except BaseException as e:   # noqa
                done["exc"] = repr(e)
            finally:
                S.finish()
        t = threading.Thread(target=worker, daemon=True)
        t.start()
        fail = None
        labels = []
        reached_after = False
        # readers use a third instance opened before the write and one opened at each pause: neither holds a live
        # replica (a lookup through an instance that does would refresh - i.e. overwrite - the writer's object)
        other = w.lf.LocalFileObjectStore(w.dir)
        mine = w.stores[0]

        def views():
            fresh = w.lf.LocalFileObjectStore(w.dir)
            res = []
            for nm, st, full in (("other instance", other, True), ("fresh instance", fresh, True),
                                 ("writing instance", mine, False)):
                v = {"who": nm, "len": len(st), "contains": {i for i in w.ids if i in st}}
                if full:
                    v["iter"] = {o.id: L.canon(o) for o in st}
                    g = {}
                    for i in w.ids:
                        try:
                            g[i] = L.canon(st.get_identifiable(i))
                        except KeyError:
                            pass
                    v["get"] = g
                res.append(v)
            return res

        def matches(v, ref):
            return (v["len"] == len(ref) and v["contains"] == set(ref)
                    and ("iter" not in v or (v["iter"] == ref and v["get"] == ref)))
        while True:
            lab = S.step("w")
            if lab is None:
                break
            labels.append(lab)
            # the writer is parked at its next pause point (or has finished): observe
            try:
                vs = views()
            except Exception as e:
                fail = fail or ("C14:observer:{}:read-raises".format(kind),
                                "a reader raised {}: {} while the writer was paused after {!r}".format(
                                    type(e).__name__, e, lab))
                continue
            gc.collect()
            ok_before = all(matches(v, before) for v in vs)
            ok_after = all(matches(v, after) for v in vs)
            if not (ok_before or ok_after):
                v = next(v for v in vs if not matches(v, before) and not matches(v, after))
                what = "len-disagrees" if (v["len"] != len(v.get("iter", v["contains"]))) else "views-not-a-map-state"
                fail = fail or ("C14:observer:{}:{}".format(kind, what),
                                "writer paused after {!r}: through the {} len()={}, membership={} ids, iteration={} objects; "
                                "the persistent map holds {} (before) / {} (after) objects".format(
                                    lab, v["who"], v["len"], len(v["contains"]), len(v.get("iter", v["contains"])),
                                    len(before), len(after)))
            elif reached_after and not ok_after:
                fail = fail or ("C14:observer:{}:went-back".format(kind), "after {!r} readers see the old state again".format(lab))
            if ok_after and not ok_before:
                reached_after = True
        t.join(20)
        if "exc" in done:
            fail = fail or ("C14:observer:{}:writer-raised".format(kind), done["exc"])
        if w.fail:
            fail = fail or w.fail
        if before != after and not reached_after:
            fail = fail or ("C14:observer:{}:write-never-visible".format(kind), "the write returned but no reader sees it")
        return labels, kind, fail
    finally:
        os.path.exists, json.dumps, builtins.open, os.replace = saved
        w.close()


# ---------------------------------------------------------------- two writers of one document, every interleaving

CONC_SCENARIOS = [
    ("two threads commit the same live object", [("New", 1, 2), ("Add", 0, 0), ("SetVal", 0, 4)], (0, 0)),
    ("two replicas of one id (one per instance) with different contents committed concurrently",
     [("New", 1, 2), ("Add", 0, 0), ("Get", 1, 1), ("SetVal", 0, 4), ("SetVal", 1, 5)], (0, 1)),
    ("commits of two different ids", [("New", 1, 2), ("Add", 0, 0), ("New", 2, 1), ("Add", 1, 1), ("SetVal", 0, 4),
                                      ("SetVal", 1, 3)], (0, 1)),
]
# the pause points of one commit() (effects of model/CrashConc.v: open of the temporary file; write+close; os.replace)
CONC_PAUSES = ["start", "open", "opened", "replace"]


def conc_schedules():
    n = len(CONC_PAUSES)
    for pos in itertools.combinations(range(2 * n), n):
        yield [0 if t in pos else 1 for t in range(2 * n)]


def run_conc_writers(idbase, dshape, pre, oids, sched):
    """Two real threads call commit() on the live objects `oids` (bound to the same or to different documents) and are
    parked before opening the temporary file, after opening it and before os.replace; `sched` interleaves them.
    Oracle (persistent map, a commit takes effect at its os.replace): no commit raises; after every step a reader
    through a freshly opened instance finds every document holding exactly what was committed last (or the state
    before, if no commit of it has got that far); at the end the directory holds the documents and nothing else.
    Returns (labels per thread, fail)."""
    import builtins
    w = World(idbase, dshape)
    S = L.Sched(timeout=2 * CALL_LIMIT)
    saved = (builtins.open, os.replace)
    try:
        for op in pre:
            w.do(tuple(op))
        objs = [w.live[x] for x in oids]
        content = [L.canon(o) for o in objs]
        keys = [w.bound[x] for x in oids]
        cur = dict(w.M)
        root = os.path.realpath(w.dir)

        def inside(path):
            try:
                return os.path.realpath(os.path.dirname(os.fspath(path))) == root
            except TypeError:
                return False

        def p_open(file, mode="r", *a, **k):
            if isinstance(file, (str, bytes, os.PathLike)) and any(c in mode for c in "wax+") and inside(file):
                S.point("open")
                f = saved[0](file, mode, *a, **k)
                S.point("opened")
                return f
            return saved[0](file, mode, *a, **k)

        def p_replace(a, b, **k):
            if inside(b):
                S.point("replace")
            return saved[1](a, b, **k)
        builtins.open, os.replace = p_open, p_replace
        res = {}

        def worker(tid):
            S.register(tid)
            S.point("start")
            try:
                objs[tid].commit()
                res[tid] = None
            except BaseException as e:   # noqa
                res[tid] = "{}: {}".format(type(e).__name__, e)
            finally:
                S.finish()
        ts = [threading.Thread(target=worker, args=(t,), daemon=True) for t in (0, 1)]
        for t in ts:
            t.start()
        fail = None
        labels = {0: [], 1: []}

        def look(after):
            nonlocal fail
            fresh = w.lf.LocalFileObjectStore(w.dir)
            for k in sorted(set(keys)):
                idn = w.ids[k]
                try:
                    got = L.canon(fresh.get_identifiable(idn))
                except Exception as e:
                    fail = fail or ("C14:writers:commit/commit:read-raises",
                                    "after {} a reader through a fresh instance got {}: {} for a stored id".format(
                                        after, type(e).__name__, str(e)[:200]))
                    continue
                if got != cur[idn]:
                    fail = fail or ("C14:writers:commit/commit:not-last-committed",
                                    "after {} a reader finds content {} in the document but content {} was committed "
                                    "last".format(after, w.rev.get(got, (None, "?"))[1], w.rev.get(cur[idn], (None, "?"))[1]))
        for tid in list(sched) + [0, 1] * len(CONC_PAUSES):
            lab = S.step(tid)
            if lab is None:
                continue
            labels[tid].append(lab)
            if lab == "replace" and res.get(tid, None) is None:
                cur[w.ids[keys[tid]]] = content[tid]
            look("thread {} passed {!r}".format(tid, lab))
        for t in ts:
            t.join(20)
        builtins.open, os.replace = saved
        for tid in (0, 1):
            if res.get(tid) is not None:
                fail = ("C14:writers:commit/commit:valid-commit-raised",
                        "commit() of a live object bound to a stored document raised {} while another thread committed "
                        "{}".format(res[tid], "the same document" if keys[0] == keys[1] else "another document"))
        w.M.update(cur)
        try:
            w.probe()
            w.membership()
            for x, k in zip(oids, keys):
                w.do(("Get", 0 if w.rep.get((0, k)) == x else 1, k))
        except Exception as e:
            fail = fail or ("C14:writers:commit/commit:store-unreadable-afterwards",
                            "after both commits returned, reading the directory / the store raised {}: {}".format(
                                type(e).__name__, str(e)[:200]))
        if w.fail and fail is None:
            fail = w.fail
        return [labels[0], labels[1]], fail
    finally:
        builtins.open, os.replace = saved
        w.close()


# ---------------------------------------------------------------- the client drops its reference while a thread retrieves

GC_SCENARIOS = [
    ("live replica cached by add", [("New", 1, 2), ("Add", 0, 0)], 0),
    ("stale live replica (document changed through the other instance)",
     [("New", 1, 2), ("Add", 0, 0), ("Get", 1, 1), ("SetVal", 1, 5), ("Commit", 1)], 0),
    ("live replica handed out by an earlier get", [("New", 1, 2), ("Add", 1, 0), ("Get", 0, 1)], 1),
    ("plain object without children", [("New", 2, 1), ("Add", 0, 0)], 0),
]
GC_PROGS = ["get", "iter"]
# what a retrieval does with the weak cache inside its critical section: one look-up that yields a strong reference
# (or nothing), then at most one insert (model/LocalFile.v: the hit/miss step of TGet)
GC_CACHE_OPS = [["get"], ["get", "set"]]


def run_gc_race(idbase, dshape, pre, victim, prog, at):
    """A real thread retrieves (get_identifiable / iteration) through instance 0 the id of the live object `victim`
    and is parked at start, after json.load, before the lock, AFTER EVERY ACCESS TO THE WEAK CACHE and after the lock;
    when it has passed `at` of these points the client (this thread) drops its last reference to `victim` and
    collects.  Oracle: the retrieval of a stored id does not raise and returns the stored content, a later get
    returns that very object.  Returns (labels, cache accesses, fail)."""
    import weakref
    w = World(idbase, dshape)
    S = L.Sched(timeout=2 * CALL_LIMIT)
    real_load = json.load
    try:
        for op in pre:
            w.do(tuple(op))
        store = w.stores[0]
        key = w.bound[victim]
        idn = w.ids[key]
        cache_ops = []

        class PausingCache(weakref.WeakValueDictionary):
            def get(self, k, default=None):
                r = super().get(k, default)
                cache_ops.append("get")
                S.point("cache:get")
                return r

            def __contains__(self, k):
                r = super().__contains__(k)
                cache_ops.append("contains")
                S.point("cache:contains")
                return r

            def __getitem__(self, k):
                r = super().__getitem__(k)
                cache_ops.append("getitem")
                S.point("cache:getitem")
                return r

            def __setitem__(self, k, v):
                super().__setitem__(k, v)
                cache_ops.append("set")
                S.point("cache:set")
        pc = PausingCache()
        for k0, v0 in list(store._object_cache.items()):
            pc[k0] = v0
        k0 = v0 = None
        del cache_ops[:]
        store._object_cache = pc

        class LockProxy:
            def __init__(self):
                self.l = threading.Lock()

            def __enter__(self):
                S.point("lock")
                self.l.acquire()

            def __exit__(self, *a):
                self.l.release()
                S.point("unlocked")
                return False
        store._object_cache_lock = LockProxy()

        def load(*a, **k):
            r = real_load(*a, **k)
            S.point("loaded")
            return r
        json.load = load
        res = {}

        def worker():
            S.register("r")
            S.point("start")
            try:
                if prog == "get":
                    res["obj"] = store.get_identifiable(idn)
                else:
                    res["objs"] = list(store)
            except BaseException as e:   # noqa
                res["exc"] = e
            finally:
                S.finish()
        t = threading.Thread(target=worker, daemon=True)
        t.start()
        labels = []
        dropped = False
        try:
            while True:
                if len(labels) == at and not dropped:
                    w.do(("Drop", victim))
                    dropped = True
                lab = S.step("r")
                if lab is None:
                    break
                labels.append(lab)
        finally:
            json.load = real_load
        t.join(20)
        thread_cache_ops = list(cache_ops)
        store._object_cache_lock = threading.Lock()
        fail = None
        sig = "C14:gc-race:{}:".format(prog)
        if "exc" in res:
            e = res["exc"]
            fail = (sig + ("stored-id-keyerror" if isinstance(e, KeyError) else "exception-" + type(e).__name__),
                    "{} of a stored id raised {}: {} - the client dropped its last reference to the live replica (and the "
                    "collector ran) while the retrieving thread was parked after {!r}".format(
                        "get_identifiable" if prog == "get" else "iteration", type(e).__name__, str(e)[:200],
                        labels[at - 1] if 0 < at <= len(labels) else "its start"))
        else:
            got = [res["obj"]] if prog == "get" else [o for o in res["objs"] if o.id == idn]
            if len(got) != 1 or L.canon(got[0]) != w.M[idn]:
                fail = (sig + "stale-or-wrong-content", "the retrieval did not yield the stored content")
            elif prog == "iter" and {o.id: L.canon(o) for o in res["objs"]} != w.M:
                fail = (sig + "iteration-wrong", "iteration did not yield exactly the stored objects")
            else:
                if not dropped:
                    w.do(("Drop", victim))
                    dropped = True
                o = w.oid_of(got[0])
                if o is None:
                    o = w.next
                    w.next += 1
                    w.live[o] = got[0]
                w.rep[(0, key)] = o
                w.bound[o] = key
                res.clear()
                got = None
                w.do(("Get", 0, key))
        if not dropped:
            w.do(("Drop", victim))
        w.probe()
        w.membership()
        if w.fail and fail is None:
            fail = w.fail
        return labels, thread_cache_ops, fail
    finally:
        json.load = real_load
        w.close()


# ---------------------------------------------------------------- directed histories

def directed_histories():
    """short scripts around the situations random histories reach rarely: a rejected add of a different
    object with a stored id followed by commit()/update() of the rejected object and a read-back through
    another instance; stale replicas; discard through the other instance; re-opened instances"""
    res = []
    for i in (0, 1):
        for j in (0, 1):
            for k in (0, 1):
                r = 1 - j
                res.append([("New", k, 1), ("Add", i, 0), ("New", k, 2), ("Add", j, 1), ("Commit", 1), ("Get", r, k),
                            ("Iter", j), ("Update", 0), ("Get", i, k)])
                res.append([("New", k, 1), ("Add", i, 0), ("New", k, 2), ("Add", j, 1), ("Update", 1), ("SetVal", 1, 4),
                            ("Commit", 1), ("Get", i, k), ("Reopen", r), ("Get", r, k)])
                res.append([("New", k, 1), ("Add", i, 0), ("Get", j, k), ("SetVal", 1, 3), ("Commit", 1), ("Update", 0),
                            ("Get", i, k), ("Len", i), ("Iter", r)])
                res.append([("New", k, 1), ("Add", i, 0), ("Get", j, k), ("Discard", j, 1), ("Contains", i, k), ("Get", i, k),
                            ("Update", 0), ("Commit", 0), ("Get", j, k), ("Add", j, 0)])
                # the last commit wins although the committing replica did not change since its own last write and was
                # not refreshed in between (the document was changed / discarded and re-added through the other instance)
                res.append([("New", k, 1), ("Add", i, 0), ("Get", 1 - i, k), ("SetVal", 1, 3), ("Commit", 1), ("Commit", 0),
                            ("Get", r, k), ("Commit", 1), ("Iter", j), ("Commit", 0), ("Commit", 0), ("Get", 1 - i, k)])
                res.append([("New", k, 2), ("Add", i, 0), ("Commit", 0), ("Get", 1 - i, k), ("Discard", 1 - i, 1), ("New", k, 4),
                            ("Add", 1 - i, 2), ("Commit", 0), ("Get", r, k), ("Update", 2), ("Len", j)])
                # repeated retrievals with uncommitted local modifications in between come back refreshed
                res.append([("New", k, 1), ("Add", i, 0), ("Get", i, k), ("Get", i, k), ("SetVal", 0, 3), ("Get", i, k),
                            ("SetVal", 0, 4), ("Iter", i), ("Get", j, k), ("Get", j, k), ("SetVal", 0, 2), ("Get", j, k),
                            ("SetVal", 0, 5), ("Update", 0), ("Get", r, k)])
                # optional attribute groups appear together in the stored state while a replica without them is alive
                res.append([("New", k, 0), ("Add", i, 0), ("Get", 1 - i, k), ("SetVal", 1, 2), ("Commit", 1), ("Update", 0),
                            ("SetVal", 1, 3), ("Commit", 1), ("Get", i, k), ("SetVal", 1, 5), ("Commit", 1), ("Iter", i),
                            ("SetVal", 0, 1), ("Commit", 0), ("Update", 1)])
                res.append([("New", k, 1), ("Add", i, 0), ("Reopen", i), ("Get", i, k), ("SetVal", 0, 5), ("Commit", 0),
                            ("Get", i, k), ("Update", 1), ("Discard", r, 1), ("Update", 0), ("Len", j)])
                # an add() the file system refuses (at the open of the temporary file / the write / os.replace) leaves no
                # trace: the object stays unbound, the id stays free for another object through either instance, and
                # commit()/update() of the refused object do not reach that document; the retried add is a duplicate
                p = (i + 2 * j + k) % len(FAULT_POINTS)
                res.append([("New", k, 1), ("AddFault", i, 0, p), ("Update", 0), ("Len", r), ("New", k, 2), ("Add", j, 1),
                            ("SetVal", 0, 4), ("Commit", 0), ("Get", r, k), ("Add", i, 0), ("Reopen", i), ("Get", i, k)])
                res.append([("New", k, 3), ("AddFault", i, 0, p + 1), ("Add", j, 0), ("Get", r, k), ("New", k, 5),
                            ("AddFault", r, 2, p + 2), ("Commit", 2), ("Update", 2), ("Get", i, k), ("Iter", j)])
    return res


# ---------------------------------------------------------------- entry points

def _hist_job(args):
    idbase, seed, n, dshape, ops = args
    import random
    if ops is not None:
        return run_history(idbase, ops=ops, dshape=dshape)
    return run_history(idbase, rng=random.Random(seed), n=n, dshape=dshape)


def run(chk):
    chk.theorems("props.C14", THEOREMS, ["theories/props/C14.vo", "theories/model/LocalFileObs.vo"])
    rng = chk.rng
    nhist, maxlen = (350, 20) if chk.tier == "quick" else (5000, 28)
    jobs = []
    corpus = os.path.join(common.VERIF, "corpus", "C14")
    if os.path.isdir(corpus):
        for fn in sorted(os.listdir(corpus)):
            c = json.load(open(os.path.join(corpus, fn)))
            jobs.append((c["idbase"], 0, 0, c.get("dshape", 0), [tuple(o) for o in c["ops"]]))
    for n, ops in enumerate(directed_histories()):
        jobs.append((n % len(L.IDS), 0, 0, n % len(DIR_SHAPES), ops))
    ndirected = len(jobs)
    for _ in range(nhist):
        jobs.append((rng.randrange(len(L.IDS)), rng.getrandbits(48), rng.randint(6, maxlen),
                     rng.randrange(len(DIR_SHAPES)), None))
    import multiprocessing
    pool = multiprocessing.get_context("fork").Pool(8)
    try:
        # every step has its own time limit inside run_history; this overall limit is the last line of defence
        results = pool.map_async(_hist_job, jobs, chunksize=8).get(timeout=300 + len(jobs) * 0.5)
    finally:
        pool.terminate()        # no worker is left behind whatever happened
        pool.join()
    terms = []
    shrunk = set()
    for idx, (ops, trace, fail) in enumerate(results):
        ib, ds = jobs[idx][0], jobs[idx][3]
        chk.seen((ops, ds), nontrivial=len(ops) >= 3)
        chk.count("len={}".format(min(len(ops), 20) // 5 * 5))
        chk.count("directory={}:{}".format(*DIR_SHAPES[ds % len(DIR_SHAPES)]))
        for o, t in zip(ops, trace):
            chk.count("op=" + o[0])
            chk.count("answer=" + {0: "none", 1: "added", 2: "duplicate-KeyError", 3: "object", 5: "missing-KeyError",
                                   6: "bool", 7: "len", 8: "list", 9: "discarded", 10: "committed", 11: "updated",
                                   13: "write-refused-OSError"}
                      .get(t[0][0], "other"))
        if fail and fail[0][0] not in shrunk:
            shrunk.add(fail[0][0])
            (sig, msg), at = fail
            small = shrink_ops(ops[:at + 1], lambda o: run_history(ib, ops=o, dshape=ds)[2] is not None)
            ds2 = ds
            if run_history(ib, ops=small, dshape=0)[2] is not None:
                ds2 = 0
            f2 = run_history(ib, ops=small, dshape=ds2)[2]
            sig, msg = f2[0] if f2 else (sig, msg)
            chk.fail(sig, msg, {"idbase": ib, "dshape": ds2, "directory": list(DIR_SHAPES[ds2 % len(DIR_SHAPES)]), "ops": small,
                                "how": "tools/c14.py run_history(idbase, ops=ops, dshape=dshape)"})
        terms.append(coq_case(ops, trace))
        if len(chk.samples) < 3 and len(ops) >= 8 and idx >= ndirected:
            chk.samples.append({"ops": ops, "directory": DIR_SHAPES[ds % len(DIR_SHAPES)], "last_step_observation": trace[-1]})
    bad, errs = common.run_mismatch_shards("C14", PRELUDE, terms, "check_case", shard=250)
    n1 = common.run_mismatch_shards.evaluated - len(bad)
    for e in errs:
        chk.tie_broken("correspondence-run", e)
    if bad:
        idx = bad[0]
        ops = results[idx][0]
        ib, ds = jobs[idx][0], jobs[idx][3]

        def still(o):
            o2, tr, _ = run_history(ib, ops=o, dshape=ds)
            b, e = common.run_mismatch_shards("C14s", PRELUDE, [coq_case(o2, tr)], "check_case")
            return bool(b or e)
        small = shrink_ops(ops, still)
        o2, tr, _ = run_history(ib, ops=small, dshape=ds)
        model = common.coq_eval("C14", PRELUDE, "trace init " + common.coq_list(coq_op(o) for o in o2))
        chk.tie_broken("correspondence", {"n_disagreements": len(bad), "idbase": ib, "dshape": ds, "ops": o2, "sdk_trace": tr,
                                          "model_trace": model,
                                          "rows": "per step: answer; live objects (oid,key,content,source); directory; "
                                                  "`id in store` per instance x id; per live object [oid, `obj in store` "
                                                  "per instance]"})
    chk.cov["directed_histories"] = ndirected
    # ---- threads
    tcases = thread_cases(chk.tier)
    tterms = []
    for n, (si, pre, progs, sched) in enumerate(tcases):
        ds = n % len(DIR_SHAPES)
        try:
            with L.deadline(8 * CALL_LIMIT):
                obs, fail = run_threads(0, pre, progs, sched, dshape=ds)
        except (L.Hang, TimeoutError) as e:
            obs, fail = [[98]], ("C14:threads:{}/{}:does-not-return".format(progs[0][0], progs[1][0]),
                                 "a thread or the scenario's set-up did not finish: {!r}".format(e))
        chk.seen(("threads", si, progs, sched), nontrivial=True)
        chk.count("threads={}/{}".format(progs[0][0], progs[1][0]))
        if fail:
            chk.fail(fail[0], fail[1], {"scenario": SCENARIOS[si][0], "pre": pre, "progs": progs, "schedule": sched,
                                        "dshape": ds, "how": "tools/c14.py run_threads(0, pre, progs, schedule, dshape)"})
        tterms.append(coq_sched_case(pre, progs, sched, obs))
    bad2, errs2 = common.run_mismatch_shards("C14t", PRELUDE, tterms, "check_sched", shard=250)
    chk.traces = n1 + common.run_mismatch_shards.evaluated - len(bad2)
    for e in errs2:
        chk.tie_broken("correspondence-run", e)
    if bad2:
        si, pre, progs, sched = tcases[bad2[0]]
        ds = bad2[0] % len(DIR_SHAPES)
        obs, _ = run_threads(0, pre, progs, sched, dshape=ds)
        model = common.coq_eval("C14t", PRELUDE, "sched_obs {} {} 0 1 {} {}".format(
            coq_prog(progs[0]), coq_prog(progs[1]), common.coq_list(coq_op(o) for o in pre),
            common.coq_list("true" if t else "false" for t in sched)))
        chk.tie_broken("correspondence-threads", {"n_disagreements": len(bad2), "scenario": SCENARIOS[si][0], "pre": pre,
                                                  "progs": progs, "schedule": sched, "dshape": ds, "sdk": obs, "model": model})
    chk.cov["thread_interleavings"] = len(tcases)
    # ---- a writer observed at every pause point
    nobs = 0
    for wi, (desc, pre, wop) in enumerate(WRITER_SCENARIOS):
        for ds in (range(len(DIR_SHAPES)) if chk.tier == "thorough" else [wi % len(DIR_SHAPES), (wi + 3) % len(DIR_SHAPES)]):
            try:
                with L.deadline(8 * CALL_LIMIT):
                    labels, kind, fail = run_writer(wi, ds, pre, wop)
            except (L.Hang, TimeoutError) as e:
                labels, kind = [], "?"
                fail = ("C14:observer:does-not-return", "the writer or a reader did not finish: {!r}".format(e))
            nobs += len(labels)
            chk.seen(("writer", wi, ds), nontrivial=True)
            chk.count("observed-writer=" + kind)
            chk.traces += 1
            if kind in PAUSES and labels != PAUSES[kind]:
                chk.tie_broken("writer-pause-points", {"scenario": desc, "expected": PAUSES[kind], "observed": labels,
                                                       "note": "the write no longer passes the effects of model/Crash.v "
                                                               "(exists, encode, open/close of the temporary file, replace)"})
            if fail:
                chk.fail(fail[0], fail[1], {"writer_scenario": wi, "what": desc, "pre": pre, "writer_op": wop, "dshape": ds,
                                            "how": "tools/c14.py run_writer(writer_scenario, dshape, pre, writer_op)"})
    chk.cov["writer_pause_points_observed"] = nobs
    # ---- two writers (commit/commit) under every interleaving of their pause points
    nconc = 0
    tie_reported = set()
    for si, (desc, pre, oids) in enumerate(CONC_SCENARIOS):
        for n, sched in enumerate(conc_schedules()):
            if chk.tier != "thorough" and n % 3 != si % 3:
                continue
            ds = (n + si) % len(DIR_SHAPES)
            try:
                with L.deadline(8 * CALL_LIMIT):
                    labels, fail = run_conc_writers(si, ds, pre, oids, sched)
            except (L.Hang, TimeoutError) as e:
                labels = None
                fail = ("C14:writers:commit/commit:does-not-return", "a committing thread did not finish: {!r}".format(e))
            nconc += 1
            chk.seen(("writers", si, tuple(sched), ds), nontrivial=True)
            chk.count("concurrent-writers=commit/commit:{}".format("same-id" if si < 2 else "two-ids"))
            chk.traces += 1
            if labels is not None and labels != [CONC_PAUSES, CONC_PAUSES] and "conc" not in tie_reported:
                tie_reported.add("conc")
                chk.tie_broken("writer-pause-points", {"scenario": desc, "expected": [CONC_PAUSES, CONC_PAUSES],
                                                       "observed": labels,
                                                       "note": "commit() no longer passes the effects of model/CrashConc.v "
                                                               "(open of the temporary file, write+close, os.replace)"})
            if fail:
                chk.fail(fail[0], fail[1], {"conc_scenario": si, "what": desc, "pre": pre, "oids": list(oids), "schedule": sched,
                                            "dshape": ds,
                                            "how": "tools/c14.py run_conc_writers(conc_scenario, dshape, pre, oids, schedule)"})
    chk.cov["concurrent_writer_interleavings"] = nconc
    # ---- the client drops its last reference (and the collector runs) at every yield point of a retrieval,
    #      every access to the weak cache being a yield point
    ngc = 0
    for si, (desc, pre, victim) in enumerate(GC_SCENARIOS):
        for prog in GC_PROGS:
            for at in range(12):
                ds = (si + at) % len(DIR_SHAPES)
                try:
                    with L.deadline(8 * CALL_LIMIT):
                        labels, cops, fail = run_gc_race(si, ds, pre, victim, prog, at)
                except (L.Hang, TimeoutError) as e:
                    labels, cops = [], None
                    fail = ("C14:gc-race:{}:does-not-return".format(prog), "the retrieving thread did not finish: {!r}".format(e))
                ngc += 1
                chk.seen(("gc-race", si, prog, at, ds), nontrivial=True)
                chk.count("gc-race={}".format(prog))
                chk.traces += 1
                if cops is not None and cops not in GC_CACHE_OPS and "gc" not in tie_reported:
                    tie_reported.add("gc")
                    chk.tie_broken("cache-access-pattern", {"scenario": desc, "program": prog, "expected one of": GC_CACHE_OPS,
                                                            "observed": cops,
                                                            "note": "a retrieval's critical section is one look-up in the weak "
                                                                    "cache that yields a strong reference, then at most one "
                                                                    "insert (model/LocalFile.v, hit/miss step of TGet)"})
                if fail:
                    chk.fail(fail[0], fail[1], {"gc_scenario": si, "what": desc, "pre": pre, "victim": victim, "prog": prog,
                                                "drop_after_points": at, "dshape": ds,
                                                "how": "tools/c14.py run_gc_race(gc_scenario, dshape, pre, victim, prog, "
                                                       "drop_after_points)"})
                if at > len(labels):
                    break
    chk.cov["gc_race_positions"] = ngc
    chk.trusted = [
        "Coq 8.16.1 kernel (coqc; vm_compute for the refutations, the example and the correspondence)",
        "hand-written model coq/theories/model/LocalFile.v, tied to local_file.py / base.py update()/commit() by this "
        "correspondence run",
        "JSON adapter writes and reads an object's attributes unchanged (C03) and update_from copies them (C12): "
        "checked here only on the generated payloads through an attribute-level canonical form",
        "sha256 injective on identifiers; the file system behaves as a map from names to contents",
        "threads: only interleavings at the modelled yield points (json.load, lock acquire/release, and for the "
        "refuted earlier code os.path.exists/os.replace); a concurrent reader is placed only at the pause points of a "
        "write (before exists/encode/open, after open, before/after replace) whose directory states are those of "
        "model/Crash.v; two committing threads are interleaved at the effects of model/CrashConc.v; CPython's "
        "scheduler and GC timing are not modelled (gc.collect() is called after steps that drop objects, and - while a "
        "retrieving thread is parked at a yield point, every weak-cache access being one - by the client that drops "
        "its reference)",
        "tools/c14.py, tools/lf_common.py, tools/common.py",
    ]
    chk.assumptions = ["sha256 collision freedom", "identifiers of stored objects are not reassigned",
                       "no other process modifies the directory", "both instances name the directory by the same path "
                       "(up to a trailing slash)"]
    return chk.finish(level="proof",
                      rule="directed scripts (rejected duplicate then commit/update of the rejected object, stale replicas, "
                           "discard/re-open through the other instance, add() refused by the file system at the open of the "
                           "temporary file / the write / os.replace and what follows) and seeded histories (6..20/28 steps) "
                           "over 14 operations, 2 instances (one opened with a trailing slash) on a directory drawn from 10 shapes "
                           "(absolute/relative to the working directory; '#', '?', '%20', ';', ':', spaces, non-ASCII), 4 "
                           "identifiers drawn from 16 shapes (path separators, '..', non-ASCII, astral, line breaks, 2000 "
                           "chars), 4 payload classes x 6 contents, generated against the live state so that most steps "
                           "are applicable; threads: every interleaving of the yield points of get/get, get/add, add/add "
                           "in 5 scenarios; 7 writer scenarios observed by readers at every pause point of the write; two "
                           "threads committing the same object / two replicas of one id / two ids under the interleavings of "
                           "their pause points (open of the temporary file, after it, os.replace; quick: every third "
                           "schedule), a reader after every step; a retrieval (get, iteration) during which the client drops "
                           "its last reference and the collector runs, at every yield point incl. every weak-cache access; "
                           "non-trivial = at least 3 steps; distinct by (op list, directory shape)")


def replay(path):
    r = json.load(open(path))
    rp = r.get("replay") or {}
    if "ops" in rp:
        ops, trace, fail = run_history(rp["idbase"], ops=rp["ops"], dshape=rp.get("dshape", 0))
        print("trace:", trace)
        print("oracle:", fail)
        return 1 if fail else 0
    if "schedule" in rp:
        obs, fail = run_threads(0, [tuple(o) for o in rp["pre"]], [tuple(p) for p in rp["progs"]], rp["schedule"],
                                dshape=rp.get("dshape", 0))
        print("observation:", obs)
        print("oracle:", fail)
        return 1 if fail else 0
    if "conc_scenario" in rp:
        labels, fail = run_conc_writers(rp["conc_scenario"], rp["dshape"], [tuple(o) for o in rp["pre"]], tuple(rp["oids"]),
                                        rp["schedule"])
        print("pause points:", labels)
        print("oracle:", fail)
        return 1 if fail else 0
    if "gc_scenario" in rp:
        labels, cops, fail = run_gc_race(rp["gc_scenario"], rp["dshape"], [tuple(o) for o in rp["pre"]], rp["victim"],
                                         rp["prog"], rp["drop_after_points"])
        print("yield points:", labels, "cache accesses:", cops)
        print("oracle:", fail)
        return 1 if fail else 0
    if "writer_op" in rp:
        labels, kind, fail = run_writer(rp["writer_scenario"], rp["dshape"], [tuple(o) for o in rp["pre"]], tuple(rp["writer_op"]))
        print("pause points:", labels)
        print("oracle:", fail)
        return 1 if fail else 0
    print(json.dumps(r, indent=1)[:3000])
    return 1
