"""Shared seeded generator of metamodel objects + independent canonicaliser (used by several checks).

    META                      class name -> list of (attribute, kind): the metamodel attribute table, written from the
                              specification / SDK docstrings (the *specification side* of C03/C04/C18/...);
                              cross-checked against the SDK constructors by meta_crosscheck().
    Gen(rng, **knobs)         .store(n)        -> DictObjectStore of n identifiables (+ nested content)
                              .obj(clsname)    -> one object of the given class (any class in META)
                              .submodel_element(depth)
    gen_store(rng, size=3, **knobs), gen_object(rng, clsname, **knobs)   convenience wrappers
    canon(obj)                -> JSON-able canonical form of any metamodel object reading PUBLIC attributes only (via
                              META), independent of the adapters: sets sorted, typed values tagged with their type,
                              generated idShorts of list children dropped.  canon(a) == canon(b) iff a and b hold the
                              same data at every depth.
    canon_store(store)        -> {id: canon(obj)} sorted by id

Knobs (all default to the widest space; a check may narrow them to avoid inputs of *open known findings* of another
property, and must say so in its evidence):
    depth=3, strings='plain'|'json'|'xml' (lexical stress repertoire), xsd_edge=True (edge values of the 31 XSD types),
    avoid=set() of feature tags to leave out: 'unsigned_byte' (unnamed type on the pinned tree), 'falsy_qualifier_value',
    'empty_strings', 'sub_ms', 'tz', 'nan', 'zero_duration', 'mixed_sign_duration'.
Every random choice comes from the rng passed in (one PRNG), so cases replay exactly.
"""
import datetime
import decimal
import math

from dateutil.relativedelta import relativedelta

from basyx.aas import model
from basyx.aas.model import datatypes as dt

# ---------------------------------------------------------------------------------------------------------- META
# kinds:  str | ostr (optional, non-empty by constraint) | ostr0 (optional, may be '') | bool | enum:<Enum> |
#         xsdtype | oxsdtype | leaf (typed value of sibling value_type, optional) | obytes | obj:<C> | oobj:<C> |
#         list:<C> (ordered) | set:<C> (unordered) | olang:<LangClass> | lang:<LangClass> | oset:<C> (None or set) |
#         keytypeclass (a SubmodelElement class) | ref | oref | mref (model reference) | omref | reflist | refset
REFERABLE = [("id_short", "ostr"), ("display_name", "olang:MultiLanguageNameType"), ("category", "ostr"),
             ("description", "olang:MultiLanguageTextType")]
HAS_EXT = [("extension", "set:Extension")]
HAS_DS = [("embedded_data_specifications", "list:EmbeddedDataSpecification")]
IDENTIFIABLE = [("id", "str"), ("administration", "oobj:AdministrativeInformation")]
HAS_SEM = [("semantic_id", "oref"), ("supplemental_semantic_id", "reflist")]
QUALIFIABLE = [("qualifier", "set:Qualifier")]
SME = REFERABLE + HAS_EXT + HAS_DS + HAS_SEM + QUALIFIABLE

META = {
    "Key": [("type", "enum:KeyTypes"), ("value", "str")],
    "ExternalReference": [("key", "list:Key"), ("referred_semantic_id", "oref")],
    "ModelReference": [("key", "list:Key"), ("referred_semantic_id", "oref")],
    "AdministrativeInformation": HAS_DS + [("version", "ostr"), ("revision", "ostr"), ("creator", "oref"),
                                           ("template_id", "ostr")],
    "Qualifier": HAS_SEM + [("type", "str"), ("value_type", "xsdtype"), ("value", "leaf"), ("value_id", "oref"),
                            ("kind", "enum:QualifierKind")],
    "Extension": HAS_SEM + [("name", "str"), ("value_type", "oxsdtype"), ("value", "leaf"),
                            ("refers_to", "set:ModelReference")],
    "EmbeddedDataSpecification": [("data_specification", "ref"),
                                  ("data_specification_content", "obj:DataSpecificationIEC61360")],
    "DataSpecificationIEC61360": [("preferred_name", "lang:PreferredNameTypeIEC61360"),
                                  ("data_type", "oenum:DataTypeIEC61360"),
                                  ("definition", "olang:DefinitionTypeIEC61360"),
                                  ("short_name", "olang:ShortNameTypeIEC61360"), ("unit", "ostr0"), ("unit_id", "oref"),
                                  ("source_of_definition", "ostr0"), ("symbol", "ostr0"), ("value_format", "ostr0"),
                                  ("value_list", "oset:ValueReferencePair"), ("value", "ostr"),
                                  ("level_types", "set:enum:IEC61360LevelType")],
    "ValueReferencePair": [("value", "str"), ("value_id", "ref")],
    "SpecificAssetId": HAS_SEM + [("name", "str"), ("value", "str"), ("external_subject_id", "oobj:ExternalReference")],
    "Resource": [("path", "str"), ("content_type", "ostr")],
    "AssetInformation": [("asset_kind", "enum:AssetKind"), ("global_asset_id", "ostr"),
                         ("specific_asset_id", "set:SpecificAssetId"), ("asset_type", "ostr"),
                         ("default_thumbnail", "oobj:Resource")],
    "AssetAdministrationShell": REFERABLE + HAS_EXT + HAS_DS + IDENTIFIABLE + [
        ("asset_information", "obj:AssetInformation"), ("submodel", "set:ModelReference"), ("derived_from", "omref")],
    "Submodel": SME + IDENTIFIABLE + [("kind", "enum:ModellingKind"), ("submodel_element", "set:SubmodelElement")],
    "ConceptDescription": REFERABLE + HAS_EXT + HAS_DS + IDENTIFIABLE + [("is_case_of", "refset")],
    "Property": SME + [("value_type", "xsdtype"), ("value", "leaf"), ("value_id", "oref")],
    "MultiLanguageProperty": SME + [("value", "olang:MultiLanguageTextType"), ("value_id", "oref")],
    "Range": SME + [("value_type", "xsdtype"), ("min", "leaf"), ("max", "leaf")],
    "Blob": SME + [("content_type", "str"), ("value", "obytes")],
    "File": SME + [("content_type", "str"), ("value", "ostr")],
    "ReferenceElement": SME + [("value", "oref")],
    "SubmodelElementCollection": SME + [("value", "set:SubmodelElement")],
    "SubmodelElementList": SME + [("type_value_list_element", "keytypeclass"), ("order_relevant", "bool"),
                                  ("semantic_id_list_element", "oref"), ("value_type_list_element", "oxsdtype"),
                                  ("value", "list:SubmodelElement")],
    "RelationshipElement": SME + [("first", "ref"), ("second", "ref")],
    "AnnotatedRelationshipElement": SME + [("first", "ref"), ("second", "ref"), ("annotation", "set:DataElement")],
    "Operation": SME + [("input_variable", "set:SubmodelElement"), ("output_variable", "set:SubmodelElement"),
                        ("in_output_variable", "set:SubmodelElement")],
    "Capability": SME + [],
    "Entity": SME + [("entity_type", "enum:EntityType"), ("statement", "set:SubmodelElement"),
                     ("global_asset_id", "ostr"), ("specific_asset_id", "set:SpecificAssetId")],
    "BasicEventElement": SME + [("observed", "mref"), ("direction", "enum:Direction"), ("state", "enum:StateOfEvent"),
                                ("message_topic", "ostr"), ("message_broker", "omref"), ("last_update", "odatetime"),
                                ("min_interval", "oduration"), ("max_interval", "oduration")],
}
DATA_ELEMENTS = ["Property", "MultiLanguageProperty", "Range", "Blob", "File", "ReferenceElement"]
SUBMODEL_ELEMENTS = DATA_ELEMENTS + ["SubmodelElementCollection", "SubmodelElementList", "RelationshipElement",
                                     "AnnotatedRelationshipElement", "Operation", "Capability", "Entity",
                                     "BasicEventElement"]
IDENTIFIABLES = ["AssetAdministrationShell", "Submodel", "ConceptDescription"]
# the abstract members of AasSubmodelElements a SubmodelElementList may be typed by, with their concrete subclasses
ABSTRACT_SUBCLASSES = {"SubmodelElement": SUBMODEL_ELEMENTS, "DataElement": DATA_ELEMENTS,
                       "EventElement": ["BasicEventElement"]}
ABSTRACT_LIST_TYPES = list(ABSTRACT_SUBCLASSES)


def cls_of(name):
    return getattr(model, name, None) or getattr(model.base, name)


def meta_crosscheck():
    """Every constructor parameter of every META class (except parent) must be a META attribute and vice versa
    (modulo the trailing underscore convention).  Returns a list of discrepancies (empty = consistent)."""
    import inspect
    probs = []
    for cname, attrs in META.items():
        params = [p for p in inspect.signature(cls_of(cname).__init__).parameters if p not in ("self", "parent")]
        norm = {p.rstrip("_") for p in params}
        names = {a for a, _ in attrs}
        if cname == "ModelReference":
            norm.discard("type")
        if norm != names:
            probs.append((cname, sorted(norm - names), sorted(names - norm)))
    return probs


# ---------------------------------------------------------------------------------------------------------- values
TZS = [None, datetime.timezone.utc, datetime.timezone(datetime.timedelta(hours=5, minutes=30)),
       datetime.timezone(datetime.timedelta(hours=-11)), datetime.timezone(datetime.timedelta(hours=13, minutes=59)),
       datetime.timezone(datetime.timedelta(hours=14)), datetime.timezone(datetime.timedelta(hours=-14)),
       datetime.timezone(datetime.timedelta(hours=-12)), datetime.timezone(datetime.timedelta(hours=12, minutes=1)),
       datetime.timezone(datetime.timedelta(minutes=-1))]

CALENDAR_TYPES = (dt.GMonthDay, dt.GDay, dt.GMonth, dt.GYear, dt.GYearMonth, dt.Date, datetime.datetime, datetime.time)

# time zones met by every calendar edge: none, Z, a half-hour zone, both ends of the xs range, one minute west
CAL_TZ_MIN = [None, 0, 330, -660, 840, -840, -1]


def calendar_values():
    """the eight date/time types of DataTypeDefXsd at the edges of their value spaces, EVERY edge combined with EVERY time
    zone of CAL_TZ_MIN (the random pools draw day <= 28, and the edge days only without a zone): first and last day of
    every month length (--02-29, --04-30, --12-31, ---31), leap days of years divisible by 4 / 100 / 400, the first and
    the last representable year, midnight and the last microsecond of a day.  Returns [(type, value)], a fixed list."""
    tzs = [None if m is None else datetime.timezone(datetime.timedelta(minutes=m)) for m in CAL_TZ_MIN]
    out = []
    for tz in tzs:
        for mo, d in ((1, 1), (1, 31), (2, 28), (2, 29), (3, 31), (4, 30), (6, 30), (9, 30), (11, 30), (12, 31)):
            out.append((dt.GMonthDay, dt.GMonthDay(mo, d, tz)))
        for d in (1, 28, 29, 30, 31):
            out.append((dt.GDay, dt.GDay(d, tz)))
        for mo in (1, 2, 12):
            out.append((dt.GMonth, dt.GMonth(mo, tz)))
        for y in (1, 4, 1900, 1970, 2000, 9999):
            out.append((dt.GYear, dt.GYear(y, tz)))
        for y, mo in ((1, 1), (1900, 2), (2000, 2), (2024, 2), (9999, 12)):
            out.append((dt.GYearMonth, dt.GYearMonth(y, mo, tz)))
        for y, mo, d in ((1, 1, 1), (4, 2, 29), (1900, 2, 28), (1970, 1, 1), (2000, 2, 29), (2024, 2, 29), (2023, 2, 28),
                         (9999, 12, 31)):
            out.append((dt.Date, dt.Date(y, mo, d, tz)))
        for args in ((1, 1, 1, 0, 0, 0, 0), (4, 2, 29, 12, 0, 0, 1), (1969, 12, 31, 23, 59, 59, 999999),
                     (2000, 2, 29, 23, 59, 59, 999999), (2024, 2, 29, 0, 0, 0, 0), (9999, 12, 31, 23, 59, 59, 999999)):
            out.append((datetime.datetime, datetime.datetime(*args, tzinfo=tz)))
        for args in ((0, 0, 0, 0), (23, 59, 59, 999999), (12, 0, 0, 500000)):
            out.append((datetime.time, datetime.time(*args, tzinfo=tz)))
    return out


STR_PLAIN = ["a", "abc", "Some Text", "x" * 40, "ÄÖÜ straße", "日本語", "a b  c"]
STR_JSON = ['quote"inside', "back\\slash", "line\nbreak", "tab\there", "cr\rhere", "\U0001F600 astral", "/slash",
            " sep", "nul-free\x7f", "{not json}", "[1,2]", "null", "true", "0"]
STR_XML = [" leading", "trailing ", "  ", " ", "a\nb", "a\r\nb", "a\rb", "\ttab\t", "<tag>", "a&b", "]]>", "&amp;",
           "<![CDATA[x]]>", "\U00010000", "�", "퟿", "a  b"]


class Gen:
    def __init__(self, rng, depth=3, strings="plain", xsd_edge=True, avoid=(), p_opt=0.5, wide_lists=False,
                 calendar_edges=False):
        """wide_lists: SubmodelElementLists over everything the metamodel and the SDK's constraint checks admit, not only
        the shape of the example stores: lists typed by an abstract class (SubmodelElement / DataElement / EventElement)
        with children of mixed concrete classes, valueTypeListElement on lists of any element type (AASd-109 makes it
        mandatory for Property / Range lists and leaves it optional elsewhere), children that omit the semantic id
        their list announces (AASd-107/115) and lists without semanticIdListElement whose children partly share one
        semantic id (AASd-114).  Off by default: the random stream of the other users of this generator is unchanged.
        calendar_edges: the eight date/time types also take the values of calendar_values() - every calendar edge (last day
        of every month length, --02-29, leap days, first/last year, last microsecond of a day) combined with every time-zone
        class; a quarter of the random draws, and all of them in the deterministic sweep.  Off by default (same reason)."""
        self.rng, self.depth, self.strings, self.xsd_edge = rng, depth, strings, xsd_edge
        self.wide_lists = wide_lists
        self.calendar_edges = calendar_edges
        self.avoid = set(avoid)
        self.p_opt = p_opt
        self.counter = 0
        self.features = {}

    def feat(self, k):
        self.features[k] = self.features.get(k, 0) + 1

    # ---- strings
    def text(self, maxlen=None, minlen=1):
        r = self.rng
        pool = list(STR_PLAIN)
        if self.strings in ("json", "all"):
            pool += STR_JSON
        if self.strings in ("xml", "all"):
            pool += STR_XML
        s = r.choice(pool)
        if r.random() < 0.2:
            s = s + r.choice(pool)
        if maxlen is not None:
            s = s[:maxlen]
        if len(s) < minlen:
            s = "x" * minlen
        return s

    def ident(self, prefix="id"):
        self.counter += 1
        r = self.rng
        tail = r.choice(["", "/p?q#f", " with space", "ü", "%2F", "+=", ":urn:x"])
        return f"https://example.org/{prefix}/{self.counter}{tail}"

    def id_short(self):
        self.counter += 1
        return self.rng.choice(["a", "B", "elem", "Id_Short", "x9"]) + str(self.counter)

    def lang(self, clsname):
        r = self.rng
        maxlen = {"MultiLanguageNameType": 64, "MultiLanguageTextType": 1023, "DefinitionTypeIEC61360": 1023,
                  "PreferredNameTypeIEC61360": 255, "ShortNameTypeIEC61360": 18}[clsname]
        tags = r.sample(["en", "de", "en-US", "zh-Hant-TW", "fr-CA"], r.randint(1, 3))
        return cls_of(clsname)({t: self.text(maxlen) for t in tags})

    def opt(self):
        return self.rng.random() < self.p_opt

    # ---- XSD typed values
    def xsd_type(self):
        types = list(dt.XSD_TYPE_NAMES) + [dt.UnsignedByte]
        types = list(dict.fromkeys(types))
        if "unsigned_byte" in self.avoid:
            types = [t for t in types if t is not dt.UnsignedByte]
        return self.rng.choice(types)

    def tz(self):
        if "tz" in self.avoid:
            return None
        return self.rng.choice(TZS)

    def calendar_pool(self, t):
        """the calendar edges of type t admitted by self.avoid ([] for the non-calendar types)"""
        av = self.avoid
        return [v for ty, v in calendar_values() if ty is t
                and not ("tz" in av and v.tzinfo is not None)
                and not ("sub_ms" in av and getattr(v, "microsecond", 0))]

    def xsd_value(self, t):
        r = self.rng
        e = self.xsd_edge
        if self.calendar_edges and t in CALENDAR_TYPES and r.random() < 0.25:
            self.feat("calendar-edge")
            return r.choice(self.calendar_pool(t))

        def us():
            if "sub_ms" in self.avoid:
                return 0
            return r.choice([0, 1, 999999, 123456, 500000, 1000, r.randrange(10 ** 6)])
        if t is relativedelta:
            cands = [relativedelta(years=1, months=2, days=3, hours=4, minutes=5, seconds=6, microseconds=7),
                     relativedelta(days=1), relativedelta(months=-5, days=-2), relativedelta(seconds=30),
                     relativedelta(years=10000), relativedelta(microseconds=1)]
            if "zero_duration" not in self.avoid:
                cands.append(relativedelta())
            return r.choice(cands)
        if t is datetime.datetime:
            return datetime.datetime(r.choice([1, 999, 2020, 9999]), r.randint(1, 12), r.randint(1, 28), r.randint(0, 23),
                                     r.randint(0, 59), r.randint(0, 59), us(), tzinfo=self.tz())
        if t is dt.Date:
            return dt.Date(r.choice([1, 999, 2020, 9999]), r.randint(1, 12), r.randint(1, 28), self.tz())
        if t is datetime.time:
            return datetime.time(r.randint(0, 23), r.randint(0, 59), r.randint(0, 59), us(), tzinfo=self.tz())
        if t is dt.GYearMonth:
            return dt.GYearMonth(r.choice([1, 999, 2020, 9999]), r.randint(1, 12), self.tz())
        if t is dt.GYear:
            return dt.GYear(r.choice([1, 999, 2020, 9999]), self.tz())
        if t is dt.GMonthDay:
            return dt.GMonthDay(r.randint(1, 12), r.randint(1, 28), self.tz())
        if t is dt.GMonth:
            return dt.GMonth(r.randint(1, 12), self.tz())
        if t is dt.GDay:
            return dt.GDay(r.randint(1, 31), self.tz())
        if t is bool:
            return r.choice([True, False])
        if t is dt.Base64Binary:
            return dt.Base64Binary(r.choice([b"", b"\x00\xff", b"hello world", bytes(range(256))]))
        if t is dt.HexBinary:
            return dt.HexBinary(r.choice([b"", b"\x00\xff", b"abc"]))
        if t is dt.Float:
            return dt.Float(r.choice([0.0, 1.5, -2.25, 1e30]))
        if t is float:
            c = [0.0, -0.0, 1.5, 1e300, 5e-324, 0.1, 2.0 ** 53 + 2, -1.7976931348623157e308]
            if "nan" not in self.avoid:
                c += [math.nan, math.inf, -math.inf]
            return r.choice(c)
        if t is decimal.Decimal:
            return decimal.Decimal(r.choice(["0", "1.10", "-123456789012345678901234567890.000000001", "0.000001",
                                             "100", "-0.5", "1E+5", "1E-7", "2.50E+3"]))
        bounds = {int: (-2 ** 70, 2 ** 70), dt.Long: (-2 ** 63, 2 ** 63 - 1), dt.Int: (-2 ** 31, 2 ** 31 - 1),
                  dt.Short: (-2 ** 15, 2 ** 15 - 1), dt.Byte: (-128, 127), dt.NonPositiveInteger: (-2 ** 70, 0),
                  dt.NegativeInteger: (-2 ** 70, -1), dt.NonNegativeInteger: (0, 2 ** 70),
                  dt.PositiveInteger: (1, 2 ** 70), dt.UnsignedLong: (0, 2 ** 64 - 1), dt.UnsignedInt: (0, 2 ** 32 - 1),
                  dt.UnsignedShort: (0, 2 ** 16 - 1), dt.UnsignedByte: (0, 255)}
        if t in bounds:
            lo, hi = bounds[t]
            c = [lo, hi, lo + 1, hi - 1] + [x for x in (0, 1, -1, 42) if lo <= x <= hi]
            v = r.choice(c) if e else r.choice([x for x in (0, 1, -1, 42) if lo <= x <= hi])
            return t(v)
        if t is dt.AnyURI:
            return dt.AnyURI(r.choice(["http://example.org/a#b", "urn:x:y", "file:///tmp/a%20b", "rel/path"]))
        if t is dt.NormalizedString:
            return dt.NormalizedString(r.choice(["", "a b", " lead", "trail "]) if "empty_strings" not in self.avoid
                                       else "a b")
        if t is str:
            c = [self.text(), self.text()]
            if "empty_strings" not in self.avoid:
                c.append("")
            return r.choice(c)
        raise TypeError(t)

    # ---- a deterministic sweep over the value pools (no random choice: every edge value occurs in every run)
    def xsd_candidates(self, t):
        """edge values of XSD type t, in a fixed order"""
        if self.calendar_edges and t in CALENDAR_TYPES:
            base = self._xsd_candidates(t)
            have = [canon_leaf(b) for b in base]
            return base + [v for v in self.calendar_pool(t) if canon_leaf(v) not in have]
        return self._xsd_candidates(t)

    def _xsd_candidates(self, t):
        av = self.avoid
        tzs = [None] if "tz" in av else TZS
        us = [0] if "sub_ms" in av else [0, 1, 999999, 500000]
        Y = [1, 999, 2020, 9999]
        if t is relativedelta:
            c = [relativedelta(years=1, months=2, days=3, hours=4, minutes=5, seconds=6, microseconds=7),
                 relativedelta(days=1), relativedelta(months=-5, days=-2), relativedelta(seconds=30),
                 relativedelta(years=10000), relativedelta(microseconds=1), relativedelta(years=-1), relativedelta(months=11),
                 relativedelta(hours=23, minutes=59), relativedelta(seconds=-59, microseconds=-999999),
                 relativedelta(days=400, hours=25), relativedelta(hours=1.5), relativedelta(days=0.5, minutes=2.25),
                 relativedelta(seconds=-1, microseconds=-500000), relativedelta(microseconds=-500000),
                 relativedelta(minutes=90, seconds=3600)]
            return c + ([] if "zero_duration" in av else [relativedelta()])
        if t is datetime.datetime:
            return [datetime.datetime(Y[i % 4], 1 + i % 12, 1 + (i * 7) % 28, i % 24, (i * 13) % 60, (i * 17) % 60,
                                      us[i % len(us)], tzinfo=tz) for i, tz in enumerate(tzs)] + \
                   [datetime.datetime(2024, 2, 29, 23, 59, 59, us[-1 % len(us)]), datetime.datetime(1, 1, 1, 0, 0, 0)]
        if t is dt.Date:
            return [dt.Date(Y[i % 4], 1 + i % 12, 1 + (i * 7) % 28, tz) for i, tz in enumerate(tzs)] + [dt.Date(2024, 2, 29)]
        if t is datetime.time:
            return [datetime.time(i % 24, (i * 13) % 60, (i * 17) % 60, us[i % len(us)], tzinfo=tz)
                    for i, tz in enumerate(tzs)] + [datetime.time(0, 0, 0), datetime.time(23, 59, 59, us[-1])]
        if t is dt.GYearMonth:
            return [dt.GYearMonth(Y[i % 4], 1 + i % 12, tz) for i, tz in enumerate(tzs)]
        if t is dt.GYear:
            return [dt.GYear(Y[i % 4], tz) for i, tz in enumerate(tzs)]
        if t is dt.GMonthDay:
            return [dt.GMonthDay(1 + i % 12, 1 + (i * 7) % 28, tz) for i, tz in enumerate(tzs)] + [dt.GMonthDay(2, 29), dt.GMonthDay(12, 31)]
        if t is dt.GMonth:
            return [dt.GMonth(1 + i % 12, tz) for i, tz in enumerate(tzs)]
        if t is dt.GDay:
            return [dt.GDay(1 + (i * 10) % 31, tz) for i, tz in enumerate(tzs)] + [dt.GDay(31)]
        if t is bool:
            return [True, False]
        if t is dt.Base64Binary:
            return [dt.Base64Binary(b) for b in ([] if "empty_strings" in av else [b""]) + [b"\x00\xff", b"hello world", bytes(range(256)), b"a", b"ab"]]
        if t is dt.HexBinary:
            return [dt.HexBinary(b) for b in ([] if "empty_strings" in av else [b""]) + [b"\x00\xff", b"abc"]]
        if t is dt.Float:
            return [dt.Float(x) for x in (0.0, 1.5, -2.25, 1e30, -0.0, 1 / 3, 0.1 + 0.2, 3.141592653589793, 3.4028234663852886e38,
                                          1.401298464324817e-45, 123456789.0)]
        if t is float:
            c = [0.0, -0.0, 1.5, 1e300, 5e-324, 0.1, 2.0 ** 53 + 2, -1.7976931348623157e308, 1e22, 1e-7, 123456789.125]
            return c + ([] if "nan" in av else [math.nan, math.inf, -math.inf])
        if t is decimal.Decimal:
            return [decimal.Decimal(x) for x in ("0", "1.10", "-123456789012345678901234567890.000000001", "0.000001", "100", "-0.5",
                                                 "1E+5", "1E-7", "2.50E+3", "0.00", "-0", "1234567890123456789012345678.9",
                                                 "0." + "0" * 30 + "123456789012345678901234567890123", "9" * 60)]
        if t in self.INT_BOUNDS:
            lo, hi = self.INT_BOUNDS[t]
            return [t(x) for x in dict.fromkeys([lo, hi, lo + 1, hi - 1] + [x for x in (0, 1, -1, 42) if lo <= x <= hi])]
        if t is dt.AnyURI:
            uris = ["http://example.org/a#b", "urn:x:y", "file:///tmp/a%20b", "rel/path"]
            if self.strings in ("xml", "json", "all"):   # xs:anyURI is a string type: the lexical stress applies to it too
                uris += [" http://example.org/lead", "http://example.org/trail ", "http://example.org/a  b", "urn:a\tb",
                         "urn:a\nb", "urn:a\rb", "  "]
            return [dt.AnyURI(x) for x in uris]
        if t is dt.NormalizedString:
            return [dt.NormalizedString(x) for x in (["a b"] if "empty_strings" in av else ["", "a b", " lead", "trail "])]
        if t is str:
            pool = list(STR_PLAIN) + (STR_JSON if self.strings in ("json", "all") else []) + (STR_XML if self.strings in ("xml", "all") else [])
            return pool + ([] if "empty_strings" in av else [""])
        raise TypeError(t)

    INT_BOUNDS = {int: (-2 ** 70, 2 ** 70), dt.Long: (-2 ** 63, 2 ** 63 - 1), dt.Int: (-2 ** 31, 2 ** 31 - 1),
                  dt.Short: (-2 ** 15, 2 ** 15 - 1), dt.Byte: (-128, 127), dt.NonPositiveInteger: (-2 ** 70, 0),
                  dt.NegativeInteger: (-2 ** 70, -1), dt.NonNegativeInteger: (0, 2 ** 70),
                  dt.PositiveInteger: (1, 2 ** 70), dt.UnsignedLong: (0, 2 ** 64 - 1), dt.UnsignedInt: (0, 2 ** 32 - 1),
                  dt.UnsignedShort: (0, 2 ** 16 - 1), dt.UnsignedByte: (0, 255)}

    def sweep_store(self):
        """one Submodel in which every candidate value of every XSD type occurs as a Property value, as Range min / max, as
        a Qualifier value and as an Extension value (the four typed holders of the metamodel)"""
        types = list(dict.fromkeys(list(dt.XSD_TYPE_NAMES) + [dt.UnsignedByte]))
        if "unsigned_byte" in self.avoid:
            types = [t for t in types if t is not dt.UnsignedByte]
        elems, quals, exts = [], [], []
        for ti, t in enumerate(types):
            cands = self.xsd_candidates(t)
            for j, v in enumerate(cands):
                elems.append(model.Property(f"p{ti}_{j}", t, v))
                if "falsy_qualifier_value" in self.avoid and not v:
                    continue
                quals.append(model.Qualifier(f"q{ti}_{j}", t, v))
                exts.append(model.Extension(f"e{ti}_{j}", t, v))
            elems.append(model.Range(f"r{ti}", t, cands[0], cands[-1]))
            elems.append(model.Range(f"rmin{ti}", t, cands[len(cands) // 2], None))
        if "sub_ms" not in self.avoid:
            # fractional seconds: a few hundred microsecond values (readers that go through binary floating point are off by
            # one microsecond for about 1 % of them)
            for j in range(300):
                us = (j * 3331 + 249) % 10 ** 6
                elems.append(model.Property(f"frac{j}", datetime.time, datetime.time(j % 24, (j * 7) % 60, (j * 11) % 60, us)))
        holder = model.Capability("holder", qualifier=quals, extension=exts)
        sm = model.Submodel("https://example.org/sm/sweep", submodel_element=elems + [holder])
        st = model.DictObjectStore()
        st.add(sm)
        return st

    # ---- references
    def key(self, first=True, model_ref=False):
        r = self.rng
        if first:
            kt = r.choice([model.KeyTypes.SUBMODEL, model.KeyTypes.ASSET_ADMINISTRATION_SHELL,
                           model.KeyTypes.CONCEPT_DESCRIPTION]) if model_ref else model.KeyTypes.GLOBAL_REFERENCE
        else:
            kt = r.choice([model.KeyTypes.SUBMODEL_ELEMENT_COLLECTION, model.KeyTypes.PROPERTY, model.KeyTypes.ENTITY]) \
                if model_ref else r.choice([model.KeyTypes.FRAGMENT_REFERENCE, model.KeyTypes.GLOBAL_REFERENCE])
        return model.Key(kt, self.ident("key") if first else self.id_short())

    def ext_ref(self, depth=1):
        r = self.rng
        keys = [self.key(True)] + [self.key(False) for _ in range(r.randint(0, 2))]
        # AASd-124: last key of external ref is generic globally identifiable or generic fragment
        rs = self.ref(depth - 1) if depth > 0 and r.random() < (0.2 if depth == 1 else 0.9) else None
        return model.ExternalReference(tuple(keys), rs)

    LAST_KEY_TYPES = [model.KeyTypes.PROPERTY, model.KeyTypes.FILE, model.KeyTypes.SUBMODEL_ELEMENT_COLLECTION,
                      model.KeyTypes.BLOB, model.KeyTypes.RANGE, model.KeyTypes.OPERATION, model.KeyTypes.FILE,
                      model.KeyTypes.BASIC_EVENT_ELEMENT, model.KeyTypes.MULTI_LANGUAGE_PROPERTY, model.KeyTypes.ENTITY,
                      model.KeyTypes.DATA_ELEMENT, model.KeyTypes.EVENT_ELEMENT, model.KeyTypes.SUBMODEL_ELEMENT,
                      model.KeyTypes.REFERENCE_ELEMENT, model.KeyTypes.RELATIONSHIP_ELEMENT, model.KeyTypes.CAPABILITY,
                      model.KeyTypes.ANNOTATED_RELATIONSHIP_ELEMENT, model.KeyTypes.BLOB]

    def model_ref(self, type_=None, depth=1):
        r = self.rng
        if type_ is model.Submodel:
            keys = [model.Key(model.KeyTypes.SUBMODEL, self.ident("sm"))]
        elif type_ is model.AssetAdministrationShell:
            keys = [model.Key(model.KeyTypes.ASSET_ADMINISTRATION_SHELL, self.ident("aas"))]
        else:
            type_ = model.Referable
            keys = [model.Key(model.KeyTypes.SUBMODEL, self.ident("sm"))]
            n = r.randint(0, 2)
            for i in range(n):
                keys.append(model.Key(r.choice([model.KeyTypes.SUBMODEL_ELEMENT_COLLECTION, model.KeyTypes.ENTITY])
                                      if i < n - 1 else r.choice(self.LAST_KEY_TYPES),
                                      self.id_short()))
            # AASd-127: a FragmentReference key follows a File or Blob key
            if n and keys[-1].type in (model.KeyTypes.FILE, model.KeyTypes.BLOB) and r.random() < 0.4:
                keys.append(model.Key(model.KeyTypes.FRAGMENT_REFERENCE, self.id_short()))
        rs = self.ref(depth - 1) if depth > 0 and r.random() < (0.2 if depth == 1 else 0.9) else None
        return model.ModelReference(tuple(keys), type_, rs)

    def ref(self, depth=1):
        if depth == 1 and self.rng.random() < 0.15:
            depth = self.rng.choice([2, 3])          # chains of referred semantic ids (each level is drawn with p = 0.2 ... 1)
        return self.ext_ref(depth) if self.rng.random() < 0.6 else self.model_ref(None, depth)

    # ---- non-referable helper classes
    def common_sem(self, kw):
        if self.opt():
            kw["semantic_id"] = self.ref()
            if self.opt():
                kw["supplemental_semantic_id"] = [self.ref() for _ in range(self.rng.randint(1, 2))]

    # ---- near-duplicates: members of unordered collections that differ in ONE attribute only (an equality, hash or
    #      sort key that ignores that attribute merges or confuses them)
    P_NEARDUP = 0.3

    def ref_sibling(self, ref):
        """same keys and type, different referred_semantic_id"""
        rs = None if ref.referred_semantic_id is not None else self.ext_ref(0)
        if isinstance(ref, model.ModelReference):
            return model.ModelReference(ref.key, ref.type, rs)
        return model.ExternalReference(ref.key, rs)

    def refs(self, n, make):
        out = [make() for _ in range(n)]
        if self.rng.random() < self.P_NEARDUP:
            out.append(self.ref_sibling(out[0]))
        return out

    def specific_asset_ids(self, n):
        out = [self.specific_asset_id() for _ in range(n)]
        if self.rng.random() < self.P_NEARDUP:
            a = out[0]
            k = self.rng.randrange(3)
            sem = a.semantic_id
            sup = list(a.supplemental_semantic_id)
            if k == 0 or sem is None:
                sem = self.ref_sibling(sem) if (sem is not None and self.rng.random() < 0.5) else self.ext_ref(0)
            elif k == 1:
                sup = sup + [self.ref()]
            else:
                sup = list(reversed(sup)) if len(sup) > 1 and sup[0] != sup[-1] else sup + [self.ext_ref(0)]
            out.append(model.SpecificAssetId(a.name, a.value, a.external_subject_id, sem, sup))
        return out

    def qualifier(self):
        self.counter += 1
        t = self.xsd_type()
        kw = dict(type_=f"qt{self.counter}", value_type=t)
        if self.opt():
            v = self.xsd_value(t)
            if "falsy_qualifier_value" in self.avoid and not v:
                v = None
            kw["value"] = v
        if self.opt():
            kw["value_id"] = self.ref()
        kw["kind"] = self.rng.choice(list(model.QualifierKind))
        self.common_sem(kw)
        return model.Qualifier(**kw)

    def extension(self):
        self.counter += 1
        kw = dict(name=f"ext{self.counter}")
        if self.opt():
            t = self.xsd_type()
            kw["value_type"] = t
            if self.opt():
                v = self.xsd_value(t)
                if "falsy_qualifier_value" in self.avoid and not v:
                    v = None
                kw["value"] = v
        if self.opt():
            kw["refers_to"] = self.refs(self.rng.randint(1, 2), self.model_ref)
        self.common_sem(kw)
        return model.Extension(**kw)

    def iec61360(self):
        r = self.rng
        kw = dict(preferred_name=self.lang("PreferredNameTypeIEC61360"))
        if self.opt():
            kw["data_type"] = r.choice(list(model.base.DataTypeIEC61360))
        if self.opt():
            kw["definition"] = self.lang("DefinitionTypeIEC61360")
        if self.opt():
            kw["short_name"] = self.lang("ShortNameTypeIEC61360")
        for a in ("unit", "source_of_definition", "symbol", "value_format"):
            if self.opt():
                kw[a] = self.text() if ("empty_strings" in self.avoid or r.random() < 0.8) else ""
        if self.opt():
            kw["unit_id"] = self.ref()
        if self.opt():
            vl = [model.ValueReferencePair(self.text(2000), self.ref()) for _ in range(r.randint(1, 2))]
            if r.random() < self.P_NEARDUP:
                vl.append(model.ValueReferencePair(vl[0].value, self.ref_sibling(vl[0].value_id)))
            kw["value_list"] = set(vl)
        if self.opt():
            kw["value"] = self.text(2000)
        if self.opt():
            kw["level_types"] = set(r.sample(list(model.base.IEC61360LevelType), r.randint(1, 3)))
        return model.base.DataSpecificationIEC61360(**kw)

    def eds(self):
        return model.EmbeddedDataSpecification(self.ext_ref(), self.iec61360())

    def admin(self):
        kw = {}
        if self.opt():
            kw["version"] = self.rng.choice(["0", "1", "12", "9999"])
            if self.opt():
                kw["revision"] = self.rng.choice(["0", "7", "42"])
        if self.opt():
            kw["creator"] = self.ref()
        if self.opt():
            kw["template_id"] = self.ident("tpl")
        if self.opt() and self.rng.random() < 0.4:
            kw["embedded_data_specifications"] = [self.eds()]
        return model.AdministrativeInformation(**kw)

    def specific_asset_id(self):
        self.counter += 1
        kw = dict(name=f"said{self.counter}", value=self.text(2000))
        if self.opt():
            kw["external_subject_id"] = self.ext_ref()
        self.common_sem(kw)
        return model.SpecificAssetId(**kw)

    def resource(self):
        return model.Resource(self.rng.choice(["file:///a/b.png", "/aasx/files/x.pdf", "rel/p"]),
                              self.rng.choice([None, "image/png", "application/pdf"]))

    def asset_information(self):
        r = self.rng
        kw = dict(asset_kind=r.choice(list(model.AssetKind)))
        both = r.random()
        if both < 0.7:
            kw["global_asset_id"] = self.ident("asset")
        if both > 0.4:
            kw["specific_asset_id"] = self.specific_asset_ids(r.randint(1, 2))
        if self.opt():
            kw["asset_type"] = self.ident("type")
        if self.opt():
            kw["default_thumbnail"] = self.resource()
        return model.AssetInformation(**kw)

    # ---- referables
    def referable_kw(self, kw, sme=True, in_list=False):
        r = self.rng
        if self.opt():
            kw["display_name"] = self.lang("MultiLanguageNameType")
        if self.opt():
            kw["category"] = r.choice(["PARAMETER", "CONSTANT", "VARIABLE"])
        if self.opt():
            kw["description"] = self.lang("MultiLanguageTextType")
        if self.opt() and r.random() < 0.5:
            kw["extension"] = [self.extension() for _ in range(r.randint(1, 2))]
        if self.opt() and r.random() < 0.3:
            kw["embedded_data_specifications"] = [self.eds()]
        if sme:
            # inside a SubmodelElementList the semantic id is dictated by the list (AASd-107)
            if not in_list:
                self.common_sem(kw)
            if self.opt() and r.random() < 0.6:
                kw["qualifier"] = [self.qualifier() for _ in range(r.randint(1, 2))]

    def submodel_element(self, depth=None, kinds=None, in_list=None):
        """in_list: None, or dict(type=cls, value_type=..., semantic_id=...) constraints of the containing list."""
        r = self.rng
        depth = self.depth if depth is None else depth
        kinds = list(kinds or SUBMODEL_ELEMENTS)
        if depth <= 0:
            kinds = [k for k in kinds if k in DATA_ELEMENTS + ["Capability", "RelationshipElement", "BasicEventElement"]] \
                or kinds
        if in_list:
            kinds = list(in_list.get("kinds") or [in_list["type"].__name__])
            if len(kinds) > 1 and depth <= 0:
                kinds = [k for k in kinds if k in DATA_ELEMENTS + ["Capability"]] or kinds
        k = r.choice(kinds)
        self.feat(k)
        kw = {}
        self.referable_kw(kw, in_list=bool(in_list))
        if in_list and in_list.get("semantic_id") is not None:
            # wide lists: a child may leave out the semantic id (AASd-115 "assumes" it, the attribute itself stays absent)
            if not self.wide_lists or r.random() < 0.5:
                kw["semantic_id"] = in_list["semantic_id"]
            else:
                self.feat("list-child:semantic-id-absent-under-list-semantic-id")
        elif in_list and in_list.get("shared_semantic_id") is not None and r.random() < 0.5:
            # no semanticIdListElement: the children that have a semantic id have the same one (AASd-114)
            kw["semantic_id"] = in_list["shared_semantic_id"]
            self.feat("list-child:semantic-id-without-list-semantic-id")
        if in_list and self.wide_lists and "semantic_id" in kw and r.random() < 0.3:
            kw["supplemental_semantic_id"] = [self.ref() for _ in range(r.randint(1, 2))]
        ids = None if in_list else self.id_short()
        if k == "Property":
            t = in_list["value_type"] if in_list and in_list.get("value_type") else self.xsd_type()
            if self.opt():
                kw["value"] = self.xsd_value(t)
            if self.opt():
                kw["value_id"] = self.ref()
            return model.Property(ids, t, **kw)
        if k == "MultiLanguageProperty":
            if self.opt():
                kw["value"] = self.lang("MultiLanguageTextType")
            if self.opt():
                kw["value_id"] = self.ref()
            return model.MultiLanguageProperty(ids, **kw)
        if k == "Range":
            t = in_list["value_type"] if in_list and in_list.get("value_type") else self.xsd_type()
            if self.opt():
                kw["min"] = self.xsd_value(t)
            if self.opt():
                kw["max"] = self.xsd_value(t)
            return model.Range(ids, t, **kw)
        if k == "Blob":
            if self.opt():
                kw["value"] = r.choice([b"\x00\x01binary", b"text", bytes(range(200, 256))] +
                                       ([] if "empty_strings" in self.avoid else [b""]))
            return model.Blob(ids, r.choice(["application/octet-stream", "image/png"]), **kw)
        if k == "File":
            if self.opt():
                kw["value"] = r.choice(["/aasx/files/a.pdf", "file:///x/y", "https://example.org/f.txt", "rel.txt"])
            return model.File(ids, r.choice(["application/pdf", "text/plain"]), **kw)
        if k == "ReferenceElement":
            if self.opt():
                kw["value"] = self.ref()
            return model.ReferenceElement(ids, **kw)
        if k == "SubmodelElementCollection":
            kw["value"] = [self.submodel_element(depth - 1) for _ in range(r.randint(0, 3))]
            return model.SubmodelElementCollection(ids, **kw)
        if k == "SubmodelElementList":
            ek = r.choice([x for x in SUBMODEL_ELEMENTS + (ABSTRACT_LIST_TYPES if self.wide_lists else [])
                           if depth > 1 or x in DATA_ELEMENTS + ["Capability", "DataElement"]])
            ecls = cls_of(ek)
            cons = {"type": ecls}
            if ek in ABSTRACT_SUBCLASSES:
                cons["kinds"] = ABSTRACT_SUBCLASSES[ek]
                self.feat("list:typed-by-abstract-class")
            if ek in ("Property", "Range"):
                cons["value_type"] = self.xsd_type()
                kw["value_type_list_element"] = cons["value_type"]
            elif self.wide_lists and self.opt():
                # optional (0..1) for every other element type; says nothing about the children the SDK would check
                kw["value_type_list_element"] = self.xsd_type()
                self.feat("list:value-type-on-non-property-range-list")
            if self.opt():
                cons["semantic_id"] = self.ref()
                kw["semantic_id_list_element"] = cons["semantic_id"]
            elif self.wide_lists and self.opt():
                cons["shared_semantic_id"] = self.ref()
            kw["order_relevant"] = r.choice([True, False])
            kw["value"] = [self.submodel_element(depth - 1, in_list=cons) for _ in range(r.randint(0, 3))]
            return model.SubmodelElementList(ids, ecls, **kw)
        if k == "RelationshipElement":
            return model.RelationshipElement(ids, self.ref(), self.ref(), **kw)
        if k == "AnnotatedRelationshipElement":
            kw["annotation"] = [self.submodel_element(0, kinds=DATA_ELEMENTS) for _ in range(r.randint(0, 2))]
            return model.AnnotatedRelationshipElement(ids, self.ref(), self.ref(), **kw)
        if k == "Operation":
            for a in ("input_variable", "output_variable", "in_output_variable"):
                if self.opt():
                    kw[a] = [self.submodel_element(depth - 1) for _ in range(r.randint(1, 2))]
            return model.Operation(ids, **kw)
        if k == "Capability":
            return model.Capability(ids, **kw)
        if k == "Entity":
            et = r.choice(list(model.EntityType))
            if et is model.EntityType.SELF_MANAGED_ENTITY:
                if r.random() < 0.6:
                    kw["global_asset_id"] = self.ident("asset")
                else:
                    kw["specific_asset_id"] = self.specific_asset_ids(1)
                if r.random() < 0.3 and "specific_asset_id" not in kw:
                    kw["specific_asset_id"] = self.specific_asset_ids(1)
            kw["statement"] = [self.submodel_element(depth - 1) for _ in range(r.randint(0, 2))]
            return model.Entity(ids, et, **kw)
        if k == "BasicEventElement":
            direction = r.choice(list(model.Direction))
            if self.opt():
                kw["message_topic"] = self.text(255)
            if self.opt():
                kw["message_broker"] = self.model_ref()
            if self.opt():
                kw["last_update"] = datetime.datetime(2022, 11, 12, 23, 50, 23, r.choice([0, 123000, 1]),
                                                      tzinfo=datetime.timezone.utc)
            if self.opt():
                kw["min_interval"] = relativedelta(seconds=r.randint(1, 50))
            if self.opt() and direction is model.Direction.OUTPUT:
                kw["max_interval"] = relativedelta(minutes=r.randint(1, 50))
            return model.BasicEventElement(ids, self.model_ref(), direction, r.choice(list(model.StateOfEvent)), **kw)
        raise KeyError(k)

    def identifiable_kw(self, kw):
        if self.opt():
            kw["id_short"] = self.id_short()
        if self.opt():
            kw["administration"] = self.admin()

    def submodel(self):
        r = self.rng
        kw = {}
        self.referable_kw(kw)
        self.identifiable_kw(kw)
        kw["kind"] = r.choice(list(model.ModellingKind))
        kw["submodel_element"] = [self.submodel_element() for _ in range(r.randint(0, 4))]
        return model.Submodel(self.ident("sm"), **kw)

    def concept_description(self):
        r = self.rng
        kw = {}
        self.referable_kw(kw, sme=False)
        self.identifiable_kw(kw)
        if self.opt():
            kw["is_case_of"] = set(self.refs(r.randint(1, 2), self.ref))
        if "embedded_data_specifications" not in kw and r.random() < 0.6:
            kw["embedded_data_specifications"] = [self.eds()]
        return model.ConceptDescription(self.ident("cd"), **kw)

    def shell(self, submodels=()):
        r = self.rng
        kw = {}
        self.referable_kw(kw, sme=False)
        self.identifiable_kw(kw)
        refs = {model.ModelReference.from_referable(s) for s in submodels if r.random() < 0.8}
        if self.opt():
            refs.add(self.model_ref(model.Submodel))
        if refs and r.random() < self.P_NEARDUP:
            refs.add(self.ref_sibling(min(refs, key=repr)))
        if refs:
            kw["submodel"] = refs
        if self.opt():
            kw["derived_from"] = self.model_ref(model.AssetAdministrationShell)
        return model.AssetAdministrationShell(self.asset_information(), self.ident("aas"), **kw)

    def obj(self, clsname):
        f = {"AssetAdministrationShell": self.shell, "Submodel": self.submodel,
             "ConceptDescription": self.concept_description, "Qualifier": self.qualifier, "Extension": self.extension,
             "AdministrativeInformation": self.admin, "SpecificAssetId": self.specific_asset_id,
             "Resource": self.resource, "AssetInformation": self.asset_information,
             "DataSpecificationIEC61360": self.iec61360, "EmbeddedDataSpecification": self.eds,
             "ExternalReference": self.ext_ref, "ModelReference": self.model_ref,
             "Key": lambda: self.key(True),
             "ValueReferencePair": lambda: model.ValueReferencePair(self.text(2000), self.ref())}.get(clsname)
        if f:
            return f()
        if clsname in SUBMODEL_ELEMENTS:
            return self.submodel_element(kinds=[clsname])
        raise KeyError(clsname)

    def store(self, n=3):
        r = self.rng
        st = model.DictObjectStore()
        sms = []
        for _ in range(n):
            k = r.choice(IDENTIFIABLES)
            if k == "Submodel":
                o = self.submodel()
                sms.append(o)
            elif k == "ConceptDescription":
                o = self.concept_description()
            else:
                o = self.shell(sms)
            st.add(o)
        return st


def gen_store(rng, size=3, **knobs):
    return Gen(rng, **knobs).store(size)


def gen_object(rng, clsname, **knobs):
    return Gen(rng, **knobs).obj(clsname)


# ---------------------------------------------------------------------------------------------------------- canon
def _tzoff(tz, ref=None):
    if tz is None:
        return None
    off = tz.utcoffset(ref)
    return None if off is None else int(off.total_seconds())


def canon_leaf(v):
    """typed XSD value -> [type tag, exact content]"""
    if v is None:
        return None
    t = type(v)
    if t is relativedelta:
        n = v.normalized()
        return ["duration", n.years, n.months, n.days, n.hours, n.minutes, n.seconds, n.microseconds]
    if t is datetime.datetime:
        return ["dateTime", v.year, v.month, v.day, v.hour, v.minute, v.second, v.microsecond, _tzoff(v.tzinfo, v)]
    if t is dt.Date:
        return ["date", v.year, v.month, v.day, _tzoff(v.tzinfo)]
    if t is datetime.time:
        return ["time", v.hour, v.minute, v.second, v.microsecond, _tzoff(v.tzinfo)]
    if t is dt.GYearMonth:
        return ["gYearMonth", v.year, v.month, _tzoff(v.tzinfo)]
    if t is dt.GYear:
        return ["gYear", v.year, _tzoff(v.tzinfo)]
    if t is dt.GMonthDay:
        return ["gMonthDay", v.month, v.day, _tzoff(v.tzinfo)]
    if t is dt.GMonth:
        return ["gMonth", v.month, _tzoff(v.tzinfo)]
    if t is dt.GDay:
        return ["gDay", v.day, _tzoff(v.tzinfo)]
    if t is bool:
        return ["boolean", v]
    if isinstance(v, (bytes, bytearray)):
        return [t.__name__, bytes(v).hex()]
    if isinstance(v, float):
        return [t.__name__, "nan" if v != v else float(v).hex()]
    if t is decimal.Decimal:
        # exact value (Decimal.normalize() would round to the context precision of 28 digits)
        if not v.is_finite():
            return ["decimal", str(v)]
        sign, digits, exp = v.as_tuple()
        digits = list(digits)
        while len(digits) > 1 and digits[-1] == 0:
            digits.pop()
            exp += 1
        if digits == [0]:
            sign, exp = 0, 0
        return ["decimal", ("-" if sign else "") + "".join(map(str, digits)) + (f"E{exp}" if exp else "")]
    if isinstance(v, int):
        return [t.__name__, int(v)]
    if isinstance(v, str):
        return [t.__name__, str(v)]
    return ["?" + t.__name__, repr(v)]


def _drop_type(x):
    if isinstance(x, dict):
        return {k: _drop_type(v) for k, v in x.items() if k != "_type"}
    if isinstance(x, list):
        return [_drop_type(v) for v in x]
    return x


def _sortkey(x):
    """order of the members of unordered collections in the canonical form; independent of ModelReference.type (`_type`),
    which is a Python typing aid that readers re-derive from the keys, so that the order survives dropping it"""
    import json
    return json.dumps(_drop_type(x), sort_keys=True, default=str)


def meta_class_name(obj):
    for c in type(obj).__mro__:
        if c.__name__ in META:
            return c.__name__
    raise TypeError(f"not a metamodel class: {type(obj)}")


def canon(obj, in_list=False):
    if obj is None:
        return None
    cname = meta_class_name(obj)
    out = {"_class": cname}
    if cname == "ModelReference":
        out["_type"] = getattr(obj.type, "__name__", str(obj.type))
    for attr, kind in META[cname]:
        v = getattr(obj, attr)
        out[attr] = canon_attr(v, kind, attr, in_list)
    return out


def canon_attr(v, kind, attr="", in_list=False):
    if kind in ("str", "ostr", "ostr0", "bool"):
        if attr == "id_short" and in_list:
            return None
        return v
    if kind.startswith("enum:") or kind.startswith("oenum:"):
        return None if v is None else v.name
    if kind in ("xsdtype", "oxsdtype"):
        return None if v is None else v.__name__
    if kind == "keytypeclass":
        return v.__name__
    if kind in ("leaf", "odatetime", "oduration"):
        return canon_leaf(v)
    if kind == "obytes":
        return None if v is None else bytes(v).hex()
    if kind.startswith("obj:") or kind.startswith("oobj:") or kind in ("ref", "oref", "mref", "omref"):
        return canon(v)
    if kind.startswith("list:"):
        il = kind == "list:SubmodelElement"
        return [canon(x, il) for x in v]
    if kind == "reflist":
        return [canon(x) for x in v]
    if kind == "set:enum:IEC61360LevelType":
        return sorted(x.name for x in v)
    if kind.startswith("set:") or kind == "refset":
        return sorted((canon(x) for x in v), key=_sortkey)
    if kind.startswith("oset:"):
        return None if v is None else sorted((canon(x) for x in v), key=_sortkey)
    if kind.startswith("olang:") or kind.startswith("lang:"):
        return None if v is None else {"_class": type(v).__name__, "items": sorted(v.items())}
    raise KeyError(kind)


def canon_store(store):
    return {o.id: canon(o) for o in sorted(store, key=lambda o: o.id)}


def diff(a, b, path=""):
    """first difference between two canonical forms, as a readable string (or None)"""
    if type(a) is not type(b):
        return f"{path}: {a!r} != {b!r}"
    if isinstance(a, dict):
        for k in sorted(set(a) | set(b)):
            if k not in a or k not in b:
                return f"{path}/{k}: {'missing' if k not in a else a[k]!r} != {'missing' if k not in b else b[k]!r}"
            d = diff(a[k], b[k], f"{path}/{k}")
            if d:
                return d
        return None
    if isinstance(a, list):
        if len(a) != len(b):
            return f"{path}: length {len(a)} != {len(b)}"
        for i, (x, y) in enumerate(zip(a, b)):
            d = diff(x, y, f"{path}[{i}]")
            if d:
                return d
        return None
    if a != b:
        return f"{path}: {a!r} != {b!r}"
    return None
