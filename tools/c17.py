"""C17 - update() and commit() reach exactly the right backends with resolvable paths.
Theorems: coq/theories/props/C17.v over model/Dispatch.v (+ model/Refs.v, gen/Gen_RefKeys.v regenerated from /repo).
Tie C: random trees over every container kind with random / exhaustive placements of `source`, every node as the
       target of commit(), update(recursive=True/False); recording Backend classes registered for private schemes
       through backends.register_backend; SDK call log vs model/DispatchObs.v evaluated by vm_compute.
Oracle: expected call multiset computed from the abstract tree; every relative_path walked from the store object
        with get_referable as the Backend docstring prescribes; documented error for unknown / missing scheme."""
import itertools
import json
import os

import common
import reftrees as rt
from common import coq_str, coq_list, coq_z, enc_str

THEOREMS = ["C17_history", "C17_last_registered", "C17_clock_irrelevant", "C17_after_edit", "C17_commit_calls", "C17_commit_exactly", "C17_update_calls", "C17_update_exactly",
            "C17_no_error_calls", "C17_error_stops", "C17_get_backend",
            "C17_commit_paths_lead", "C17_update_path_partial", "C17_update_path_refuted", "C17_example"]

PRELUDE = ("From Coq Require Import List ZArith String.\n"
           "From Basyx Require Import gen.Gen_RefKeys model.Refs model.RefsObs model.Dispatch model.DispatchObs.\n"
           "Open Scope string_scope.")

LONG = "v" + "erylongscheme.a-b+c0" * 6
# registered: scheme i -> recording class i.  One letter, letter + digits / + / - / ., upper case, very long.
SCHEMES = ["verifa", "verif2b", "x-v.c+d", "x", "Q", "a1", "z+9-.", "VerifUP", LONG]
GOOD = ["verifa:one", "verifa://h/p?q#f", "verif2b:z", "x-v.c+d:1", "verifa:", "x:one", "x:", "Q:/data/sm.json", "a1:b",
        "z+9-.:r", "VerifUP://h", LONG + ":p"]
BAD = [("nobackend:zz", "UnknownBackendException"), ("verif:a", "UnknownBackendException"),
       ("VERIFA:x", "UnknownBackendException"), ("y:zz", "UnknownBackendException"), ("C:/data/x.json", "UnknownBackendException"),
       ("X:one", "UnknownBackendException"), ("q:r", "UnknownBackendException"), ("a:", "UnknownBackendException"),
       (LONG + "x:p", "UnknownBackendException"),
       ("noscheme", "ValueError"), ("1abc:x", "ValueError"), ("ver ifa:x", "ValueError"), (":x", "ValueError"),
       ("verifa", "ValueError"), ("ver_ifa:x", "ValueError"), ("+a:x", "ValueError"), ("x", "ValueError")]
NCLASSES = len(SCHEMES) + 2       # recording Backend classes; initially scheme i -> class i
LOG = []
_classes = []


BMODE = {"mode": None}
TLOG = {}                  # thread ident -> call log of that thread (calls of other threads go to LOG)
GATE = {"thread": None}    # the thread that is held inside its first update_object() until the gate opens
REFRESH = {"target": None}  # the object for which the data source delivers a renamed state on the next update


class Call(tuple):
    """a log entry (method, class, store object, object, copy of relative_path) + whether the path led from the store
    object to the object when the backend was called (ok) / did so without its first segment (ok_tail)"""


def walks(so, rel, o):
    try:
        cur = so
        for i in rel:
            cur = cur.get_referable(i)
        return cur is o
    except Exception:
        return False


def note(entry):
    import threading
    entry = Call(entry)
    _, _, so, o, rel = entry
    entry.ok = walks(so, rel, o)
    entry.ok_tail = bool(rel) and walks(so, rel[1:], o)
    TLOG.get(threading.get_ident(), LOG).append(entry)


def hold():
    """A slow data source: the gated thread stays inside its first backend call until the other caller is through."""
    import threading
    if GATE["thread"] == threading.get_ident() and not GATE["held"]:
        GATE["held"] = True
        GATE["inside"].set()
        GATE["go"].wait(5.0)


def refresh(updated_object):
    """What every backend does inside update_object(): write the state found in the data source into the object with
    update_from().  The state delivered here is the object's own subtree (rebuilt through the constructors) under a
    new id_short: the object was renamed in the data source."""
    if REFRESH["target"] is not updated_object:
        return
    REFRESH["target"] = None
    if REFRESH.get("state") is not None:
        # the state found in the data source has other children: some are gone, new ones (with sources of their
        # own) have appeared, a kept one may have got / lost its source
        updated_object.update_from(rt.build(copy_tree(REFRESH["state"])))
        REFRESH["done"] = True
        return
    sub = copy_tree(rt.clean(REFRESH["node"]))
    sub["k"] = REFRESH["name"]
    updated_object.update_from(rt.build(sub))
    REFRESH["done"] = True


def consume(relative_path):
    """What a backend may do with the argument it was handed: use the list up while composing an address."""
    m = BMODE["mode"]
    if not isinstance(relative_path, list) or m is None:
        return
    if m == "append":
        relative_path.append("leftover")
    elif m == "clear":
        relative_path.clear()
    elif m == "reverse":
        relative_path.reverse()
        relative_path.insert(0, "x")
    elif m == "pop":
        while relative_path:
            relative_path.pop(0)
        relative_path.extend(["used", "up"])


def backends_ready():
    """(Re-)establish the initial registry: scheme i -> recording class i."""
    from basyx.aas.backend import backends
    if not _classes:
        for i in range(NCLASSES):
            def mk(i):
                class Rec(backends.Backend):
                    @classmethod
                    def commit_object(cls, committed_object, store_object, relative_path):
                        note((1, i, store_object, committed_object, list(relative_path)))   # as it is AT CALL TIME
                        consume(relative_path)

                    @classmethod
                    def update_object(cls, updated_object, store_object, relative_path):
                        note((2, i, store_object, updated_object, list(relative_path)))
                        consume(relative_path)
                        hold()
                        refresh(updated_object)
                return Rec
            _classes.append(mk(i))
    for i, s in enumerate(SCHEMES):
        backends.register_backend(s, _classes[i])


def scheme_py(src):
    import re
    m = re.match(r"^([A-Za-z][A-Za-z0-9+.-]*):", src)     # RFC 3986 scheme, the oracle's own reading
    return m.group(1) if m else None


class FakeClock:
    """time.time / monotonic / perf_counter (and their _ns forms) as seen by the SDK during a commit()/update() call"""
    NAMES = ["time", "monotonic", "perf_counter", "time_ns", "monotonic_ns", "perf_counter_ns"]

    def __init__(self):
        self.t = 1000.0
        self.saved = None

    def __enter__(self):
        import time
        self.saved = {n: getattr(time, n) for n in self.NAMES}
        for n in self.NAMES:
            setattr(time, n, (lambda: int(self.t * 1e9)) if n.endswith("_ns") else (lambda: self.t))
        return self

    def __exit__(self, *a):
        import time
        for n, f in self.saved.items():
            setattr(time, n, f)


def run_ops(tree, ops):
    """ops: ("commit", p) | ("update", p, recursive) | ("register", scheme, class) | ("clock", step) |
            ("edit", mutation descriptor of c07.apply_mutation with si = ri = 0).
    Positions refer to the tree as it is at that point of the sequence.
    Returns (observations of the commit/update calls, oracle failures, segments); a segment =
    (tree at that time, registrations so far, ops of the segment, their observations): an edit starts a new one."""
    import copy
    import c07
    from basyx.aas import model
    from basyx.aas.backend import backends
    backends_ready()
    tree = copy.deepcopy(rt.clean(tree))
    root = rt.build(tree, attach=True)
    state = {}

    def reindex():
        state["pos_of"] = {id(n["_o"]): tuple(p) for p, n, _ in rt.walk(tree)}
        state["by_pos"] = {tuple(p): n for p, n, _ in rt.walk(tree)}
    reindex()
    obs, fails = [], []
    segments = []
    regs_so_far = []
    seg = {"tree": rt.clean(tree), "regs": [], "ops": [], "obs": []}
    clock = FakeClock()
    current = {s: i for i, s in enumerate(SCHEMES)}      # the oracle's own record: scheme -> class registered LAST
    # warm-up, not observed: every source URL of the tree is resolved once under the initial registry, so that a
    # case (and its shrunk replay in a fresh process) does not depend on what earlier cases happened to resolve
    for _, n, _ in rt.walk(tree):
        if n["_o"].source != "":
            try:
                backends.get_backend(n["_o"].source)
            except Exception:
                pass
    def judge(op, calls, err):
        pos_of, by_pos = state["pos_of"], state["by_pos"]
        kind, p = op[0], tuple(op[1])
        seg["ops"].append(op)
        rows = []
        for (k, b, so, o, rel) in calls:
            sp, ob = pos_of.get(id(so)), pos_of.get(id(o))
            row = [k, b, -5] + (list(sp) if sp is not None else [-99]) + [-6] + (list(ob) if ob is not None else [-99]) + [-7]
            for s in rel:
                row += ([-9] if s is None else enc_str(s) + [-1])
            rows.append(row)
        ecode = 0 if err is None else 3 if type(err) is ValueError else 7 if isinstance(err, backends.UnknownBackendException) else 98
        rows.append([ecode])
        obs.append(rows)
        seg["obs"].append(rows)
        # ------------------------------------------------------------ oracle
        anc = [p[:k] for k in range(len(p))]
        desc = [q for q in by_pos if len(q) > len(p) and q[:len(p)] == p]
        src = lambda q: by_pos[q]["src"]
        if kind == "commit":
            want = [(a, p) for a in anc if src(a)] + ([(p, p)] if src(p) else []) + [(d, d) for d in desc if src(d)]
            k_want = 1
        else:
            if src(p):
                want = [(p, p)]
            else:
                near = [a for a in reversed(anc) if src(a)]
                want = [(near[0], p)] if near else []
            if op[2]:
                want += [(d, d) for d in desc if src(d)]
            k_want = 2
        got = [(pos_of.get(id(so), (-99,)), pos_of.get(id(o), (-99,))) for (_, _, so, o, _) in calls]   # -99: not a node
        bad_srcs = [src(s) for s, _ in want if scheme_py(src(s)) not in current]
        tag = kind if kind == "commit" else f"update-{'recursive' if op[2] else 'single'}"
        if not bad_srcs:
            if err is not None:
                fails.append((f"C17:{tag}:raises-although-all-schemes-registered", f"{type(err).__name__}: {err}"))
            elif sorted(got) != sorted(want):
                extra = sorted(set(got) - set(want))
                missing = sorted(set(want) - set(got))
                what = "duplicate-call" if not extra and not missing else "extra-call" if extra and not missing else \
                    "missing-call" if missing and not extra else "wrong-calls"
                fails.append((f"C17:{tag}:{what}", f"calls (store, object) {sorted(got)} but expected exactly {sorted(want)}"))
        else:
            if err is None:
                fails.append((f"C17:{tag}:bad-source-not-reported", f"sources {bad_srcs} have no usable backend but no exception was raised"))
            else:
                docs = {"ValueError" if scheme_py(s) is None else "UnknownBackendException" for s in bad_srcs}
                if type(err).__name__ not in docs:
                    fails.append((f"C17:{tag}:undocumented-error", f"{type(err).__name__} raised; sources {bad_srcs} call for {sorted(docs)}"))
            if not set(got) <= set(want) or len(set(got)) != len(got):
                fails.append((f"C17:{tag}:extra-call-before-error", f"calls {sorted(got)} not within {sorted(want)}"))
        for call in calls:
            (k, b, so, o, rel) = call
            if k != k_want:
                fails.append((f"C17:{tag}:wrong-backend-method", "commit_object/update_object mixed up"))
            s_src = so.source
            if scheme_py(s_src) is None or current.get(scheme_py(s_src)) != b:
                stale = scheme_py(s_src) in current and current[scheme_py(s_src)] != SCHEMES.index(scheme_py(s_src)) \
                    if scheme_py(s_src) in SCHEMES else False
                fails.append((f"C17:{tag}:wrong-backend" + ("-after-re-registration" if stale else ""),
                              f"source {s_src!r} handled by backend class {b}, but class {current.get(scheme_py(s_src))} "
                              f"is the one registered last for its scheme"))
            # the documented contract of relative_path, as it held when the backend was called
            ok, ok_tail = call.ok, call.ok_tail
            if not ok:
                if kind == "update" and ok_tail:
                    sig = "C17:update:relative_path-starts-with-store-object"
                else:
                    sig = f"C17:{tag}:relative_path-does-not-lead-to-object"
                fails.append((sig, f"relative_path {rel} from store {so!r} does not lead to {o!r}"))
    BMODE["mode"] = None
    for op in ops:
        if op[0] == "bmode":
            BMODE["mode"] = op[1]          # not an operation of the SDK: how the recording backends treat their argument
            continue
        if op[0] == "register":
            backends.register_backend(op[1], _classes[op[2]])
            current[op[1]] = op[2]
            regs_so_far.append(op)
            seg["ops"].append(op)
            continue
        if op[0] == "clock":
            clock.t += op[1]
            seg["ops"].append(op)
            continue
        if op[0] == "edit":
            try:
                c07.apply_mutation([[tree]], op[1], True)
            except Exception as e:
                # the public API refuses an edit that is valid for the tree as built and renamed so far (e.g. a child
                # not found under its id_short): the rest of the history cannot be carried out
                fails.append(("C17:history:edit-refused", f"{op[1][0]} at {op[1][3]}: {type(e).__name__}: {e}"))
                break
            reindex()
            segments.append(seg)
            seg = {"tree": rt.clean(tree), "regs": list(regs_so_far), "ops": [], "obs": []}
            continue
        pos_of, by_pos = state["pos_of"], state["by_pos"]
        if op[0] == "pupdate":
            # two callers at once: thread A is inside update() of node p (held in its first backend call, a slow data
            # source) while this thread calls update() of node q; each caller is judged like a call of its own
            import threading
            (p, ra, q, rb) = (tuple(op[1]), op[2], tuple(op[3]), op[4])
            xa, xb = by_pos[p]["_o"], by_pos[q]["_o"]
            del LOG[:]
            res = {"a": None, "b": None}
            log_a = []
            GATE.update(inside=threading.Event(), go=threading.Event(), held=False)

            def worker():
                TLOG[threading.get_ident()] = log_a
                GATE["thread"] = threading.get_ident()
                try:
                    xa.update(recursive=ra)
                except Exception as e:
                    res["a"] = e
                finally:
                    GATE["inside"].set()
                    TLOG.pop(threading.get_ident(), None)
            with clock:
                th = threading.Thread(target=worker, name="c17-worker")
                th.start()
                GATE["inside"].wait(5.0)
                try:
                    xb.update(recursive=rb)
                except Exception as e:
                    res["b"] = e
                GATE["go"].set()
                th.join(10.0)
            GATE["thread"] = None
            todo = [(("update", p, ra), list(log_a), res["a"]), (("update", q, rb), list(LOG), res["b"])]
        else:
            x = by_pos[tuple(op[1])]["_o"]
            sop = ("update", tuple(op[1]), False) if op[0] == "refresh" else \
                ("update", tuple(op[1]), bool(op[2])) if op[0] == "refreshc" else op
            if op[0] == "refresh":
                REFRESH.update(target=x, node=by_pos[tuple(op[1])], name=op[2], done=False, state=None)
            elif op[0] == "refreshc":
                REFRESH.update(target=x, node=by_pos[tuple(op[1])], name=None, done=False, state=rt.clean(op[3]))
            del LOG[:]
            err = None
            try:
                with clock:
                    if sop[0] == "commit":
                        x.commit()
                    else:
                        x.update(recursive=sop[2])
            except Exception as e:
                err = e
            REFRESH["target"] = None
            todo = [(sop, list(LOG), err)]
            if op[0] == "refreshc" and REFRESH["done"]:
                # the backend consulted for the node itself has written the new state (other children) into it: the
                # descendants of the node are those it has from then on, the call is judged (and compared with the
                # model) on the tree as it is after the refresh - a new segment that begins with this very call
                n = by_pos[tuple(op[1])]
                new = copy_tree(rt.clean(op[3]))
                for key in [k for k in n if k != "_o"]:
                    del n[key]
                n.update(new)
                attach_live(n, x)
                reindex()
                segments.append(seg)
                seg = {"tree": rt.clean(tree), "regs": list(regs_so_far), "ops": [], "obs": []}
        for sop, calls, err in todo:
            judge(sop, calls, err)
        if op[0] == "refresh" and REFRESH["done"]:
            # the tree is the renamed one from here on (a new segment, as after an edit)
            p = tuple(op[1])
            renamed(by_pos[p[:-1]], p[-1], op[2])
            reindex()
            segments.append(seg)
            seg = {"tree": rt.clean(tree), "regs": list(regs_so_far), "ops": [], "obs": []}
    segments.append(seg)
    return obs, fails, segments


# ------------------------------------------------------------------ generation

def place_sources(rng, tree, mode, late=None):
    nodes = [n for _, n, _ in rt.walk(tree)]
    for n in nodes:
        n["src"] = ""
    if mode == "none":
        return
    dens = rng.choice([0.2, 0.4, 0.7, 1.0])
    for n in nodes:
        if rng.random() < dens:
            n["src"] = rng.choice(GOOD)
    if mode == "bad" and nodes:
        for n in rng.sample(nodes, min(len(nodes), rng.randint(1, 2))):
            n["src"] = rng.choice(BAD)[0]
    if late and nodes and rng.random() < 0.5:
        rng.choice(nodes)["src"] = late + ":zz"       # unknown scheme until this case registers it


def gen_tree(rng, depth, stats):
    key = rng.choice([None, "sm", "a"])
    names = rng.sample(rt.ID_SHORTS, rng.randint(1, 3))
    ch = [rt.gen_elem(rng, depth - 1, nm, stats=stats) for nm in names]
    if rng.random() < 0.4:
        # a list directly below the submodel (items: leaves or containers), so that list items carry / inherit sources
        ch.insert(rng.randint(0, len(ch)), rt.gen_elem(rng, max(2, depth - 1), "lst", force="SubmodelElementList", stats=stats))
    return rt.gen_attrs(rng, rt.node("Submodel", key, ch, id_="urn:a"))


CLOCK_STEPS = [0, 0, 1, -1, 5, -5, 3600, -3600, -100000, 86400]


def gen_edit(rng, tree):
    """one edit of the abstract tree (applied in place), preferably at the FRONT of a list; returns the descriptor"""
    import c07
    lists = [(p, n) for p, n, _ in rt.walk(tree) if n["c"] == "SubmodelElementList"]
    conts = [(p, n) for p, n, _ in rt.walk(tree) if n["c"] in ("Submodel", "SubmodelElementCollection", "Entity")]

    def new_item(n, key=None, elem=None):
        it = rt.gen_elem(rng, 1, key, force=elem)
        for _, x, _ in rt.walk(it):
            x["src"] = rng.choice(GOOD) if rng.random() < .4 else ""
        return it
    m = None
    if lists and rng.random() < .85:
        p, n = rng.choice(lists)
        ln = len(n["ch"])
        op = rng.choice(["insert0", "insert0", "insert", "append"] + (["del0", "del0", "pop0", "setitem", "reverse", "delslice"] if ln else []))
        if op == "insert0":
            m = ["list_insert", 0, 0, p, 0, new_item(n, elem=n["elem"])]
        elif op == "insert":
            m = ["list_insert", 0, 0, p, rng.randint(0, ln), new_item(n, elem=n["elem"])]
        elif op == "append":
            m = ["list_append", 0, 0, p, new_item(n, elem=n["elem"])]
        elif op == "del0":
            m = ["list_del", 0, 0, p, 0, 1]
        elif op == "pop0":
            m = ["list_pop", 0, 0, p, 0]
        elif op == "delslice":
            a = rng.randrange(ln)
            m = ["list_del", 0, 0, p, a, rng.randint(a + 1, ln)]
        elif op == "setitem":
            m = ["list_setitem", 0, 0, p, rng.randrange(ln), new_item(n, elem=n["elem"])]
        else:
            m = ["list_reorder", 0, 0, p, list(reversed(range(ln)))]
    elif conts:
        p, n = rng.choice(conts)
        free = [k for k in rt.ID_SHORTS if k not in [x["k"] for x in n["ch"]]]
        if n["ch"] and (not free or rng.random() < .5):
            m = ["ns_remove", 0, 0, p, rng.randrange(len(n["ch"]))]
        elif free:
            m = ["ns_add", 0, 0, p, new_item(n, key=rng.choice(free))]
    if m is None:
        return None
    c07.apply_mutation([[tree]], m)
    return m


def gen_history(rng, tree, count, late):
    """commit/update of every node (sampled), re-registrations, clock steps between repeated calls on the same
    object, and edits of the tree followed by calls on the nodes around the edit"""
    import copy
    cur = copy.deepcopy(tree)
    ops = all_ops(cur)
    if len(ops) > 36:
        ops = rng.sample(ops, 36)
    ops = with_registrations(rng, ops, count, late)
    if rng.random() < 0.5:
        # the recording backends modify the relative_path list they receive (their own argument)
        mode = rng.choice(["append", "clear", "reverse", "pop"])
        ops.insert(rng.randint(0, min(3, len(ops))), ("bmode", mode))
        count(f"backend-mutates-path={mode}")
    if rng.random() < 0.6:
        targets = [p for p, _, _ in rt.walk(cur)]
        for _ in range(rng.randint(1, 3)):
            p = rng.choice(targets)
            rec = rng.random() < .5
            for _ in range(rng.randint(1, 3)):
                step = rng.choice(CLOCK_STEPS)
                ops += [("update", p, rec), ("clock", step), ("update", p, rec)]
                count(f"clock-step={'0' if step == 0 else 'forward' if step > 0 else 'backward'}")
                if rng.random() < .4:
                    ops.append(("commit", p))
    if rng.random() < 0.35:
        # two callers at once: update() of a node while another thread is inside update() of the same node (or of a
        # node above / below it), held in its backend call
        walked = [p for p, _, _ in rt.walk(cur)]
        for _ in range(rng.randint(1, 2)):
            p = rng.choice(walked)
            rel = [q for q in walked if q[:len(p)] == p or p[:len(q)] == q]
            q = p if rng.random() < .6 else rng.choice(rel)
            ops.append(("pupdate", p, rng.random() < .5, q, rng.random() < .5))
            count("concurrent-update=" + ("same-node" if q == p else "ancestor" if len(q) < len(p) else "descendant"))
    if rng.random() < 0.35:
        # the data source delivers a renamed state of a node: the backend writes it with update_from(); afterwards
        # calls on the node and on the nodes below it
        k = 0
        for _ in range(rng.randint(1, 2)):
            cand = []
            for p, n, par in rt.walk(cur):
                if par is None or par["c"] == "SubmodelElementList":
                    continue
                if any(x["c"] in ("SubmodelElementList", "Operation") for _, x, _ in rt.walk(n)):
                    continue
                if par["c"] == "Operation":
                    continue
                serving = [by["src"] for by in chain_of(cur, p) if by["src"]]
                if serving and scheme_py(serving[-1]) in SCHEMES:
                    cand.append((p, n, par))       # update() of this node reaches a backend, whatever is registered
            if not cand:
                break
            with_desc = [c for c in cand if c[1]["ch"]]
            p, n, par = rng.choice(with_desc if with_desc and rng.random() < .7 else cand)
            k += 1
            name = rng.choice(["renamed", "Rn_", "n"]) + str(k)
            ops.append(("refresh", p, name))
            renamed(par, p[-1], name)
            p = p[:-1] + [len(par["ch"]) - 1]
            count("refresh-renames=" + ("container" if n["ch"] else "leaf"))
            below = [q for q, _, _ in rt.walk(cur) if q[:len(p)] == p]
            rng.shuffle(below)
            for q in below[:3]:
                ops += rng.sample([("commit", q), ("update", q, False), ("update", q, True)], rng.randint(1, 2))
    if rng.random() < 0.35:
        # the data source delivers a state of a node with other children (some gone, new ones with sources of their
        # own): the backend consulted for the node writes it with update_from() while update() is under way
        for _ in range(rng.randint(1, 2)):
            cand = []
            for p, n, par in rt.walk(cur):
                if n["c"] not in ("Submodel", "SubmodelElementCollection", "Entity"):
                    continue
                if any(x["c"] in ("SubmodelElementList", "Operation") for _, x, _ in rt.walk(n)):
                    continue
                if any(x["c"] in ("SubmodelElementList", "Operation") for x in chain_of(cur, p)[:-1]):
                    continue
                serving = [by["src"] for by in chain_of(cur, p) if by["src"]]
                if serving and scheme_py(serving[-1]) in SCHEMES:
                    cand.append((p, n, par))
            if not cand:
                break
            p, n, par = rng.choice(cand)
            new, ngone, nadded = gen_refreshed(rng, n)
            rec = rng.random() < .75
            ops.append(("refreshc", p, rec, new))
            for key in list(n):
                del n[key]
            n.update(copy_tree(new))
            count(f"refresh-children(recursive={rec})=" + ("gone+" if ngone else "") + ("new" if nadded else ""))
            below = [q for q, _, _ in rt.walk(cur) if q[:len(p)] == p]
            rng.shuffle(below)
            for q in below[:3]:
                ops += rng.sample([("commit", q), ("update", q, False), ("update", q, True)], rng.randint(1, 2))
    if rng.random() < 0.6:
        for _ in range(rng.randint(1, 3)):
            m = gen_edit(rng, cur)
            if m is None:
                break
            count("edit=" + m[0])
            ops.append(("edit", m))
            q = list(m[3])
            near = [p for p, _, _ in rt.walk(cur) if p[:len(q)] == q]
            rng.shuffle(near)
            for p in near[:6]:
                ops += rng.sample([("commit", p), ("update", p, False), ("update", p, True)], rng.randint(1, 2))
            if rng.random() < .5:
                ops.append(("clock", rng.choice(CLOCK_STEPS)))
                ops += [("update", p, False) for p in near[:2]]
    return ops


def attach_live(n, o):
    """remember the live objects in the abstract nodes below n (o = the live object of n), found through the public
    accessors: get_referable by id_short, the items of a list by position"""
    n["_o"] = o
    items = list(o.value) if n["c"] == "SubmodelElementList" else None
    for i, c in enumerate(n["ch"]):
        attach_live(c, items[i] if items is not None else o.get_referable(c["k"]))


def gen_refreshed(rng, n):
    """the state of node n as the data source has it now: same class, id_short, source and attributes; some children
    are gone, the kept ones come first in their old order (one of them may have got or lost its source), new
    children - leaves or small containers, most of them with a source of their own - follow"""
    new = copy_tree(rt.clean(n))
    ch = new["ch"]
    gone = [c for c in ch if rng.random() < .4]
    sourced_ch = [c for c in ch if c["src"]]
    if sourced_ch and not any(c["src"] for c in gone) and rng.random() < .6:
        gone.append(rng.choice(sourced_ch))
    kept = [c for c in ch if not any(c is g for g in gone)]
    if kept and rng.random() < .3:
        c = rng.choice(kept)
        c["src"] = "" if c["src"] else rng.choice(GOOD)
    free = [k for k in rt.ID_SHORTS + ["sensor", "n9"] if k not in [c["k"] for c in ch]]
    rng.shuffle(free)
    added = []
    for k in free[:rng.randint(0 if gone else 1, 2)]:
        it = rt.gen_elem(rng, rng.choice([1, 1, 2]), k)
        if any(x["c"] in ("SubmodelElementList", "Operation") for _, x, _ in rt.walk(it)):
            it = rt.gen_elem(rng, 1, k)
        for _, x, _ in rt.walk(it):
            x["src"] = rng.choice(GOOD) if rng.random() < .6 else ""
        added.append(it)
    new["ch"] = kept + added
    return new, len(gone), len(added)


def renamed(parent, i, name):
    """the abstract tree after child i of `parent` was re-keyed in its NamespaceSet: taken out and added again under
    the new name, which puts it behind its siblings in the iteration order of the set"""
    n = parent["ch"].pop(i)
    n["k"] = name
    parent["ch"].append(n)


def chain_of(tree, p):
    """the nodes from the root down to position p"""
    res, n = [tree], tree
    for i in p:
        n = n["ch"][i]
        res.append(n)
    return res


def flat_ops(ops):
    """the commit/update calls an operation list amounts to, in the order of their observations"""
    res = []
    for o in ops:
        if o[0] in ("commit", "update"):
            res.append(o)
        elif o[0] == "refresh":
            res.append(("update", o[1], False))
        elif o[0] == "refreshc":
            res.append(("update", o[1], bool(o[2])))
        elif o[0] == "pupdate":
            res += [("update", o[1], o[2]), ("update", o[3], o[4])]
    return res


def all_ops(tree):
    ops = []
    for p, n, _ in rt.walk(tree):
        ops += [("commit", p), ("update", p, True), ("update", p, False)]
    return ops


def with_registrations(rng, ops, count, late):
    """Insert 1-3 re-registrations (same schemes, other classes; sometimes a scheme registered for the first time)
    and repeat earlier operations after each, so that the same source URLs are resolved again."""
    if not ops or rng.random() < 0.35:
        return ops
    ops = list(ops)
    for _ in range(rng.randint(1, 3)):
        pos = rng.randint(1, len(ops))
        scheme = rng.choice(SCHEMES + SCHEMES + [late])
        reg = ("register", scheme, rng.randrange(NCLASSES))
        again = rng.sample(ops[:pos], min(pos, rng.randint(1, 4)))
        again = [o for o in again if o[0] != "register"]
        ops = ops[:pos] + [reg] + again + ops[pos:]
        count("op=register" + ("(new scheme)" if scheme == late else ""))
    return ops


def shrink_ops(tree, ops, sig):
    """shortest failing prefix, then drop single operations while the same signature still fails"""
    def failing(o):
        try:
            return any(s == sig for s, _ in run_ops(tree, o)[1])
        except Exception:
            return False          # dropping an edit may leave later positions dangling
    cur = list(ops)
    for k in range(1, len(ops) + 1):
        if failing(ops[:k]):
            cur = list(ops[:k])
            break
    changed = True
    while changed and len(cur) > 1:
        changed = False
        for i in range(len(cur) - 1):
            cand = cur[:i] + cur[i + 1:]
            if failing(cand):
                cur, changed = cand, True
                break
    return cur


def coq_op(o):
    if o[0] == "clock":
        return f"OClock {coq_z(o[1])}"
    if o[0] == "register":
        return f"ORegister {coq_str(o[1])} {o[2]}%nat"
    if o[0] == "commit":
        return f"OCommit {rt.coq_path(o[1])}"
    return f"OUpdate {rt.coq_path(o[1])} {'true' if o[2] else 'false'}"


REG = coq_list(f"({coq_str(s)}, {i}%nat)" for i, s in enumerate(SCHEMES))


def coq_segment(seg, cls_index):
    """the registrations made before the segment are replayed in front of its operations"""
    return coq_case(seg["tree"], list(seg["regs"]) + list(seg["ops"]), seg["obs"], cls_index)


def coq_case(tree, ops, obs, cls_index):
    return f"({REG}, {rt.coq_tree(tree, cls_index, with_src=True)}, {coq_list(coq_op(o) for o in ops)}, {coq_z(common.zhash_d(obs, 3))})"


def copy_tree(t):
    return json.loads(json.dumps(t))


def run(chk):
    rng = chk.rng
    quick = chk.tier == "quick"
    ncases, depth = (400, 4) if quick else (4000, 5)
    from py2coq import refkeys
    facts = None
    try:
        chk.notes.append(refkeys.regenerate())
        facts = refkeys.facts()
    except Exception as e:
        chk.tie_broken("translator", f"py2coq/refkeys.py aborted: {type(e).__name__}: {e}")
    chk.theorems("props.C17", THEOREMS, ["theories/props/C17.vo", "theories/model/DispatchObs.vo"])
    if facts is None:
        return finish(chk)
    cls_index = {c: i for i, c in enumerate(facts["concrete"])}
    cases = []
    stats = {}
    corpus = os.path.join(common.VERIF, "corpus", "C17")
    if os.path.isdir(corpus):
        for fn in sorted(os.listdir(corpus)):
            c = json.load(open(os.path.join(corpus, fn)))
            cases.append((c["tree"], [tuple(o) for o in c["ops"]]))
    # the suite's own tree shape (3 levels), as a fixed first case
    fixed = rt.node("Submodel", "exampleGrandparent", [rt.node("SubmodelElementCollection", "exampleParent", [
        rt.node("SubmodelElementCollection", "exampleReferable", [rt.node("SubmodelElementCollection", "exampleChild", [
            rt.node("Property", "exampleGrandchild")])])])], id_="urn:a")
    fixed["src"] = "verifa:exampleGrandparent"
    fixed["ch"][0]["ch"][0]["ch"][0]["ch"][0]["src"] = "verifa:exampleGrandchild"
    cases.append((fixed, all_ops(fixed)))
    # exhaustive placements on small trees: all 2^n subsets, one scheme
    n_exh = 0
    for _ in range(6 if quick else 40):
        t = gen_tree(rng, 3, stats)
        nodes = [n for _, n, _ in rt.walk(t)]
        if len(nodes) > (6 if quick else 8):
            continue
        for mask in itertools.product([0, 1], repeat=len(nodes)):
            for n, m in zip(nodes, mask):
                n["src"] = rng.choice(GOOD[:3]) if m else ""
            cases.append((copy_tree(t), all_ops(t)))
            n_exh += 1
    chk.cov["exhaustive_source_placements"] = n_exh
    for ci in range(ncases):
        t = gen_tree(rng, rng.randint(2, depth), stats)
        mode = rng.choice(["good", "good", "good", "bad", "none"] if rng.random() < .9 else ["bad"])
        # a scheme name of this case only: register_backend cannot be undone, so a scheme registered for the first
        # time must not be one that another case expects to be unknown
        late = f"late{ci}.{chk.seed}"
        place_sources(rng, t, mode, late)
        cases.append((t, gen_history(rng, t, chk.count, late)))
        chk.count(f"sources={mode}")
    terms, origin = [], []
    for ci, (tree, ops) in enumerate(cases):
        obs, fails, segments = run_ops(tree, ops)
        nn = rt.size(tree)
        nsrc = sum(1 for _, n, _ in rt.walk(tree) if n["src"])
        chk.seen((tree, ops), nontrivial=nn >= 3 and nsrc >= 1)
        chk.count(f"nodes={'1-5' if nn <= 5 else '6-15' if nn <= 15 else '>15'}")
        chk.count(f"sourced_nodes={'0' if nsrc == 0 else '1-2' if nsrc <= 2 else '3-6' if nsrc <= 6 else '>6'}")
        chk.count(f"height={rt.height(tree)}")
        for o, ob in zip(flat_ops(ops), obs):
            chk.count(f"op={o[0]}" + ("" if o[0] == "commit" else f"(recursive={o[2]})"))
            chk.count(f"calls={'0' if len(ob) == 1 else '1' if len(ob) == 2 else '2-3' if len(ob) <= 4 else '>3'}")
            chk.count("result=" + {0: "ok", 3: "ValueError", 7: "UnknownBackendException"}.get(ob[-1][0], "other"))
        seen = set()
        for sig, msg in fails:
            if sig in seen:
                continue
            seen.add(sig)
            small = shrink_ops(tree, ops, sig)
            chk.fail(sig, msg, {"tree": tree, "ops": small, "how": "tools/c17.py run_ops(tree, ops)"})
        for k, seg in enumerate(segments):
            if seg["obs"]:
                terms.append(coq_segment(seg, cls_index))
                origin.append((ci, k))
        if len(chk.samples) < 3 and nsrc >= 2 and nn >= 5:
            chk.samples.append({"tree": tree, "first_ops": ops[:3], "sdk_observations": obs[:3]})
    for c, n in stats.items():
        chk.count(f"class={c}", n)
    # scheme regex alone
    from basyx.aas.backend import backends
    urls = GOOD + [b for b, _ in BAD] + ["", "a", "a:", "A.b-c+d:e", "a1:", "a:b:c", "-a:b", "a/b:c", "ab:c\n", "a\n:b", "http://x"]
    for _ in range(300 if quick else 3000):
        urls.append("".join(rng.choice("aZ09+-.:/_ ") for _ in range(rng.randint(0, 7))))
    sch_terms = []
    for u in urls:
        m = backends.RE_URI_SCHEME.match(u)
        import c07
        sch_terms.append(f"({c07.coq_str_any(u)}, {coq_list(coq_z(x) for x in ([1] + enc_str(m[1]) if m else [0]))})")
    bad, errs = common.run_mismatch_shards("C17", PRELUDE, terms, "check_case", shard=max(8, len(terms) // 32 + 1), jobs=16)
    n1 = common.run_mismatch_shards.evaluated
    bad2, errs2 = common.run_mismatch_shards("C17sch", PRELUDE, sch_terms, "check_scheme", shard=4000)
    chk.traces = n1 - len(bad)
    chk.cov["operations_compared"] = sum(len(o) for _, o in cases)
    chk.cov["scheme_literals_compared"] = len(sch_terms)
    for e in errs + errs2:
        chk.tie_broken("correspondence-run", e)
    if bad:
        ci, k = origin[bad[0]]
        tree, ops = cases[ci]
        seg = run_ops(tree, ops)[2][k]
        sops = list(seg["regs"]) + list(seg["ops"])
        # prefixes of the segment ending in a commit/update, each with the observations of that prefix
        ends = [i + 1 for i, o in enumerate(sops) if o[0] in ("commit", "update")]
        b, e = common.run_mismatch_shards("C17s", PRELUDE, [coq_case(seg["tree"], sops[:i], seg["obs"][:j + 1], cls_index)
                                                            for j, i in enumerate(ends)], "check_case", shard=50)
        first = (sops[:ends[b[0]]], seg["obs"][b[0]]) if b else None
        model = None
        if first:
            tt = rt.coq_tree(seg["tree"], cls_index, True)
            oo = coq_list(coq_op(o) for o in first[0])
            model = common.coq_eval("C17", PRELUDE, f"(map enc_outcome (exec {REG} {tt} {oo}), "
                                                    f"map enc_outcome (spec_exec {REG} [] {tt} {oo}), wf_treeb {tt})")
        tree = seg["tree"]
        chk.tie_broken("correspondence", {"n_disagreements": len(bad), "tree": tree, "ops_up_to_first_disagreement": first and first[0],
                                          "sdk_observation_of_last_op": first and first[1], "model_and_spec_traces": model})
    if bad2:
        chk.tie_broken("correspondence-scheme", {"n": len(bad2), "first": sch_terms[bad2[0]]})
    return finish(chk)


def finish(chk):
    chk.trusted = [
        "Coq 8.16.1 kernel (coqc; vm_compute for the Examples and the correspondence)",
        "hand-written model coq/theories/model/Dispatch.v (+ Refs.v) tied to base.py/backends.py by the correspondence run",
        "tools/py2coq/refkeys.py for the class tables (is_namespace, is_list)",
        "the recording Backend never raises; backends of the SDK itself (couchdb, local_file) are not exercised",
        "parent pointers and NamespaceSet contents are consistent and id_shorts unique per namespace (property C01)",
        "tools/c17.py, tools/reftrees.py (generator, SDK driver, canonicaliser, oracle), tools/common.py",
    ]
    chk.assumptions = ["trees are built through the public constructors", "source URIs are ASCII",
                       "no backend call raises (BackendNotAvailableException is outside the model)"]
    return chk.finish(level="proof",
                      rule="seeded random Submodel trees over SubmodelElementCollection, SubmodelElementList, Entity, Operation, "
                           "AnnotatedRelationshipElement and 9 leaf classes; sources placed at random densities (3 registered "
                           "schemes incl. one with a digit, 5 good URIs; 9 bad URIs: unknown scheme / no scheme) and, on small "
                           "trees, all 2^n placements; every node as target of commit(), update(recursive=True), "
                           "update(recursive=False) (sampled to 45 ops on big trees); in ~65% of the random cases 1-3 register_backend calls "
                           "(same scheme -> another of 5 recording classes, or a scheme registered for the first time) are "
                           "interleaved and earlier operations repeated after them, so the same source URLs are resolved again; "
                           "the initial registry is re-established at the start of every case; in ~60% repeated update()/commit() of "
                           "one object with steps of a controlled clock in between (time.time/monotonic/perf_counter patched "
                           "during the calls: 0, forward, backward); in ~60% 1-3 edits of the live tree (mostly at the front "
                           "of a SubmodelElementList: insert(0), del [0], pop(0), setitem, reverse; add/remove_referable) "
                           "followed by calls on the nodes around the edit, the model evaluated on the tree as it is then; "
                           "in ~50% of the random cases the recording backends mutate the relative_path list they are handed "
                           "(append/clear/reverse/use up), the log keeps a copy taken on entry and the path is walked from the "
                           "store object at call time; in ~35% 1-2 concurrent pairs of update() calls (a worker thread is held "
                           "inside its first backend call on node p while the main thread updates p or a node above/below it; "
                           "each caller judged and compared with the model as a call of its own); in ~35% 1-2 refreshes: the "
                           "recording backend writes a renamed state of the updated node (its subtree rebuilt through the "
                           "constructors under a new id_short) with update_from(), then calls on the node and below it, the "
                           "model evaluated on the renamed tree (re-keyed child = last of its NamespaceSet); in ~35% 1-2 refreshes "
                           "that change the children: during update(recursive=True/False) of a Submodel / collection / Entity "
                           "the backend consulted for the node writes a state with other children into it (update_from(): "
                           "sourced children gone, new sourced children and small subtrees, a kept child gaining or losing its "
                           "source); the call is judged by the oracle and compared with the model on the tree as it is after "
                           "that refresh (own source + the sourced descendants the node has then), then calls below it; schemes: one letter, letter+digits/+/-/., upper case, 127 characters; non-trivial = >= 3 nodes and >= 1 source")


def replay(path):
    r = json.load(open(path))
    rp = r.get("replay") or {}
    if "ops" in rp:
        obs, fails, _ = run_ops(rp["tree"], [tuple(o) for o in rp["ops"]])
        print("observations:", obs)
        print("oracle:", fails)
        return 1 if fails else 0
    print(json.dumps(r, indent=1)[:3000])
    return 1
