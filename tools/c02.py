"""C02 - no accepted operation yields a constraint-violating metamodel object.

Theorems: coq/theories/props/C02.v.  Tie T: tools/py2coq/{refchecks,intranges,strconstraints}.py regenerate
gen/Gen_*.v from the SDK source on every run, the generated definitions are evaluated against the Python
originals (translator validation).  Tie C: hand-written state machines (model/ConstraintsModel.v) run against
the SDK classes on generated operation sequences.  Oracle: per-constraint predicates written from the
constraint texts, evaluated on the SDK's public attributes after every call (accepted => well-formed,
rejected => documented error + unchanged)."""
import itertools
import json
import os
import unicodedata

import common
from common import coq_z, coq_list

PRELUDE = ("From Coq Require Import List ZArith Bool.\n"
           "From Basyx Require Import model.Corr model.ConstraintsBase model.ConstraintsObs.\n")

THEOREMS_1 = ["C02_ext_ref_accept", "C02_ext_ref_reject", "C02_model_ref_accept", "C02_model_ref_reject",
              "C02_refs_no_index_error", "C02_keytype_predicates", "C02_ref_example_accepted", "C02_ref_example_126",
              "C02_aasd130", "C02_string_types", "C02_version_type", "C02_revision_type", "C02_lang_string_texts",
              "C02_string_errors", "C02_id_short", "C02_id_short_errors", "C02_string_example", "C02_int_ranges"]
THEOREMS_2 = ["C02_list_ctor", "C02_list_accept_wf", "C02_list_reject_unchanged", "C02_list_history", "C02_list_example",
              "C02_sem_contained_example", "C02_list_xslice_example"]
THEOREMS_3 = ["C02_adm_ctor", "C02_adm_accept_wf", "C02_adm_reject_unchanged", "C02_adm_history", "C02_adm_example",
              "C02_bee_ctor", "C02_bee_accept_wf", "C02_bee_reject_unchanged", "C02_bee_history", "C02_bee_example",
              "C02_category_accept_wf", "C02_category_reject", "C02_category_text_refuted", "C02_category_text_partial",
              "C02_lss_ctor", "C02_lss_step", "C02_lss_history", "C02_lss_example"]
THEOREMS_TV = ["C02_tv_hierarchy", "C02_tv_xsd_types", "C02_tv_cast_sound", "C02_tv_cast_identity", "C02_tv_cast_complete",
               "C02_tv_cast_errors", "C02_tv_bounds", "C02_tv_holder_ctor", "C02_tv_holder_accept_wf",
               "C02_tv_holder_reject_unchanged", "C02_tv_holder_history", "C02_tv_range_ctor", "C02_tv_range_accept_wf",
               "C02_tv_range_reject_unchanged", "C02_tv_range_history", "C02_tv_setters_property",
               "C02_tv_setters_extension", "C02_tv_setters_range", "C02_tv_list_item_retype", "C02_tv_example"]
THEOREMS_4 = ["C02_sml_accept_wf", "C02_sml_reject", "C02_sml_history", "C02_sml_example",
              "C02_sml_step", "C02_sml_ops_history", "C02_sml_ops_example"]


def enc_exc(e):
    """exception -> the code of ConstraintsObs.enc_err"""
    from basyx.aas.model import AASConstraintViolation
    if e is None:
        return 0
    if isinstance(e, AASConstraintViolation):
        return 1000 + e.constraint_id
    for cls, code in ((ValueError, 1), (TypeError, 2), (KeyError, 3), (IndexError, 4), (AttributeError, 5)):
        if isinstance(e, cls):
            return code
    return 99


def exc_name(code):
    return {0: "ok", 1: "ValueError", 2: "TypeError", 3: "KeyError", 4: "IndexError", 5: "AttributeError",
            99: "other"}.get(code, f"AASd-{code - 1000}")


def call(f):
    try:
        f()
        return None
    except Exception as e:   # noqa
        return e


def coq_bool(b):
    return "true" if b else "false"


# =====================================================================================================
# 1. references
# =====================================================================================================

def is_decimal_int(s):
    """independent reading of AASd-128 'an integer number denoting the position': decimal digits only"""
    return len(s) > 0 and all(unicodedata.category(c) == "Nd" for c in s)


def ref_spec_violations(model_ref, types, nums):
    """Violated constraints of a key chain, written from the constraint texts (constraints.rst) and the
    key-type enumerations of the metamodel; independent of the SDK predicates and of the Coq model."""
    from basyx.aas.model import KeyTypes as T
    aas_ident = {T.ASSET_ADMINISTRATION_SHELL, T.CONCEPT_DESCRIPTION, T.SUBMODEL}
    ggi = {T.GLOBAL_REFERENCE}
    gfk = {T.FRAGMENT_REFERENCE}
    sme = {T.ANNOTATED_RELATIONSHIP_ELEMENT, T.BASIC_EVENT_ELEMENT, T.BLOB, T.CAPABILITY, T.DATA_ELEMENT, T.ENTITY,
           T.EVENT_ELEMENT, T.FILE, T.MULTI_LANGUAGE_PROPERTY, T.OPERATION, T.PROPERTY, T.RANGE,
           T.REFERENCE_ELEMENT, T.RELATIONSHIP_ELEMENT, T.SUBMODEL_ELEMENT, T.SUBMODEL_ELEMENT_COLLECTION,
           T.SUBMODEL_ELEMENT_LIST}
    v = set()
    if not types:
        return {"empty"}
    if types[0] not in (aas_ident | ggi):
        v.add(121)
    if not model_ref:
        if types[0] not in ggi:
            v.add(122)
        if types[-1] not in (ggi | gfk):
            v.add(124)
        return v
    if types[0] not in aas_ident:
        v.add(123)
    if any(t not in (sme | gfk) for t in types[1:]):
        v.add(125)
    if any(t in gfk for t in types[:-1]):
        v.add(126)
    for i, t in enumerate(types):
        if t is T.FRAGMENT_REFERENCE and (i == 0 or types[i - 1] not in (T.FILE, T.BLOB)):
            v.add(127)
        if i > 0 and types[i - 1] is T.SUBMODEL_ELEMENT_LIST and not nums[i]:
            v.add(128)
    return v


def ref_oracle(model_ref, types, nums, code):
    """None if the SDK's outcome `code` is in line with the property, else a message"""
    viol = ref_spec_violations(model_ref, types, nums)
    if code == 0:
        if viol:
            return f"accepted although it violates {sorted(map(str, viol))}"
        return None
    if "empty" in viol:
        return None if code == 1 else f"empty key tuple raised {exc_name(code)} instead of ValueError"
    if code < 1000:
        return f"raised {exc_name(code)} instead of an AASConstraintViolation"
    if not viol:
        return f"rejected with {exc_name(code)} although no constraint is violated"
    if (code - 1000) not in viol:
        return f"raised {exc_name(code)} but the violated constraints are {sorted(map(str, viol))}"
    return None


def frag_refs(chk, info):
    from basyx.aas import model
    KT = list(model.KeyTypes)
    if [m.name for m in KT] != [m for m, _ in info["members"]]:
        chk.tie_broken("translator-validation", {"what": "KeyTypes member order differs from the translated enum",
                                                 "sdk": [m.name for m in KT], "gen": info["members"]})
        return
    # -- the translated key-type predicates against the Python properties, every member
    rng = chk.rng
    keys = {(t, n): model.Key(t, "5" if n else "x") for t in KT for n in (False, True)}

    def run(model_ref, types, vals):
        ks = tuple(model.Key(t, v) for t, v in zip(types, vals))
        return enc_exc(call(lambda: model.ModelReference(ks, model.Referable) if model_ref
                            else model.ExternalReference(ks)))

    def run_fast(model_ref, idx, num):
        ks = tuple(keys[(KT[i], num)] for i in idx)
        try:
            if model_ref:
                model.ModelReference(ks, model.Referable)
            else:
                model.ExternalReference(ks)
            return 0
        except Exception as e:  # noqa
            return enc_exc(e)

    # -- whole tables: all sequences of length <= maxlen (x numeric flag x reference class)
    maxlen = 3 if chk.tier == "quick" else 4
    tables = []
    nseq = 0
    for model_ref in (False, True):
        for n in range(0, maxlen + 1):
            for num in (False, True):
                if (n == 0 or n == 4) and num:     # the numeric flag only matters for adjacent pairs (AASd-128)
                    continue
                codes = []
                for idx in itertools.product(range(len(KT)), repeat=n):
                    c = run_fast(model_ref, idx, num)
                    codes.append(c)
                    types = [KT[i] for i in idx]
                    msg = ref_oracle(model_ref, types, [num] * n, c)
                    if msg:
                        report_ref(chk, model_ref, types, ["5" if num else "x"] * n, msg)
                nseq += len(codes)
                chk.count(f"ref_table:{'model' if model_ref else 'external'}:len={n}", len(codes))
                tables.append((model_ref, n, num, common.zhash_d(codes, 1)))
    chk.evaluations += nseq
    chk.cov["reference_tables"] = (f"all {len(KT)}^n key-type sequences for n <= {maxlen}, both numeric flags, "
                                   f"ExternalReference and ModelReference: {nseq} constructor calls on the SDK, "
                                   f"each judged by the oracle; results compared with Gen_RefChecks via one hash per table")
    terms = [f"({coq_bool(m)}, {n}%nat, {coq_bool(num)}, {coq_z(h)})" for (m, n, num, h) in tables]
    bad, errs = common.run_mismatch_shards("C02rt", PRELUDE, terms, "check_ref_table", shard=3, timeout=900)
    for e in errs:
        chk.tie_broken("translator-validation-run", e)
    if common.run_mismatch_shards.evaluated:
        chk.traces += sum(len(KT) ** t[1] for i, t in enumerate(tables) if i not in bad) if not errs else 0
    for b in bad:
        m, n, num, _ = tables[b]
        chk.tie_broken("translator-validation", {"what": "reference table differs between SDK and Gen_RefChecks",
                                                 "model_ref": m, "length": n, "numeric": num})
    # -- explicit cases: corpus, long chains, nasty key values
    nasty = ["5", "0", "007", "x", "", "-5", "+5", "5.5", " 5", "5_0", "½", "²", "٣", "١٢", "1e3", "5\n", "\n5", "5 ",
             "５"]
    cases = []
    cdir = os.path.join(common.VERIF, "corpus", "C02")
    if os.path.isdir(cdir):
        for fn in sorted(os.listdir(cdir)):
            c = json.load(open(os.path.join(cdir, fn)))
            if c.get("kind") == "ref":
                cases.append((c["model_ref"], [model.KeyTypes[t] for t in c["types"]], c["values"]))
    interesting = [model.KeyTypes.SUBMODEL, model.KeyTypes.FILE, model.KeyTypes.BLOB, model.KeyTypes.FRAGMENT_REFERENCE,
                   model.KeyTypes.SUBMODEL_ELEMENT_LIST, model.KeyTypes.PROPERTY, model.KeyTypes.GLOBAL_REFERENCE,
                   model.KeyTypes.SUBMODEL_ELEMENT_COLLECTION, model.KeyTypes.ASSET_ADMINISTRATION_SHELL]
    for _ in range(1500 if chk.tier == "quick" else 12000):
        n = rng.randint(1, 8)
        pool = interesting if rng.random() < 0.8 else KT
        types = [rng.choice(pool) for _ in range(n)]
        if rng.random() < 0.6:
            types[0] = rng.choice([model.KeyTypes.SUBMODEL, model.KeyTypes.GLOBAL_REFERENCE,
                                   model.KeyTypes.ASSET_ADMINISTRATION_SHELL])
        vals = [rng.choice(nasty) if rng.random() < 0.5 else "5" for _ in range(n)]
        vals = [v if v != "" else "x" for v in vals]      # Key() itself rejects the empty Identifier
        cases.append((rng.random() < 0.75, types, vals))
    terms = []
    for model_ref, types, vals in cases:
        code = run(model_ref, types, vals)
        nums = [is_decimal_int(v) for v in vals]
        msg = ref_oracle(model_ref, types, nums, code)
        chk.seen(("ref", model_ref, [t.name for t in types], vals), nontrivial=len(types) >= 2)
        chk.count("ref_case:" + exc_name(code))
        if msg:
            report_ref(chk, model_ref, types, vals, msg)
        terms.append("(" + coq_bool(model_ref) + ", "
                     + (coq_list(f"({KT.index(t)}%nat, {coq_bool(n)})" for t, n in zip(types, nums)) if types
                        else "(@nil (nat * bool))")
                     + ", " + coq_z(code) + ")")
    bad, errs = common.run_mismatch_shards("C02rc", PRELUDE, terms, "check_ref_case", shard=1000)
    chk.traces += common.run_mismatch_shards.evaluated - len(bad)
    for e in errs:
        chk.tie_broken("translator-validation-run", e)
    if bad:
        m, types, vals = cases[bad[0]]
        chk.tie_broken("translator-validation", {"what": "reference constructor differs from Gen_RefChecks",
                                                 "n": len(bad), "model_ref": m, "types": [t.name for t in types],
                                                 "values": vals, "sdk": exc_name(run(m, types, vals))})
    # -- the numeric test of the SDK against the independent reading, on single values
    for v in nasty:
        if v:
            got = run(True, [model.KeyTypes.SUBMODEL, model.KeyTypes.SUBMODEL_ELEMENT_LIST, model.KeyTypes.PROPERTY],
                      ["x", "x", v]) == 0
            if got != is_decimal_int(v):
                report_ref(chk, True, [model.KeyTypes.SUBMODEL, model.KeyTypes.SUBMODEL_ELEMENT_LIST,
                                       model.KeyTypes.PROPERTY], ["x", "x", v],
                           "index key value " + ("accepted" if got else "rejected") + " against AASd-128")
    # -- immutability of the checked object
    r = model.ModelReference((model.Key(model.KeyTypes.SUBMODEL, "x"),), model.Submodel)
    k = r.key[0]
    for what, f in (("Reference.key", lambda: setattr(r, "key", ())), ("Key.type", lambda: setattr(k, "type", None)),
                    ("Key.value", lambda: setattr(k, "value", "y")), ("Reference.type", lambda: setattr(r, "type", int))):
        e = call(f)
        if not isinstance(e, AttributeError):
            chk.fail("C02:ref:mutable", f"assignment to {what} did not raise AttributeError",
                     {"kind": "ref-mutable", "what": what})
    if not isinstance(r.key, tuple):
        chk.fail("C02:ref:mutable", "Reference.key is not a tuple", {"kind": "ref-mutable", "what": "key type"})


def report_ref(chk, model_ref, types, vals, msg):
    # shrink: drop keys while the oracle still fails
    from basyx.aas import model

    def fails(ts, vs):
        ks = tuple(model.Key(t, v) for t, v in zip(ts, vs))
        code = enc_exc(call(lambda: model.ModelReference(ks, model.Referable) if model_ref
                            else model.ExternalReference(ks)))
        return ref_oracle(model_ref, ts, [is_decimal_int(v) for v in vs], code)
    ts, vs = list(types), list(vals)
    changed = True
    while changed:
        changed = False
        for i in range(len(ts)):
            t2, v2 = ts[:i] + ts[i + 1:], vs[:i] + vs[i + 1:]
            if fails(t2, v2):
                ts, vs, changed = t2, v2, True
                break
    m = fails(ts, vs) or msg
    import re
    viol = sorted(map(str, ref_spec_violations(model_ref, ts, [is_decimal_int(v) for v in vs])))
    sig = f"C02:ref:{'model' if model_ref else 'external'}:" + re.sub(r"\d+|'[^']*'", "_", m)[:60] + ":" + ",".join(viol)
    chk.fail(sig, f"{'ModelReference' if model_ref else 'ExternalReference'}({[t.name for t in ts]}, values {vs}): {m}",
             {"kind": "ref", "model_ref": model_ref, "types": [t.name for t in ts], "values": vs})


# =====================================================================================================
# 2. bounded integers
# =====================================================================================================

XSD_BOUNDS = {   # XML Schema Part 2: Datatypes, 3.3.13 ff (written from the standard)
    "Integer": (None, None), "Long": (-2 ** 63, 2 ** 63 - 1), "Int": (-2 ** 31, 2 ** 31 - 1),
    "Short": (-2 ** 15, 2 ** 15 - 1), "Byte": (-128, 127), "NonPositiveInteger": (None, 0),
    "NegativeInteger": (None, -1), "NonNegativeInteger": (0, None), "PositiveInteger": (1, None),
    "UnsignedLong": (0, 2 ** 64 - 1), "UnsignedInt": (0, 2 ** 32 - 1), "UnsignedShort": (0, 2 ** 16 - 1),
    "UnsignedByte": (0, 255),
}


def frag_ints(chk, info):
    from basyx.aas import model
    from basyx.aas.model import datatypes as dt
    names = info["types"]
    if set(names) != set(XSD_BOUNDS):
        chk.tie_broken("translator-validation", {"what": "set of integer types changed", "gen": names})
    terms = []
    rng = chk.rng
    for i, n in enumerate(names):
        if n not in XSD_BOUNDS:
            continue
        cls = getattr(dt, n)
        lo, hi = XSD_BOUNDS[n]
        vals = {0, 1, -1, 2 ** 70, -2 ** 70}
        for b in (lo, hi):
            if b is not None:
                vals |= {b - 1, b, b + 1}
        for b in (7, 8, 15, 16, 31, 32, 63, 64):
            vals |= {2 ** b - 1, 2 ** b, -2 ** b, -2 ** b - 1}
        for _ in range(10 if chk.tier == "quick" else 200):
            vals.add(rng.randint(-2 ** 65, 2 ** 65))
        for v in sorted(vals):
            ok_spec = (lo is None or lo <= v) and (hi is None or v <= hi)
            e = call(lambda: cls(v))
            got = e is None
            terms.append(f"({i}%nat, {coq_z(v)}, {coq_bool(got)})")
            chk.seen(("int", n, v), nontrivial=True)
            chk.count("int:" + ("accepted" if got else "rejected"))
            msg = None
            if got != ok_spec:
                msg = f"{n}({v}) " + ("accepted" if got else "rejected") + f" against the XSD range [{lo}, {hi}]"
            elif e is not None and not isinstance(e, ValueError):
                msg = f"{n}({v}) raised {type(e).__name__} instead of ValueError"
            # the same value through the typed-value setters of the metamodel classes
            for mk in (lambda: model.Property("p", cls), lambda: model.Qualifier("q", cls),
                       lambda: model.Extension("e", cls)):
                o = mk()
                e2 = call(lambda: setattr(o, "value", v))
                if (e2 is None) != ok_spec:
                    msg = msg or f"{type(o).__name__}.value = {v} with value_type {n}: " + \
                        ("accepted" if e2 is None else "rejected") + f" against the XSD range [{lo}, {hi}]"
                elif e2 is None and not (isinstance(o.value, cls) and o.value == v):
                    msg = msg or f"{type(o).__name__}.value = {v}: stored {o.value!r} is not a {n}"
                elif e2 is not None and (not isinstance(e2, ValueError) or o.value is not None):
                    msg = msg or f"{type(o).__name__}.value = {v}: {type(e2).__name__}, value afterwards {o.value!r}"
            if msg:
                edge = "edge" if any(b is not None and abs(v - b) <= 1 for b in (lo, hi)) else "inner"
                chk.fail(f"C02:int:{n}:{edge}", msg, {"kind": "int", "type": n, "value": v})
    bad, errs = common.run_mismatch_shards("C02int", PRELUDE, terms, "check_int_case", shard=2000)
    chk.traces += common.run_mismatch_shards.evaluated - len(bad)
    for e in errs:
        chk.tie_broken("translator-validation-run", e)
    if bad:
        chk.tie_broken("translator-validation", {"what": "integer range differs between SDK and Gen_IntRanges",
                                                 "n": len(bad), "first": terms[bad[0]], "types": names})


# =====================================================================================================
# 3. constrained strings
# =====================================================================================================

AASD130_EDGES = [0x8, 0x9, 0xA, 0xB, 0xC, 0xD, 0xE, 0x1F, 0x20, 0x21, 0x7F, 0xD7FE, 0xD7FF, 0xD800, 0xDFFF, 0xE000,
                 0xE001, 0xFFFC, 0xFFFD, 0xFFFE, 0xFFFF, 0x10000, 0x10001, 0x10FFFE, 0x10FFFF, 0x0]


def xml_char(c):   # XML 1.0 production [2] Char, as quoted by AASd-130
    return c in (0x9, 0xA, 0xD) or 0x20 <= c <= 0xD7FF or 0xE000 <= c <= 0xFFFD or 0x10000 <= c <= 0x10FFFF


def version_ok(s):   # "0" or digits without leading zero (VersionType/RevisionType pattern of the metamodel)
    return len(s) >= 1 and all(c in "0123456789" for c in s) and (len(s) == 1 or s[0] != "0")


# documented limits (metamodel Part 1 / class docstrings), independent of the translated table
STRING_LIMITS = {
    "check_content_type": (1, 100), "check_identifier": (1, 2000), "check_label_type": (1, 64),
    "check_message_topic_type": (1, 255), "check_name_type": (1, 128), "check_path_type": (1, 2000),
    "check_qualifier_type": (1, 128), "check_revision_type": (1, 4), "check_short_name_type": (1, 64),
    "check_value_type_iec61360": (1, 2000), "check_version_type": (1, 4),
    "lss_check_MultiLanguageNameType": (1, 64), "lss_check_MultiLanguageTextType": (1, 1023),
    "lss_check_DefinitionTypeIEC61360": (1, 1023), "lss_check_PreferredNameTypeIEC61360": (1, 255),
    "lss_check_ShortNameTypeIEC61360": (1, 18),
}


def string_spec_ok(kind, s):
    lo, hi = STRING_LIMITS[kind]
    if not (lo <= len(s) <= hi and all(xml_char(ord(c)) for c in s)):
        return False
    if kind in ("check_version_type", "check_revision_type"):
        return version_ok(s)
    return True


def rle(s):
    out = []
    for ch in s:
        if out and out[-1][0] == ord(ch):
            out[-1][1] += 1
        else:
            out.append([ord(ch), 1])
    return coq_list(f"({c}, {n}%nat)" for c, n in out) if out else "(@nil (Z * nat))"


def boundary_strings(kind, rng, extra):
    lo, hi = STRING_LIMITS[kind]
    fill = "1" if kind in ("check_version_type", "check_revision_type") else "a"
    res = [fill * n for n in sorted({max(lo - 1, 0), lo, lo + 1, hi - 1, hi, hi + 1})]
    for c in AASD130_EDGES:
        for n in (lo, min(3, hi), hi):
            for pos in (0, n // 2, n - 1):
                s = list(fill * n)
                if n:
                    s[pos] = chr(c)
                    res.append("".join(s))
    if kind in ("check_version_type", "check_revision_type"):
        res += ["0", "00", "01", "10", "1", "9", "9999", "10000", "0999", "a", "1a", "a1", "-1", "+1", "1.0", " 1", "1 ",
                "1\n", "٣", "1٣", "１", "0000", "1000", "010", "999\n", "\n1", "1\r", "9\t", "1\x00"]
        res += ["".join(rng.choice("0123456789") for _ in range(rng.randint(1, 5))) for _ in range(extra)]
    else:
        for _ in range(extra):
            n = rng.choice([lo, hi, rng.randint(lo, min(hi, 40))])
            s = [rng.choice("ab_1 \t") for _ in range(n)]
            if n and rng.random() < 0.6:
                s[rng.randrange(n)] = chr(rng.choice(AASD130_EDGES))
            res.append("".join(s))
    return res


def frag_strs(chk, info):
    from basyx.aas import model
    from basyx.aas.model import _string_constraints as sc
    names = info["string_checks"]
    if set(names) != set(STRING_LIMITS):
        chk.tie_broken("translator-validation", {"what": "set of constrained string types changed", "gen": names})
    lss_classes = {"lss_check_" + c: getattr(model, c) for c in info["lss"]}
    terms, idterms = [], []
    rng = chk.rng
    extra = 6 if chk.tier == "quick" else 150
    for i, kind in enumerate(names):
        if kind not in STRING_LIMITS:
            continue
        for s in boundary_strings(kind, rng, extra):
            if kind in lss_classes:
                e = call(lambda: lss_classes[kind]({"en": s}))
            else:
                e = call(lambda: getattr(sc, kind)(s))
            code = enc_exc(e)
            terms.append(f"({i}%nat, {rle(s)}, {coq_z(code)})")
            chk.seen(("str", kind, s), nontrivial=len(s) > 0)
            chk.count("str:" + exc_name(code))
            ok = string_spec_ok(kind, s)
            if (code == 0) != ok or code not in (0, 1):
                chk.fail(f"C02:str:{kind}:" + ("accepted-invalid" if code == 0 else "rejected-valid" if ok else "error-class"),
                         f"{kind}({s[:20]!r}... len {len(s)}) -> {exc_name(code)}, specification says "
                         + ("valid" if ok else "invalid"), {"kind": "str", "check": kind, "codes": [ord(c) for c in s]})
    # idShort
    ids = ["a", "A", "z", "Z", "a1", "a_", "_a", "1a", "a-", "a b", "", "é", "aé", "éa", "a" * 128, "a" * 129,
           "a\n", "аbc", "A" + "_" * 127, "aa\ud800", "ª", "aª", "Ａ", "a１", "a" * 127 + "\n", "\na", "a\r", "a\x00", "a b\n"]
    for _ in range(40 if chk.tier == "quick" else 600):
        n = rng.choice([1, 2, 3, 127, 128, 129])
        s = [rng.choice("abzAZ09_") for _ in range(n)]
        if rng.random() < 0.4:
            s[rng.randrange(n)] = rng.choice("-. éªＡ\t") if rng.random() < .7 else chr(rng.choice(AASD130_EDGES))
        ids.append("".join(s))
    for s in ids:
        code = enc_exc(call(lambda: model.Referable.validate_id_short(s)))
        # through the public attribute as well (constructor and setter agree)
        code2 = enc_exc(call(lambda: model.Property(s, model.datatypes.Int)))
        p = model.Property("keep", model.datatypes.Int)
        code3 = enc_exc(call(lambda: setattr(p, "id_short", s)))
        # ... and on an element that is already contained in a submodel / a collection
        for holder, nss in ((model.Submodel("urn:h"), "submodel_element"), (model.SubmodelElementCollection("h"), "value")):
            pc = model.Property("keep", model.datatypes.Int)
            getattr(holder, nss).add(pc)
            code4 = enc_exc(call(lambda: setattr(pc, "id_short", s)))
            if s and code4 != code:
                chk.fail("C02:idshort:contained-setter-disagrees", f"id_short {s[:20]!r} on a contained element: "
                         f"{exc_name(code4)}, free-standing: {exc_name(code)}", {"kind": "idshort", "codes": [ord(c) for c in s]})
            elif code4 != 0 and (pc.id_short != "keep" or pc.parent is not holder):
                chk.fail("C02:idshort:contained-rejected-changed", f"rejected id_short {s[:20]!r} on a contained element changed it",
                         {"kind": "idshort", "codes": [ord(c) for c in s]})
            elif code4 == 0 and (pc.id_short != s or holder.get_referable(s) is not pc):
                chk.fail("C02:idshort:contained-accepted-not-stored", f"accepted id_short {s[:20]!r} on a contained element not stored",
                         {"kind": "idshort", "codes": [ord(c) for c in s]})
        ok = (1 <= len(s) <= 128 and all(c in "abcdefghijklmnopqrstuvwxyzABCDEFGHIJKLMNOPQRSTUVWXYZ0123456789_" for c in s)
              and s[0] in "abcdefghijklmnopqrstuvwxyzABCDEFGHIJKLMNOPQRSTUVWXYZ")
        chk.seen(("idshort", s), nontrivial=True)
        chk.count("idshort:" + exc_name(code))
        if s:
            idterms.append(f"({rle(s)}, {coq_z(code)})")
        msg = None
        if (code == 0) != ok:
            msg = f"validate_id_short({s[:20]!r}) -> {exc_name(code)}, AASd-002/NameType say " + ("valid" if ok else "invalid")
        elif code not in (0, 1, 1002) and s:
            msg = f"validate_id_short({s[:20]!r}) raised {exc_name(code)}"
        elif s and not (code == code2 == code3):
            msg = f"id_short {s[:20]!r}: validate/constructor/setter disagree: {exc_name(code)}/{exc_name(code2)}/{exc_name(code3)}"
        elif code3 != 0 and p.id_short != "keep":
            msg = f"rejected id_short assignment changed the attribute to {p.id_short!r}"
        elif code3 == 0 and p.id_short != s:
            msg = "accepted id_short assignment not stored"
        if msg:
            chk.fail("C02:idshort:" + ("accepted-invalid" if code == 0 and not ok else "other"), msg,
                     {"kind": "idshort", "codes": [ord(c) for c in s]})
    alpha_terms = [f"({c}, {coq_bool(chr(c).isalpha())})" for c in range(128)]
    for tag, tt, fn, shard in (("C02str", terms, "check_str_case", 400), ("C02ids", idterms, "check_idshort_case", 400),
                               ("C02alpha", alpha_terms, "check_isalpha_case", 200)):
        bad, errs = common.run_mismatch_shards(tag, PRELUDE, tt, fn, shard=shard)
        chk.traces += common.run_mismatch_shards.evaluated - len(bad)
        for e in errs:
            chk.tie_broken("translator-validation-run", e)
        if bad:
            chk.tie_broken("translator-validation", {"what": f"{fn}: SDK and Gen_StrConstraints disagree",
                                                     "n": len(bad), "first": tt[bad[0]][:300]})
    frag_str_attrs(chk, info)


def frag_str_attrs(chk, info):
    """every attribute guarded by a constrained string type, through the public API: constructor and setter;
    accepted => stored and valid; rejected => ValueError and unchanged; None is accepted without check"""
    from basyx.aas import model
    dtI = model.datatypes.Int
    gref = model.ExternalReference((model.Key(model.KeyTypes.GLOBAL_REFERENCE, "x"),))
    mref = model.ModelReference((model.Key(model.KeyTypes.SUBMODEL, "x"),), model.Submodel)
    def contained(obj, set_name):
        holder = model.Submodel("urn:holder")
        getattr(holder, set_name).add(obj)
        return obj
    # (label, spec kind, factory(valid value) -> object, attribute, optional?)
    A = [
        ("AssetInformation.asset_type", "check_identifier", lambda v: model.AssetInformation(global_asset_id="g", asset_type=v), "asset_type", True),
        ("AssetInformation.global_asset_id", "check_identifier", lambda v: model.AssetInformation(global_asset_id=v, specific_asset_id=[model.SpecificAssetId("n", "v")]), "global_asset_id", True),
        ("Entity.global_asset_id", "check_identifier", lambda v: model.Entity("e", model.EntityType.SELF_MANAGED_ENTITY, global_asset_id=v, specific_asset_id=[model.SpecificAssetId("n", "v")]), "global_asset_id", True),
        ("Resource.content_type", "check_content_type", lambda v: model.Resource("p", v), "content_type", True),
        ("Resource.path", "check_path_type", lambda v: model.Resource(v), "path", False),
        ("AdministrativeInformation.template_id", "check_identifier", lambda v: model.AdministrativeInformation(template_id=v), "template_id", True),
        ("Submodel.id", "check_identifier", lambda v: model.Submodel(v), "id", False),
        ("ConceptDescription.id", "check_identifier", lambda v: model.ConceptDescription(v), "id", False),
        ("ValueReferencePair.value", "check_value_type_iec61360", lambda v: model.ValueReferencePair(v, gref), "value", False),
        ("DataSpecificationIEC61360.value", "check_value_type_iec61360", lambda v: model.DataSpecificationIEC61360(model.PreferredNameTypeIEC61360({"en": "n"}), value=v), "value", True),
        ("Blob.content_type", "check_content_type", lambda v: model.Blob("b", v), "content_type", False),
        ("File.content_type", "check_content_type", lambda v: model.File("f", v), "content_type", False),
        ("File.value", "check_path_type", lambda v: model.File("f", "a/b", value=v), "value", True),
        ("BasicEventElement.message_topic", "check_message_topic_type", lambda v: model.BasicEventElement("e", mref, model.Direction.OUTPUT, model.StateOfEvent.ON, message_topic=v), "message_topic", True),
        ("Extension.name", "check_name_type", lambda v: model.Extension(v), "name", False),
        ("Qualifier.type", "check_qualifier_type", lambda v: model.Qualifier(v, dtI), "type", False),
        # the same setters on objects that are already contained in a namespace (the setters branch on self.parent)
        ("Extension.name(contained)", "check_name_type", lambda v: contained(model.Extension(v), "extension"), "name", False),
        ("Qualifier.type(contained)", "check_qualifier_type", lambda v: contained(model.Qualifier(v, dtI), "qualifier"), "type", False),
        ("File.value(contained)", "check_path_type", lambda v: contained(model.File("f", "a/b", value=v), "submodel_element"), "value", True),
        ("Submodel.category(contained SMC)", "check_name_type", lambda v: contained(model.SubmodelElementCollection("c", category=v), "submodel_element"), "category", True),
        ("Property.category(File)", "check_name_type", lambda v: model.File("f", "a/b", category=v), "category", True),
        ("Submodel.category", "check_name_type", lambda v: model.Submodel("i", category=v), "category", True),
        ("AdministrativeInformation.version", "check_version_type", lambda v: model.AdministrativeInformation(version=v), "version", True),
        ("AdministrativeInformation.revision", "check_revision_type", lambda v: model.AdministrativeInformation(version="1", revision=v), "revision", True),
    ]
    # constructor-only (immutable) strings
    C = [
        ("Key.value", "check_identifier", lambda v: model.Key(model.KeyTypes.SUBMODEL, v), "value"),
        ("SpecificAssetId.name", "check_label_type", lambda v: model.SpecificAssetId(v, "v"), "name"),
        ("SpecificAssetId.value", "check_identifier", lambda v: model.SpecificAssetId("n", v), "value"),
    ]
    decorated = {(c, a) for (_, c, a, _) in info.get("decorated", [])}
    covered = {tuple(lbl.split("(")[0].split(".")) for lbl, *_ in A}
    inherit = {("Identifiable", "id"): ("Submodel", "id")}
    missing = [d for d in decorated if d not in covered and inherit.get(d) not in covered]
    if missing:
        chk.notes.append(f"decorated attributes without a public-API probe: {sorted(missing)}")
        chk.cov["unprobed_decorated_attributes"] = sorted(map(list, missing))
    rng = chk.rng
    for lbl, kind, mk, attr, optional in A:
        valid = "1" if "version" in kind or "revision" in kind else "a"
        if "(contained)" in lbl:
            valid = "zq"        # not among the probe strings: re-assigning the current name of a contained Extension /
            #                     Qualifier collides with itself in the namespace (KeyError; uniqueness is property C01)
        for s in boundary_strings(kind, rng, 0)[:: (3 if chk.tier == "quick" else 1)] + ([] if "(contained)" in lbl else [valid]):
            ok = string_spec_ok(kind, s)
            chk.seen(("attr", lbl, s), nontrivial=True)
            chk.count("attr:" + lbl)
            # constructor
            e = call(lambda: mk(s))
            msg = attr_verdict(e, ok, lambda: getattr(mk(s), attr), s, None, lbl + " (constructor)")
            # setter on a valid object
            o = mk(valid)
            e = call(lambda: setattr(o, attr, s))
            msg = msg or attr_verdict(e, ok, lambda: getattr(o, attr), s, valid, lbl + " (setter)")
            if msg:
                chk.fail(f"C02:strattr:{lbl}:" + ("accepted-invalid" if "accepted" in msg else "rejected-valid-or-error"), msg,
                         {"kind": "strattr", "label": lbl, "codes": [ord(c) for c in s]})
        if optional:
            o = mk(valid)
            e = call(lambda: setattr(o, attr, None))
            if e is not None or getattr(o, attr) is not None:
                if not (lbl.endswith("version") or "global_asset_id" in lbl):
                    chk.fail(f"C02:strattr:{lbl}:none", f"{lbl} = None: {e!r}", {"kind": "strattr-none", "label": lbl})
    for lbl, kind, mk, attr in C:
        for s in boundary_strings(kind, rng, 0)[:: (3 if chk.tier == "quick" else 1)]:
            ok = string_spec_ok(kind, s)
            chk.seen(("ctor", lbl, s), nontrivial=True)
            e = call(lambda: mk(s))
            msg = attr_verdict(e, ok, lambda: getattr(mk(s), attr), s, None, lbl + " (constructor)")
            if msg:
                chk.fail(f"C02:strattr:{lbl}:" + ("accepted-invalid" if not ok else "rejected-valid-or-error"), msg,
                         {"kind": "strattr", "label": lbl, "codes": [ord(c) for c in s]})


def attr_verdict(e, ok, read, s, before, lbl):
    from basyx.aas.model import AASConstraintViolation
    if "category(File)" in lbl and s == "" and isinstance(e, AASConstraintViolation) and e.constraint_id == 100:
        e = ValueError("AASd-100: empty string (documented for data elements)")
    if e is None:
        if not ok:
            return f"{lbl}: invalid string (len {len(s)}, {s[:12]!r}) accepted"
        if read() != s:
            return f"{lbl}: accepted value not stored"
        return None
    if ok:
        return f"{lbl}: valid string (len {len(s)}) rejected with {type(e).__name__}"
    if type(e) is not ValueError:
        return f"{lbl}: rejected with {type(e).__name__} instead of ValueError"
    if before is not None and read() != before:
        return f"{lbl}: rejected assignment changed the attribute"
    return None


# =====================================================================================================

def regenerate(chk):
    from py2coq import refchecks, intranges, strconstraints, beechecks, semsetter, typedvalues, typedsetters
    from py2coq.c02engine import Abort
    infos = {}
    for name, mod in (("refs", refchecks), ("ints", intranges), ("strs", strconstraints), ("bee", beechecks),
                      ("sem", semsetter), ("typed", typedvalues), ("typedset", typedsetters)):
        try:
            infos[name] = mod.regenerate(common.REPO, common.GEN)
        except Abort as e:
            chk.tie_broken("translator-abort", {"translator": mod.__name__, "detail": str(e)[:1500]})
            infos[name] = None
        except (OSError, SyntaxError) as e:
            chk.tie_broken("translator-abort", {"translator": mod.__name__, "detail": repr(e)[:1500]})
            infos[name] = None
    return infos


def fallback_info():
    """when a translator aborts, the oracle still runs on the SDK; tables come from the SDK itself"""
    from basyx.aas import model
    return {"members": [(m.name, m.value) for m in model.KeyTypes]}


def run(chk):
    with common.CoqLock():
        infos = regenerate(chk)
    vo = ["theories/props/C02.vo", "theories/props/C02tv.vo", "theories/model/ConstraintsObs.vo",
          "theories/model/TypedValueObs.vo"]
    built = chk.theorems("props.C02", THEOREMS_1 + THEOREMS_2 + THEOREMS_3 + THEOREMS_4, vo)
    if built or not chk.broken:
        built = chk.theorems("props.C02tv", THEOREMS_TV, vo) and built
    chk.cov["translators"] = {k: ("ok" if v else "ABORTED") for k, v in infos.items()}
    can_eval = built or not any(b.get("kind") == "proof" and "module" in b for b in chk.broken)
    if not can_eval:
        # Coq side unavailable: run the oracle only (run_mismatch_shards would report every shard as an error)
        common_run = common.run_mismatch_shards
        def _no_eval(*a, **k):
            _no_eval.evaluated = 0
            return [], []
        _no_eval.evaluated = 0
        common.run_mismatch_shards = _no_eval
    try:
        frag_refs(chk, infos["refs"] or fallback_info())
        if infos["ints"]:
            frag_ints(chk, infos["ints"])
        else:
            frag_ints(chk, {"types": list(XSD_BOUNDS)})
        if infos["strs"]:
            frag_strs(chk, infos["strs"])
        else:
            frag_strs(chk, {"string_checks": list(STRING_LIMITS), "lss": {k[len("lss_check_"):]: {} for k in STRING_LIMITS
                                                                         if k.startswith("lss_check_")}})
        import c02_lists
        c02_lists.frag_lists(chk, can_eval)
        import c02_small
        c02_small.run_all(chk, can_eval)
        import c02_sml
        c02_sml.frag_sml(chk, can_eval)
        import c02_typed
        c02_typed.run_all(chk, can_eval and infos.get("typed") is not None)
    finally:
        if not can_eval:
            common.run_mismatch_shards = common_run
    chk.trusted = [
        "Coq 8.16.1 kernel (coqc; vm_compute for Examples and the tie evaluation; no native_compute)",
        "translators tools/py2coq/{c02engine,refchecks,intranges,strconstraints,beechecks,semsetter,typedvalues,typedsetters}.py (fail-closed; validated on every run "
        "by evaluating the generated definitions and the Python originals on the same inputs)",
        "Python's re.fullmatch decides membership in the regular language of the (escape-free) patterns translated",
        "str.isalpha restricted to ASCII = [A-Za-z] (premise of C02_id_short, checked on all 128 code points)",
        "str.isdecimal() = every character has Unicode category Nd (reading of 'integer' in AASd-128)",
        "hand-written model coq/theories/model/ConstraintsModel.v, tied to base.py/submodel.py/aas.py by the correspondence runs",
        "typed values: hand-written coq/theories/model/TypedValue.v (value = class + integer payload + characters + opaque token; "
        "holder state machines), tied to datatypes.trivial_cast and the Property/Qualifier/Extension/Range setters by differential "
        "runs; CPython facts bool < int and datetime < date (stated in the translator, compared with issubclass on every run); "
        "spec_base / spec_castable / has_type in TypedValue.v transcribe the metamodel's data types and trivial_cast's docstring",
        "well-formedness predicates model/ConstraintsSpec.v are a transcription of constraints.rst / Part 1 / XML Schema Part 2",
        "tools/c02.py (generators, SDK drivers, oracles), tools/common.py",
    ]
    chk.assumptions = ["CPython int/str/list semantics as modelled (list Z for str, Z for int)"]
    return chk.finish(level="proof",
                      rule="state machines (ConstrainedList with Entity/AssetInformation/HasSemantics hooks, AdministrativeInformation, "
                           "BasicEventElement, language string sets): every operation sequence up to a small length over a fixed "
                           "alphabet from every constructor argument combination, plus seeded longer sequences with list and "
                           "one-shot-iterator arguments; typed values: 31 XSD types x 38 Python values through 4 holder classes incl. "
                           "assignment to value_type; references: all key-type sequences up to length 3 (quick) / 4 (thorough) plus seeded chains up to "
                           "length 8 with nasty key values; integers: range edges +-1, powers of two, seeded values for all 13 "
                           "types; strings: lengths min-1..max+1 and every AASd-130 range edge +-1 at start/middle/end for every "
                           "constrained type and attribute; non-trivial = at least two keys / non-empty string; distinct by input")


def replay(path):
    r = json.load(open(path))
    rp = r.get("replay") or {}
    chk = common.Check("C02", "replay", 0)
    from basyx.aas import model
    k = rp.get("kind")
    if k == "list":
        import c02_lists
        return c02_lists.replay_case(rp)
    if k == "sml":
        import c02_sml
        return c02_sml.replay_case(rp)
    if k in ("adm", "bee", "lss"):
        import c02_small
        return c02_small.replay_case(rp)
    if k in ("tvholder", "tvrange", "tvitem"):
        import c02_typed
        return c02_typed.replay_case(rp)
    if k == "ref":
        types = [model.KeyTypes[t] for t in rp["types"]]
        ks = tuple(model.Key(t, v) for t, v in zip(types, rp["values"]))
        code = enc_exc(call(lambda: model.ModelReference(ks, model.Referable) if rp["model_ref"]
                            else model.ExternalReference(ks)))
        msg = ref_oracle(rp["model_ref"], types, [is_decimal_int(v) for v in rp["values"]], code)
        print("SDK:", exc_name(code), "| oracle:", msg)
        return 1 if msg else 0
    print(json.dumps(r, indent=1)[:3000])
    return 1
