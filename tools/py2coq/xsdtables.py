"""Fail-closed translator: sdk/basyx/aas/model/datatypes.py -> coq/theories/gen/Gen_XsdTables.v

Translated (Python `ast`, nothing is executed):
  * XSD_TYPE_NAMES  (dict comprehension `{k: "xs:" + v for k, v in {<Name>: "<str>", ...}.items()}`)
  * XSD_TYPE_CLASSES (`{v: k for k, v in XSD_TYPE_NAMES.items()}`)
  * the range check in `__new__` of every class deriving from `int`
        res = int.__new__(cls, *args, **kwargs)
        if <cond>: raise ValueError(...)
        return res
    with <cond> ::= <cmp> | <cond> or <cond> | not <cmp>;  <cmp> ::= e (<|<=|>|>=) e [(<|<=|>|>=) e]
         e ::= res | int literal | e ** e | e - e | e + e | -e
  * the checks in `__init__` of GYearMonth, GMonthDay, GDay, GMonth
        if <cond>: raise ValueError(...)      (same <cond>, over the parameter names, plus
                                               `x if c else y`, `a == b`, `a in (consts)`)
        self.<f>: <ann> = <param>
  * the forbidden characters of NormalizedString.__new__  (`('\\r' in res) or ...`)
Anything else in those places raises TranslatorAbort (reported as a broken tie, never skipped).
"""
import ast
import os

import common

SRC_REL = "sdk/basyx/aas/model/datatypes.py"
OUT = os.path.join(common.GEN, "Gen_XsdTables.v")
G_CLASSES = ["GYearMonth", "GYear", "GMonthDay", "GDay", "GMonth"]


class TranslatorAbort(Exception):
    pass


def _abort(node, why):
    raise TranslatorAbort(f"{SRC_REL}:{getattr(node, 'lineno', '?')}: {why}: {ast.dump(node)[:200]}")


def _qs(s):
    if not all(32 <= ord(c) < 127 for c in s):
        raise TranslatorAbort(f"non-ASCII string constant {s!r}")
    return '"' + s.replace('"', '""') + '"'


# ---------------------------------------------------------------- expressions

def expr(n, names):
    """integer expression -> Gallina term of type Z"""
    if isinstance(n, ast.Constant) and type(n.value) is int:
        return str(n.value) if n.value >= 0 else f"({n.value})"
    if isinstance(n, ast.Name) and n.id in names:
        return n.id
    if isinstance(n, ast.UnaryOp) and isinstance(n.op, ast.USub):
        return f"(- {expr(n.operand, names)})"
    if isinstance(n, ast.BinOp):
        op = {ast.Pow: "^", ast.Sub: "-", ast.Add: "+", ast.Mult: "*"}.get(type(n.op))
        if op is None:
            _abort(n, "operator not in the accepted grammar")
        return f"({expr(n.left, names)} {op} {expr(n.right, names)})"
    if isinstance(n, ast.IfExp):
        return f"(if {cond(n.test, names)} then {expr(n.body, names)} else {expr(n.orelse, names)})"
    _abort(n, "integer expression not in the accepted grammar")


CMP = {ast.Lt: "<?", ast.LtE: "<=?", ast.Gt: ">?", ast.GtE: ">=?", ast.Eq: "=?"}


def cond(n, names):
    """boolean expression -> Gallina term of type bool"""
    if isinstance(n, ast.BoolOp) and isinstance(n.op, (ast.Or, ast.And)):
        op = " || " if isinstance(n.op, ast.Or) else " && "
        return "(" + op.join(cond(v, names) for v in n.values) + ")"
    if isinstance(n, ast.UnaryOp) and isinstance(n.op, ast.Not):
        return f"(negb {cond(n.operand, names)})"
    if isinstance(n, ast.Compare):
        if len(n.ops) == 1 and isinstance(n.ops[0], ast.In):
            t = n.comparators[0]
            if not (isinstance(t, ast.Tuple) and t.elts):
                _abort(n, "`in` needs a non-empty tuple of integer constants")
            l = expr(n.left, names)
            return "(" + " || ".join(f"({l} =? {expr(e, [])})" for e in t.elts) + ")"
        parts = []
        left = n.left
        for op, right in zip(n.ops, n.comparators):
            if type(op) not in CMP:
                _abort(n, "comparison operator not in the accepted grammar")
            parts.append(f"({expr(left, names)} {CMP[type(op)]} {expr(right, names)})")
            left = right
        return "(" + " && ".join(parts) + ")"
    _abort(n, "condition not in the accepted grammar")


def _is_raise_valueerror(st):
    return (isinstance(st, ast.Raise) and isinstance(st.exc, ast.Call) and isinstance(st.exc.func, ast.Name)
            and st.exc.func.id == "ValueError" and st.cause is None)


def _guard(st, names):
    """`if c: raise ValueError(...)` -> Gallina bool term of c"""
    if not (isinstance(st, ast.If) and not st.orelse and len(st.body) == 1 and _is_raise_valueerror(st.body[0])):
        _abort(st, "expected `if <cond>: raise ValueError(...)`")
    return cond(st.test, names)


# ---------------------------------------------------------------- classes

def int_class(c):
    """class X(int) with a range-checking __new__ -> list of raise-conditions over `res`"""
    fns = [s for s in c.body if isinstance(s, ast.FunctionDef)]
    rest = [s for s in c.body if not isinstance(s, ast.FunctionDef)
            and not (isinstance(s, ast.Expr) and isinstance(s.value, ast.Constant))]
    if rest or len(fns) != 1 or fns[0].name != "__new__":
        _abort(c, "int subclass must contain exactly one method, __new__")
    f = fns[0]
    a = f.args
    if ([x.arg for x in a.args] != ["cls"] or a.vararg is None or a.kwarg is None or a.kwonlyargs or a.defaults
            or f.decorator_list):
        _abort(f, "__new__ signature must be (cls, *args, **kwargs)")
    body = [s for s in f.body if not (isinstance(s, ast.Expr) and isinstance(s.value, ast.Constant))]
    if len(body) < 2:
        _abort(f, "__new__ body too short")
    first, last = body[0], body[-1]
    ok = (isinstance(first, ast.Assign) and len(first.targets) == 1 and isinstance(first.targets[0], ast.Name)
          and first.targets[0].id == "res" and isinstance(first.value, ast.Call)
          and ast.unparse(first.value) == f"int.__new__(cls, *{a.vararg.arg}, **{a.kwarg.arg})")
    if not ok:
        _abort(first, "expected `res = int.__new__(cls, *args, **kwargs)`")
    if not (isinstance(last, ast.Return) and isinstance(last.value, ast.Name) and last.value.id == "res"):
        _abort(last, "expected `return res`")
    return [_guard(s, ["res"]) for s in body[1:-1]]


def g_class(c):
    """__init__ of a G* class -> (params, [raise conditions], [(field, param)])"""
    init = [s for s in c.body if isinstance(s, ast.FunctionDef) and s.name == "__init__"]
    if len(init) != 1:
        _abort(c, "expected one __init__")
    f = init[0]
    params = [x.arg for x in f.args.args][1:]
    if f.args.vararg or f.args.kwarg or f.args.kwonlyargs or not params or params[-1] != "tzinfo":
        _abort(f, "__init__ signature must be (self, <ints>..., tzinfo=None)")
    ints = params[:-1]
    conds, fields = [], []
    for s in f.body:
        if isinstance(s, ast.Expr) and isinstance(s.value, ast.Constant):
            continue
        if isinstance(s, ast.If):
            if fields:
                _abort(s, "check after attribute assignment")
            conds.append(_guard(s, ints))
        elif (isinstance(s, ast.AnnAssign) and isinstance(s.target, ast.Attribute)
              and isinstance(s.target.value, ast.Name) and s.target.value.id == "self"
              and isinstance(s.value, ast.Name) and s.value.id in params):
            fields.append((s.target.attr, s.value.id))
        else:
            _abort(s, "statement not in the accepted grammar for G* constructors")
    if [p for _, p in fields] != params or [a for a, _ in fields] != params:
        _abort(f, "every parameter must be stored in the attribute of the same name, in order")
    return ints, conds


def normalized_string(c):
    new = [s for s in c.body if isinstance(s, ast.FunctionDef) and s.name == "__new__"]
    if len(new) != 1:
        _abort(c, "expected __new__")
    body = [s for s in new[0].body if not (isinstance(s, ast.Expr) and isinstance(s.value, ast.Constant))]
    if len(body) != 3 or ast.unparse(body[0]) != "res = str.__new__(cls, *args, **kwargs)" \
            or ast.unparse(body[2]) != "return res":
        _abort(new[0], "unexpected NormalizedString.__new__")
    st = body[1]
    if not (isinstance(st, ast.If) and not st.orelse and len(st.body) == 1 and _is_raise_valueerror(st.body[0])):
        _abort(st, "expected `if ...: raise ValueError`")
    t = st.test
    vals = t.values if isinstance(t, ast.BoolOp) and isinstance(t.op, ast.Or) else [t]
    chars = []
    for v in vals:
        if not (isinstance(v, ast.Compare) and len(v.ops) == 1 and isinstance(v.ops[0], ast.In)
                and isinstance(v.left, ast.Constant) and isinstance(v.left.value, str) and len(v.left.value) == 1
                and isinstance(v.comparators[0], ast.Name) and v.comparators[0].id == "res"):
            _abort(v, "expected `'<char>' in res`")
        chars.append(ord(v.left.value))
    return chars


# ---------------------------------------------------------------- tables

def names_table(tree):
    inner = prefix = None
    classes_ok = False
    for s in tree.body:
        if isinstance(s, ast.AnnAssign) and isinstance(s.target, ast.Name):
            if s.target.id == "XSD_TYPE_NAMES":
                v = s.value
                if not (isinstance(v, ast.DictComp) and len(v.generators) == 1):
                    _abort(s, "XSD_TYPE_NAMES must be a dict comprehension")
                g = v.generators[0]
                if not (ast.unparse(g.target) == "(k, v)" and not g.ifs and not g.is_async
                        and isinstance(g.iter, ast.Call) and not g.iter.args and not g.iter.keywords
                        and isinstance(g.iter.func, ast.Attribute) and g.iter.func.attr == "items"
                        and isinstance(g.iter.func.value, ast.Dict)):
                    _abort(s, "expected `for k, v in {...}.items()`")
                if not (isinstance(v.key, ast.Name) and v.key.id == "k" and isinstance(v.value, ast.BinOp)
                        and isinstance(v.value.op, ast.Add) and isinstance(v.value.left, ast.Constant)
                        and isinstance(v.value.left.value, str) and isinstance(v.value.right, ast.Name)
                        and v.value.right.id == "v"):
                    _abort(s, "expected `{k: \"<prefix>\" + v ...}`")
                prefix = v.value.left.value
                d = g.iter.func.value
                inner = []
                for k, val in zip(d.keys, d.values):
                    if not (isinstance(k, ast.Name) and isinstance(val, ast.Constant) and isinstance(val.value, str)):
                        _abort(d, "table entries must be `<ClassName>: \"<str>\"`")
                    inner.append((k.id, val.value))
            elif s.target.id == "XSD_TYPE_CLASSES":
                if ast.unparse(s.value) != "{v: k for k, v in XSD_TYPE_NAMES.items()}":
                    _abort(s, "XSD_TYPE_CLASSES must be the inverse comprehension of XSD_TYPE_NAMES")
                classes_ok = True
    if inner is None or not classes_ok:
        raise TranslatorAbort("XSD_TYPE_NAMES / XSD_TYPE_CLASSES not found in the accepted shape")
    return prefix, inner


def translate(src_text):
    tree = ast.parse(src_text)
    prefix, inner = names_table(tree)
    # module-level aliases  Name = <dotted name>   (Duration = dateutil.relativedelta.relativedelta ...)
    aliases = {}
    classes = {}
    for s in tree.body:
        if isinstance(s, ast.Assign) and len(s.targets) == 1 and isinstance(s.targets[0], ast.Name) \
                and isinstance(s.value, (ast.Name, ast.Attribute)):
            aliases[s.targets[0].id] = ast.unparse(s.value)
        if isinstance(s, ast.ClassDef):
            classes[s.name] = s
    for k, _ in inner:
        if k not in aliases and k not in classes:
            raise TranslatorAbort(f"table key {k} is neither a class nor an alias defined in the module")
    ranges = []
    for name, c in classes.items():
        if [ast.unparse(b) for b in c.bases] == ["int"]:
            ranges.append((name, int_class(c)))
    gchecks = []
    for name in G_CLASSES:
        if name not in classes:
            raise TranslatorAbort(f"class {name} not found")
        gchecks.append((name,) + g_class(classes[name]))
    if "NormalizedString" not in classes:
        raise TranslatorAbort("class NormalizedString not found")
    forb = normalized_string(classes["NormalizedString"])

    o = ["(* GENERATED by tools/py2coq/xsdtables.py from " + SRC_REL + " on every run - do not edit. *)",
         "From Coq Require Import List ZArith String Bool.", "Import ListNotations.",
         "Local Open Scope Z_scope.", "",
         "(* XSD_TYPE_NAMES = {k: prefix + v for k, v in inner.items()};  keys are the SDK's class identifiers *)",
         f"Definition xsd_name_prefix : string := {_qs(prefix)}.",
         "Definition xsd_type_names_inner : list (string * string) := ["]
    o.append(";\n".join(f"  ({_qs(k)}, {_qs(v)})" for k, v in inner))
    o += ["]%string.",
          "Definition xsd_type_names : list (string * string) :=",
          "  map (fun kv => (fst kv, String.append xsd_name_prefix (snd kv))) xsd_type_names_inner.",
          "(* XSD_TYPE_CLASSES = {v: k for k, v in XSD_TYPE_NAMES.items()} *)",
          "Definition xsd_type_classes : list (string * string) := map (fun kv => (snd kv, fst kv)) xsd_type_names.",
          "(* module-level aliases of the key classes (informative; used to recognise int/float/str/bool) *)",
          "Definition xsd_aliases : list (string * string) := ["]
    o.append(";\n".join(f"  ({_qs(k)}, {_qs(v)})" for k, v in sorted(aliases.items()) if k in dict(inner)))
    o += ["]%string.", "",
          "(* class X(int): __new__ raises ValueError iff one of the conditions holds; in_range = none holds *)"]
    for name, conds in ranges:
        body = " && ".join(f"negb {c}" for c in conds) if conds else "true"
        o.append(f"Definition in_range_{name} (res : Z) : bool := {body}.")
    o.append("Definition int_ranges : list (string * (Z -> bool)) := [")
    o.append(";\n".join(f"  ({_qs(n)}%string, in_range_{n})" for n, _ in ranges))
    o += ["].", "", "(* G* constructors: ValueError iff one of the conditions holds *)"]
    for name, ints, conds in gchecks:
        args = " ".join(ints)
        body = " && ".join(f"negb {c}" for c in conds) if conds else "true"
        o.append(f"Definition ctor_ok_{name} ({args} : Z) : bool := {body}.")
    o += ["", "(* NormalizedString.__new__ raises ValueError iff one of these code points occurs *)",
          "Definition normalized_string_forbidden : list Z := [" + "; ".join(str(c) for c in forb) + "]."]
    return "\n".join(o) + "\n", {"names": inner, "prefix": prefix, "ranges": [n for n, _ in ranges],
                                 "gchecks": [(n, i) for n, i, _ in gchecks], "forbidden": forb}


def regenerate(repo=None):
    """Returns (changed, info). Raises TranslatorAbort."""
    repo = repo or common.REPO
    txt = open(os.path.join(repo, SRC_REL), encoding="utf-8").read()
    out, info = translate(txt)
    return common.write_if_changed(OUT, out), info


if __name__ == "__main__":
    print(regenerate())
