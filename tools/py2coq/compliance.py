"""Fail-closed `ast` translator for property C20.

Reads  compliance_tool/aas_compliance_tool/compliance_check_{json,xml,aasx}.py  and
       sdk/basyx/aas/examples/data/_helper.py  (class AASDataChecker)
from common.REPO and writes coq/theories/gen/Gen_Compliance.v:

  functions        : per check function the list of *sites* (calls, asserts, raise statements, `[0]`
                     subscripts, datetime subtractions) with the stack of exception classes caught by the
                     enclosing `try` statements (a handler that re-raises is not a handler)
  public_functions : the functions without a leading underscore
  checker_methods  : per AASDataChecker method the attributes of its first parameter it compares with the same
                     attribute of its second parameter, and the methods it delegates both objects to
  class_table      : per metamodel class the checker method annotated with it and the attributes of the class
                     (constructor parameters of the SDK class as imported from PYTHONPATH)

Anything outside the accepted grammar raises TranslationError (the check then reports "no longer checks").
"""
import ast
import inspect
import os

import common

MODULES = ["compliance_check_json", "compliance_check_xml", "compliance_check_aasx"]

EXC_NAMES = {
    "IOError": "EOSError", "OSError": "EOSError", "FileNotFoundError": "EFileNotFound",
    "ValueError": "EValueError", "UnicodeDecodeError": "EUnicodeDecode",
    "json.decoder.JSONDecodeError": "EJSONDecode", "KeyError": "EKeyError", "IndexError": "EIndexError",
    "AssertionError": "EAssertion", "TypeError": "ETypeError", "AttributeError": "EAttribute",
    "NotImplementedError": "ENotImplemented", "ImportError": "EImportError",
    "etree.XMLSyntaxError": "EXMLSyntax", "etree.ParseError": "EParseError",
    "jsonschema.exceptions.ValidationError": "EValidation", "Exception": "EException",
    "RecursionError": "ERecursion", "zipfile.BadZipFile": "EBadZip", "zlib.error": "EZlib",
}


class TranslationError(Exception):
    pass


def coq_str(s):
    assert all(32 <= ord(c) < 127 for c in s), s
    return '"' + s.replace('"', '""') + '"'


def exc_of(node):
    name = ast.unparse(node)
    if name not in EXC_NAMES:
        raise TranslationError(f"unknown exception class in except clause: {name}")
    return EXC_NAMES[name]


class FunctionTranslator:
    """collects the sites of one function"""
    SIMPLE = (ast.Expr, ast.Assign, ast.AnnAssign, ast.AugAssign, ast.Return, ast.Pass, ast.Import, ast.ImportFrom)

    def __init__(self, module, fn):
        self.module, self.fn = module, fn
        self.sites = []
        self.compare_handler_returns = []

    def site(self, callee, stack):
        self.sites.append((callee, [list(h) for h in stack]))

    def expr(self, node, stack):
        """sites inside an expression, in evaluation-independent (source) order"""
        if node is None:
            return
        for n in ast.walk(node):
            if isinstance(n, ast.Call):
                if isinstance(n.func, ast.Attribute) and n.func.attr in ("format", "split"):
                    self.site("<str method>", stack)     # str.format / str.split on literals and str values
                elif ast.unparse(n.func) in ("open", "json.load", "files.get_sha256") and n.args \
                        and isinstance(n.args[0], (ast.Name, ast.Attribute)):
                    # the same callee is used on the file under test and on the tool's own files
                    self.site(ast.unparse(n.func) + "(" + ast.unparse(n.args[0]) + ")", stack)
                else:
                    self.site(ast.unparse(n.func), stack)
            elif isinstance(n, ast.Subscript) and isinstance(n.slice, ast.Constant) and n.slice.value == 0 \
                    and not (isinstance(n.value, ast.Call) and isinstance(n.value.func, ast.Attribute)
                             and n.value.func.attr == "split"):       # str.split() never returns an empty list
                self.site("<subscript 0>", stack)
            elif isinstance(n, ast.BinOp) and isinstance(n.op, ast.Sub) \
                    and any("created" in ast.unparse(x) or "modified" in ast.unparse(x) for x in (n.left, n.right)) \
                    and not all(isinstance(x, ast.Call) and ast.unparse(x.func) == "_naive_utc"
                                for x in (n.left, n.right)):      # both operands normalised to naive UTC
                self.site("<datetime subtraction>", stack)
            elif isinstance(n, (ast.Lambda, ast.Await, ast.Yield, ast.YieldFrom, ast.NamedExpr)):
                raise TranslationError(f"{self.module}.{self.fn}: unsupported expression {type(n).__name__}")

    def block(self, stmts, stack):
        for s in stmts:
            self.stmt(s, stack)

    def stmt(self, s, stack):
        if isinstance(s, self.SIMPLE):
            for child in ast.iter_child_nodes(s):
                if isinstance(child, ast.expr):
                    self.expr(child, stack)
        elif isinstance(s, ast.Assert):
            self.expr(s.test, stack)
            self.site("<assert>", stack)
        elif isinstance(s, ast.Raise):
            if s.exc is None:
                raise TranslationError(f"{self.module}.{self.fn}: bare raise outside a recognised re-raising handler")
            if not isinstance(s.exc, ast.Call):
                raise TranslationError(f"{self.module}.{self.fn}: raise of a non-call")
            for a in s.exc.args:
                self.expr(a, stack)
            self.site("<raise " + ast.unparse(s.exc.func) + ">", stack)
        elif isinstance(s, ast.If):
            self.expr(s.test, stack)
            self.block(s.body, stack)
            self.block(s.orelse, stack)
        elif isinstance(s, ast.For):
            self.expr(s.iter, stack)
            self.block(s.body, stack)
            self.block(s.orelse, stack)
        elif isinstance(s, ast.With):
            for item in s.items:
                self.expr(item.context_expr, stack)
            self.block(s.body, stack)
        elif isinstance(s, ast.Try):
            caught = []
            for h in s.handlers:
                reraises = bool(h.body) and isinstance(h.body[-1], ast.Raise) and h.body[-1].exc is None
                if h.type is None:
                    classes = ["EException"]
                elif isinstance(h.type, ast.Tuple):
                    classes = [exc_of(e) for e in h.type.elts]
                else:
                    classes = [exc_of(h.type)]
                if reraises:
                    # `except X: cleanup; raise` does not stop X; later handlers never see it either
                    if classes != ["EException"] or h is not s.handlers[-1]:
                        raise TranslationError(f"{self.module}.{self.fn}: re-raising handler of unexpected shape")
                    self.block(h.body[:-1], stack)
                    continue
                if "ENotImplemented" in classes and "state_manager.set_step_status(Status.FAILED)" not in \
                        [ast.unparse(x.value) for x in h.body if isinstance(x, ast.Expr)]:
                    # the model turns a caught NotImplementedError of the data checker into a FAILED step
                    raise TranslationError(f"{self.module}.{self.fn}: handler for NotImplementedError does not set "
                                           f"the step status to FAILED")
                caught.extend(classes)
                self.block(h.body, stack)
                # a handler around the data checker's call: does the function end there (`return` as last statement)?
                # Otherwise add_log_records_from_data_checker() would overwrite the FAILED status it has just set.
                if any(isinstance(n, ast.Call) and ast.unparse(n.func) == "checker.check_object_store"
                       for st in s.body for n in ast.walk(st)):
                    self.compare_handler_returns.append(bool(h.body) and isinstance(h.body[-1], ast.Return))
            self.block(s.body, [caught] + stack)
            self.block(s.orelse, stack)
            self.block(s.finalbody, stack)
        else:
            raise TranslationError(f"{self.module}.{self.fn}: unsupported statement {type(s).__name__}")


HANDLER_RETURNS = []      # filled by translate_checks: (function, every handler around check_object_store returns)


def translate_checks(repo):
    functions = []
    del HANDLER_RETURNS[:]
    for m in MODULES:
        path = os.path.join(repo, "compliance_tool", "aas_compliance_tool", m + ".py")
        tree = ast.parse(open(path).read())
        short = m.replace("compliance_check_", "")
        for node in tree.body:
            if isinstance(node, ast.FunctionDef):
                ft = FunctionTranslator(short, node.name)
                ft.block(node.body, [])
                functions.append((f"{short}.{node.name}", ft.sites))
                if ft.compare_handler_returns:
                    HANDLER_RETURNS.append((f"{short}.{node.name}", all(ft.compare_handler_returns)))
            elif isinstance(node, (ast.Import, ast.ImportFrom, ast.Assign, ast.Expr)):
                continue
            else:
                raise TranslationError(f"{m}: unsupported top-level statement {type(node).__name__}")
    # resolve calls to functions of these modules
    names = {n for n, _ in functions}
    resolved = []
    for name, sites in functions:
        mod = name.split(".")[0]
        out = []
        for callee, stack in sites:
            c = callee
            if f"{mod}.{callee}" in names:
                c = f"{mod}.{callee}"
            elif callee.startswith("compliance_check_") and callee.replace("compliance_check_", "") in names:
                c = callee.replace("compliance_check_", "")
            out.append((c, stack))
        resolved.append((name, out))
    return resolved


PRIMITIVE = {"check", "check_attribute_equal", "check_contained_element_length", "check_is_instance",
             "check_element_in", "check_attribute_is_none", "extend", "raise_failed"}
DEEP_FIND = {"_find_reference", "_find_specific_asset_id"}


def translate_checker(repo):
    path = os.path.join(repo, "sdk", "basyx", "aas", "examples", "data", "_helper.py")
    tree = ast.parse(open(path).read())
    cls = next((n for n in tree.body if isinstance(n, ast.ClassDef) and n.name == "AASDataChecker"), None)
    if cls is None:
        raise TranslationError("class AASDataChecker not found")
    method_names = {n.name for n in cls.body if isinstance(n, ast.FunctionDef)}
    base = next((n for n in tree.body if isinstance(n, ast.ClassDef) and n.name == "DataChecker"), None)
    deep = {m for m in method_names if m not in PRIMITIVE and (m.startswith("check_") or m.startswith("_check_"))}
    methods, annotated = [], []

    def is_attr_of(node, var):
        return isinstance(node, ast.Attribute) and isinstance(node.value, ast.Name) and node.value.id == var

    def deep_call_in(stmts):
        for s in stmts:
            for n in ast.walk(s):
                if isinstance(n, ast.Call) and isinstance(n.func, ast.Attribute) and isinstance(n.func.value, ast.Name) \
                        and n.func.value.id == "self" and (n.func.attr in deep or n.func.attr in DEEP_FIND):
                    return True
        return False

    for fn in cls.body:
        if not isinstance(fn, ast.FunctionDef):
            continue
        args = [a.arg for a in fn.args.args]
        if len(args) < 3 or args[0] != "self" or not (fn.name in deep):
            continue
        p, q = args[1], args[2]
        attrs, delegates = [], []
        for n in ast.walk(fn):
            if isinstance(n, ast.Call) and isinstance(n.func, ast.Attribute) and isinstance(n.func.value, ast.Name) \
                    and n.func.value.id == "self":
                m = n.func.attr
                a = n.args
                # R1: self.check_attribute_equal(p, 'a', q.a)
                if m == "check_attribute_equal" and len(a) >= 3 and isinstance(a[0], ast.Name) and a[0].id == p \
                        and isinstance(a[1], ast.Constant) and is_attr_of(a[2], q) and a[2].attr == a[1].value:
                    attrs.append(a[1].value)
                # R2: self.<deep>(p.a, q.a, ...)
                elif m in deep and len(a) >= 2 and is_attr_of(a[0], p) and is_attr_of(a[1], q) and a[0].attr == a[1].attr:
                    attrs.append(a[0].attr)
                # delegation: self.<deep>(p, q)
                elif m in deep and len(a) >= 2 and isinstance(a[0], ast.Name) and a[0].id == p \
                        and isinstance(a[1], ast.Name) and a[1].id == q:
                    delegates.append(m)
            elif isinstance(n, ast.For):
                it = n.iter
                # R3: for x in q.a: ... self.<deep>(.., x) / self._find_reference(x, p.a)
                if is_attr_of(it, q) and deep_call_in(n.body):
                    attrs.append(it.attr)
                # R3': for x, y in zip(p.a, q.a): self.<deep>(x, y)
                elif isinstance(it, ast.Call) and ast.unparse(it.func) == "zip" and len(it.args) == 2 \
                        and is_attr_of(it.args[0], p) and is_attr_of(it.args[1], q) \
                        and it.args[0].attr == it.args[1].attr and deep_call_in(n.body):
                    attrs.append(it.args[0].attr)
                # R4: for .. in ((p.a, q.a, 'a'), ...): ... for x, y in zip(..): self.<deep>(x, y)
                elif isinstance(it, ast.Tuple) and deep_call_in(n.body):
                    for t in it.elts:
                        if isinstance(t, ast.Tuple) and len(t.elts) >= 2 and is_attr_of(t.elts[0], p) \
                                and is_attr_of(t.elts[1], q) and t.elts[0].attr == t.elts[1].attr:
                            attrs.append(t.elts[0].attr)
        methods.append((fn.name, sorted(set(attrs)), sorted(set(delegates))))
        ann = fn.args.args[1].annotation
        if ann is not None:
            cname = ast.unparse(ann).replace("model.base.", "").replace("model.", "")
            if cname.isidentifier():
                annotated.append((cname, fn.name))
    if not methods:
        raise TranslationError("no checker methods recognised")
    # SpecificAssetIds are located with `expected == element` (_find_specific_asset_id) before
    # check_specific_asset_id runs, so every attribute SpecificAssetId.__eq__ looks at is compared
    uses_find = any(isinstance(n, ast.Attribute) and n.attr == "_find_specific_asset_id" for n in ast.walk(cls))
    find = next((n for n in cls.body if isinstance(n, ast.FunctionDef) and n.name == "_find_specific_asset_id"), None)
    by_eq = find is not None and any(isinstance(n, ast.Compare) and isinstance(n.ops[0], ast.Eq) for n in ast.walk(find))
    if uses_find and by_eq:
        eq_attrs = eq_attributes(repo, "SpecificAssetId")
        methods = [(m, sorted(set(at) | set(eq_attrs)) if m == "check_specific_asset_id" else at, de)
                   for m, at, de in methods]
    return methods, annotated


def translate_unordered(repo):
    """checker methods that raise NotImplementedError when one of the two objects is an unordered list:
         if not p.order_relevant or not q.order_relevant: raise NotImplementedError(...)
    Any other `raise` inside AASDataChecker must be one of the known unreachable guards; a NotImplementedError
    of another shape aborts the translation."""
    path = os.path.join(repo, "sdk", "basyx", "aas", "examples", "data", "_helper.py")
    tree = ast.parse(open(path).read())
    cls = next((n for n in tree.body if isinstance(n, ast.ClassDef) and n.name == "AASDataChecker"), None)
    if cls is None:
        raise TranslationError("class AASDataChecker not found")
    res = []
    for fn in cls.body:
        if not isinstance(fn, ast.FunctionDef):
            continue
        args = [a.arg for a in fn.args.args]
        for n in ast.walk(fn):
            if isinstance(n, ast.Raise) and n.exc is not None and "NotImplementedError" in ast.unparse(n.exc):
                ok = False
                for i in ast.walk(fn):
                    if isinstance(i, ast.If) and n in i.body and len(args) >= 3:
                        want = f"not {args[1]}.order_relevant or not {args[2]}.order_relevant"
                        ok = ast.unparse(i.test) == want
                if not ok:
                    raise TranslationError(f"AASDataChecker.{fn.name}: NotImplementedError raised under an unrecognised guard")
                res.append(fn.name)
    return sorted(set(res))


def translate_checker_raises(repo, unordered):
    """exception classes that can leave AASDataChecker.check_object_store on two readable stores:
       NotImplementedError - if some method refuses unordered lists (translate_unordered);
       AttributeError      - if `.__name__` is taken of a parameter / getattr() value that is not guarded by an enclosing
                             `if ... <that expression> is not None ...` (a value attribute may be None)."""
    path = os.path.join(repo, "sdk", "basyx", "aas", "examples", "data", "_helper.py")
    tree = ast.parse(open(path).read())
    res = ["ENotImplemented"] if unordered else []
    for cls in tree.body:
        if not (isinstance(cls, ast.ClassDef) and cls.name in ("AASDataChecker", "DataChecker")):
            continue
        for fn in cls.body:
            if not isinstance(fn, ast.FunctionDef):
                continue
            parents = {}
            for n in ast.walk(fn):
                for c in ast.iter_child_nodes(n):
                    parents[c] = n
            class_params = {a.arg for a in fn.args.args if a.annotation is not None
                            and ast.unparse(a.annotation).startswith("Type")}
            for n in ast.walk(fn):
                if not (isinstance(n, ast.Attribute) and n.attr == "__name__"):
                    continue
                e = n.value
                if isinstance(e, ast.Attribute) and e.attr == "__class__":
                    continue                                   # the class of an object is never None
                if isinstance(e, ast.Name) and e.id in class_params:
                    continue                                   # a parameter annotated Type[...]
                if not (isinstance(e, ast.Name) or (isinstance(e, ast.Call) and ast.unparse(e.func) == "getattr")):
                    raise TranslationError(f"{cls.name}.{fn.name}: __name__ of an unrecognised expression {ast.unparse(e)}")
                want = ast.unparse(e) + " is not None"
                guarded, cur = False, n
                while cur in parents:
                    par = parents[cur]
                    if isinstance(par, ast.If) and cur in par.body and want in ast.unparse(par.test):
                        guarded = True
                    cur = par
                if not guarded and "EAttribute" not in res:
                    res.append("EAttribute")
    return res


def eq_attributes(repo, cname):
    """attributes compared by <cname>.__eq__ in model/base.py: a conjunction of self.a == other.a"""
    tree = ast.parse(open(os.path.join(repo, "sdk", "basyx", "aas", "model", "base.py")).read())
    cls = next((n for n in tree.body if isinstance(n, ast.ClassDef) and n.name == cname), None)
    eq = next((n for n in (cls.body if cls else []) if isinstance(n, ast.FunctionDef) and n.name == "__eq__"), None)
    if eq is None or not isinstance(eq.body[-1], ast.Return) or not isinstance(eq.body[-1].value, ast.BoolOp) \
            or not isinstance(eq.body[-1].value.op, ast.And):
        raise TranslationError(f"{cname}.__eq__ is not a conjunction")
    attrs = []
    for c in eq.body[-1].value.values:
        if not (isinstance(c, ast.Compare) and len(c.ops) == 1 and isinstance(c.ops[0], ast.Eq)
                and isinstance(c.left, ast.Attribute) and isinstance(c.left.value, ast.Name) and c.left.value.id == "self"
                and isinstance(c.comparators[0], ast.Attribute) and c.comparators[0].attr == c.left.attr):
            raise TranslationError(f"{cname}.__eq__: unsupported conjunct {ast.unparse(c)}")
        attrs.append(c.left.attr)
    return attrs


ABSTRACT = {"SubmodelElement", "HasExtension", "Referable", "Identifiable", "HasSemantics", "HasKind", "Qualifiable",
            "HasDataSpecification", "EventElement", "Reference", "DataSpecificationContent", "_LIST_OR_COLLECTION", "ValueList", "DictObjectStore"}


def class_table(annotated):
    """metamodel attributes = constructor parameters of the SDK class (as imported)"""
    from basyx.aas import model
    rows = []
    for cname, method in annotated:
        if cname in ABSTRACT:
            continue
        cls = getattr(model, cname, None) or getattr(model.base, cname, None)
        if cls is None:
            raise TranslationError(f"checker method {method} is annotated with unknown class {cname}")
        params = [p for p in inspect.signature(cls.__init__).parameters if p not in ("self", "parent")]
        rows.append((cname, method, [p.rstrip("_") for p in params]))
    return rows


def render(functions, methods, table, unordered, checker_raises):
    L = ["(* GENERATED by tools/py2coq/compliance.py from the compliance tool and _helper.py - do not edit *)",
         "From Coq Require Import List String.", "From Basyx Require Import model.Compliance.",
         "Import ListNotations.", "Open Scope string_scope.", ""]
    L.append("Definition functions : list (string * list site) := [")
    rows = []
    for name, sites in functions:
        ss = ";\n    ".join("mk_site " + coq_str(c) + " [" + "; ".join("[" + "; ".join(h) + "]" for h in st) + "]"
                            for c, st in sites)
        rows.append(f"  ({coq_str(name)}, [\n    {ss}])")
    L.append(";\n".join(rows))
    L.append("].")
    L.append("")
    pub = [n for n, _ in functions if not n.split(".")[1].startswith("_")]
    L.append("Definition public_functions : list string := [" + "; ".join(coq_str(n) for n in pub) + "].")
    L.append("")
    L.append("Definition checker_methods : list (string * (list string * list string)) := [")
    L.append(";\n".join(f"  ({coq_str(m)}, ([" + "; ".join(coq_str(a) for a in at) + "], [" +
                        "; ".join(coq_str(d) for d in de) + "]))" for m, at, de in methods))
    L.append("].")
    L.append("")
    L.append("(* per function with handlers around checker.check_object_store: do they all end with `return`? *)")
    L.append("Definition compare_handler_returns : list (string * bool) := [" + "; ".join(
        "(" + coq_str(f) + ", " + ("true" if b else "false") + ")" for f, b in HANDLER_RETURNS) + "].")
    L.append("")
    L.append("(* checker methods raising NotImplementedError when either list has order_relevant = False *)")
    L.append("Definition unordered_raises : list string := [" + "; ".join(coq_str(m) for m in unordered) + "].")
    L.append("")
    L.append("(* what check_object_store can raise on two readable stores *)")
    L.append("Definition checker_raises : list exc := [" + "; ".join(checker_raises) + "].")
    L.append("")
    L.append("Definition class_table : list (string * string * list string) := [")
    L.append(";\n".join(f"  ({coq_str(c)}, {coq_str(m)}, [" + "; ".join(coq_str(a) for a in at) + "])" for c, m, at in table))
    L.append("].")
    return "\n".join(L) + "\n"


def regenerate(repo=None):
    repo = repo or common.REPO
    functions = translate_checks(repo)
    methods, annotated = translate_checker(repo)
    table = class_table(annotated)
    unordered = translate_unordered(repo)
    checker_raises = translate_checker_raises(repo, unordered)
    text = render(functions, methods, table, unordered, checker_raises)
    common.write_if_changed(os.path.join(common.GEN, "Gen_Compliance.v"), text)
    return {"functions": functions, "methods": methods, "table": table, "unordered": unordered,
            "checker_raises": checker_raises}


if __name__ == "__main__":
    r = regenerate()
    for n, s in r["functions"]:
        print(n, len(s))
