"""Tie T for C05: translate the two official schema files shipped in the repository into Coq tables.

Reads (current working tree of common.REPO):
    compliance_tool/aas_compliance_tool/schemas/aasJSONSchema.json   (JSON Schema draft 2019-09)
    compliance_tool/aas_compliance_tool/schemas/aasXMLSchema.xsd     (XML Schema 1.0)
and writes coq/theories/gen/Gen_Schema.v (types of model/Schema.v) plus build/schemas.json for the harness.

The tables are *the specification's mapping*: per class the members / child elements, their order (XSD sequences),
cardinalities, required-ness, enum literal sets and leaf facets (minLength, maxLength, pattern as text).

Fail-closed: only the keyword subset enumerated below is accepted, anything else raises TranslationError.

JSON Schema subset (flatten_json):
    definitions/<X> ::= object-like | string-like | {"$ref"} alias | {"oneOf": [{"$ref"}...]}
    object-like     ::= {"type":"object"?, "properties":{name: T}, "required":[...]?} | {"allOf":[object-like | {"$ref"}]}
    T               ::= {"$ref"} | {"type":"string", facets..., "allOf":[facets...]?, "contentEncoding"?}
                      | {"type":"string","enum":[...]} | {"const": s} | {"type":"boolean"}
                      | {"type":"array","items":T,"minItems":1} | facets (in an allOf refinement of an inherited member)
    facets          ::= minLength | maxLength | pattern
  A member defined several times along allOf is the conjunction of its schemas (facets intersect, enum/const
  intersect).  oneOf is accepted only over classes that all require a `modelType` member fixed to pairwise distinct
  constants, so that oneOf = dispatch on modelType.  There is no additionalProperties keyword in the shipped schema:
  members outside `properties` are unconstrained by validation (the *mapping* check of C05 forbids them separately).

XSD subset (flatten_xsd):
    xs:group name=G     ::= xs:sequence of (xs:group ref | xs:element)  |  xs:choice of xs:element name type
    xs:complexType name ::= xs:sequence of xs:group ref
    xs:simpleType name  ::= xs:restriction base=xs:string with xs:enumeration* | without facets
    xs:element          ::= name, minOccurs in {0,1}?, maxOccurs=1?, and either type=<named type | xs:boolean |
                            xs:base64Binary | xs:string> or an anonymous xs:simpleType (restriction of xs:string with
                            minLength / maxLength / pattern) or an anonymous xs:complexType whose xs:sequence holds exactly
                            one of: an xs:element (min 1, max unbounded) = list; an xs:group ref to a choice group with
                            (1, unbounded) = list of alternatives, or with (1, 1) = exactly one alternative.
"""
import json
import os
import re

from . import TranslationError
import common

SCHEMA_DIR = "compliance_tool/aas_compliance_tool/schemas"
JSON_REL = SCHEMA_DIR + "/aasJSONSchema.json"
XSD_REL = SCHEMA_DIR + "/aasXMLSchema.xsd"
OUT = os.path.join(common.GEN, "Gen_Schema.v")
OUT_XML = os.path.join(common.GEN, "Gen_SchemaXml.v")
XS = "{http://www.w3.org/2001/XMLSchema}"
AAS_NS = "https://admin-shell.io/aas/3/0"


class Fail(TranslationError):
    pass


# =============================================================================================== JSON Schema
J_OBJ_KEYS = {"type", "properties", "required", "allOf"}
FACETS = ("minLength", "maxLength", "pattern")


def _ref(node):
    r = node["$ref"]
    if not r.startswith("#/definitions/") or len(node) != 1:
        raise Fail(f"JSON: unsupported $ref {node}")
    return r[len("#/definitions/"):]


class JsonFlat:
    def __init__(self, schema):
        self.s = schema
        extra = set(schema) - {"$schema", "title", "type", "allOf", "$id", "definitions"}
        if extra:
            raise Fail(f"JSON: unknown top-level keywords {sorted(extra)}")
        if schema.get("type") != "object" or [_ref(x) for x in schema.get("allOf", [])] != ["Environment"]:
            raise Fail("JSON: root is not allOf[$ref Environment]")
        self.d = schema["definitions"]
        self.patterns = []          # distinct pattern texts
        self.kind_cache = {}

    # ---- classification of a definition
    def kind(self, name):
        if name in self.kind_cache:
            return self.kind_cache[name]
        if name not in self.d:
            raise Fail(f"JSON: $ref to unknown definition {name}")
        n = self.d[name]
        if set(n) == {"$ref"}:
            k = self.kind(_ref(n))
        elif set(n) == {"oneOf"}:
            k = "oneof"
        elif n.get("type") == "string":
            k = "leaf"
        elif "properties" in n or "allOf" in n or n.get("type") == "object":
            k = "object"
        else:
            raise Fail(f"JSON: definition {name} has an unsupported shape: {sorted(n)}")
        self.kind_cache[name] = k
        return k

    def resolve_alias(self, name):
        n = self.d[name]
        while set(n) == {"$ref"}:
            name = _ref(n)
            n = self.d[name]
        return name

    # ---- object flattening: ordered member -> list of conjunct schemas, required set
    def flat_obj(self, node, where, seen=()):
        props, req = {}, []
        bad = set(node) - J_OBJ_KEYS - {"$ref"}
        if bad:
            raise Fail(f"JSON: {where}: unsupported keywords in an object schema: {sorted(bad)}")
        if "$ref" in node:
            name = _ref(node)
            if name in seen:
                raise Fail(f"JSON: cyclic allOf through {name}")
            return self.flat_obj(self.d[self.resolve_alias(name)], name, seen + (name,))
        if "type" in node and node["type"] != "object":
            raise Fail(f"JSON: {where}: type {node['type']} in an object schema")
        for sub in node.get("allOf", []):
            p, r = self.flat_obj(sub, where, seen)
            for k, v in p.items():
                props.setdefault(k, []).extend(v)
            req += [x for x in r if x not in req]
        for k, v in node.get("properties", {}).items():
            props.setdefault(k, []).append(v)
        for x in node.get("required", []):
            if x not in req:
                req.append(x)
        return props, req

    # ---- member types
    def pat_id(self, text):
        if text not in self.patterns:
            self.patterns.append(text)
        return "J%d" % self.patterns.index(text)

    def facets_of(self, node, where):
        f = {"min": 0, "max": None, "pats": []}
        for k, v in node.items():
            if k == "minLength":
                f["min"] = max(f["min"], int(v))
            elif k == "maxLength":
                f["max"] = int(v) if f["max"] is None else min(f["max"], int(v))
            elif k == "pattern":
                f["pats"].append(self.pat_id(v))
            elif k in ("type", "allOf", "contentEncoding"):
                pass
            else:
                raise Fail(f"JSON: {where}: unsupported string keyword {k}")
        for sub in node.get("allOf", []):
            if set(sub) - set(FACETS):
                raise Fail(f"JSON: {where}: allOf of a string may only hold facets, got {sorted(sub)}")
            g = self.facets_of(sub, where)
            f = merge_facets(f, g)
        return f

    def ty(self, node, where):
        keys = set(node)
        if "$ref" in keys:
            name = self.resolve_alias(_ref(node))
            k = self.kind(name)
            if k == "object":
                return ("obj", name)
            if k == "oneof":
                alts = [self.resolve_alias(_ref(x)) for x in self.d[name]["oneOf"]]
                return ("one", alts)
            return self.ty(self.d[name], name)
        if keys == {"const"}:
            if not isinstance(node["const"], str):
                raise Fail(f"JSON: {where}: non-string const")
            return ("enum", [node["const"]])
        t = node.get("type")
        if t == "string" and "enum" in keys:
            if keys - {"type", "enum"} or not all(isinstance(x, str) for x in node["enum"]):
                raise Fail(f"JSON: {where}: unsupported enum schema {sorted(keys)}")
            return ("enum", list(node["enum"]))
        if t == "string":
            if "contentEncoding" in keys and node["contentEncoding"] != "base64":
                raise Fail(f"JSON: {where}: contentEncoding {node['contentEncoding']}")
            return ("str", self.facets_of(node, where))
        if t == "boolean":
            if keys != {"type"}:
                raise Fail(f"JSON: {where}: unsupported boolean schema")
            return ("bool",)
        if t == "array":
            if keys - {"type", "items", "minItems"} or "items" not in keys:
                raise Fail(f"JSON: {where}: unsupported array schema {sorted(keys)}")
            mi = node.get("minItems", 0)
            if mi not in (0, 1):
                raise Fail(f"JSON: {where}: minItems {mi}")
            return ("arr", self.ty(node["items"], where + "[]"), mi == 1)
        if t is None and keys and keys <= set(FACETS):
            return ("facets", self.facets_of(node, where))
        raise Fail(f"JSON: {where}: unsupported member schema {sorted(keys)}")

    def merge(self, a, b, where):
        if a[0] == "str" and b[0] in ("str", "facets"):
            return ("str", merge_facets(a[1], b[1]))
        if a[0] == "facets" and b[0] == "str":
            return ("str", merge_facets(a[1], b[1]))
        if a[0] == "facets" and b[0] == "facets":
            return ("facets", merge_facets(a[1], b[1]))
        if a[0] == "enum" and b[0] == "enum":
            lits = [x for x in a[1] if x in b[1]]
            if not lits:
                raise Fail(f"JSON: {where}: empty intersection of enum / const")
            return ("enum", lits)
        if a == b:
            return a
        raise Fail(f"JSON: {where}: cannot intersect member schemas {a[0]} and {b[0]}")

    def flatten(self):
        classes = {}
        for name in self.d:
            if self.kind(name) != "object" or set(self.d[name]) == {"$ref"}:
                continue
            props, req = self.flat_obj(self.d[name], name)
            rows = []
            for m, conj in props.items():
                t = None
                for c in conj:
                    tc = self.ty(c, f"{name}.{m}")
                    t = tc if t is None else self.merge(t, tc, f"{name}.{m}")
                if t[0] == "facets":
                    raise Fail(f"JSON: {name}.{m}: facets without a type")
                rows.append((m, m in req, t))
            for r in req:
                if r not in props:
                    raise Fail(f"JSON: {name}: required member {r} has no schema")
            classes[name] = rows
        # oneOf = dispatch on modelType: every alternative requires modelType fixed to one distinct constant
        for name in self.d:
            if set(self.d[name]) == {"oneOf"}:
                alts = [self.resolve_alias(_ref(x)) for x in self.d[name]["oneOf"]]
                consts = []
                for a in alts:
                    row = next((r for r in classes.get(a, []) if r[0] == "modelType"), None)
                    if row is None or not row[1] or row[2][0] != "enum" or len(row[2][1]) != 1:
                        raise Fail(f"JSON: oneOf {name}: alternative {a} has no required constant modelType")
                    consts.append(row[2][1][0])
                if len(set(consts)) != len(consts):
                    raise Fail(f"JSON: oneOf {name}: modelType constants are not distinct")
        return classes


def merge_facets(f, g):
    mx = f["max"] if g["max"] is None else (g["max"] if f["max"] is None else min(f["max"], g["max"]))
    return {"min": max(f["min"], g["min"]), "max": mx, "pats": f["pats"] + [p for p in g["pats"] if p not in f["pats"]]}


def flatten_json():
    schema = json.load(open(os.path.join(common.REPO, JSON_REL), encoding="utf-8"))
    jf = JsonFlat(schema)
    classes = jf.flatten()
    return dict(classes=classes, patterns=jf.patterns, root="Environment")


# =============================================================================================== XML Schema
def _local(tag):
    return tag[len(XS):] if isinstance(tag, str) and tag.startswith(XS) else None


def _kids(e):
    out = []
    for k in e:
        if not isinstance(k.tag, str):
            continue                         # comments
        l = _local(k.tag)
        if l is None:
            raise Fail(f"XSD: foreign element {k.tag}")
        if l == "annotation":
            continue
        out.append((l, k))
    return out


class XsdFlat:
    def __init__(self, root):
        if _local(root.tag) != "schema" or root.get("targetNamespace") != AAS_NS or \
                root.get("elementFormDefault") != "qualified" or set(root.attrib) != {"targetNamespace", "elementFormDefault"}:
            raise Fail("XSD: unexpected xs:schema attributes")
        self.groups, self.ctypes, self.stypes, self.roots = {}, {}, {}, []
        for l, e in _kids(root):
            n = e.get("name")
            if l == "group" and set(e.attrib) == {"name"}:
                self.groups[n] = e
            elif l == "complexType" and set(e.attrib) == {"name"}:
                self.ctypes[n] = e
            elif l == "simpleType" and set(e.attrib) == {"name"}:
                self.stypes[n] = e
            elif l == "element" and set(e.attrib) == {"name", "type"}:
                self.roots.append((n, e.get("type")))
            else:
                raise Fail(f"XSD: unsupported top-level component xs:{l} {dict(e.attrib)}")
        self.patterns = []
        self.group_cache = {}

    def pat_id(self, text):
        if text not in self.patterns:
            self.patterns.append(text)
        return "X%d" % self.patterns.index(text)

    def occurs(self, e, allowed):
        mn, mx = e.get("minOccurs", "1"), e.get("maxOccurs", "1")
        if (mn, mx) not in allowed:
            raise Fail(f"XSD: occurrence ({mn},{mx}) not supported at {e.get('name') or e.get('ref')}")
        return mn, mx

    def group_shape(self, name):
        """'sequence' | 'choice' without flattening (types may be recursive: reference_t holds a reference_t)"""
        if name not in self.groups:
            raise Fail(f"XSD: group {name} not defined")
        kids = _kids(self.groups[name])
        if len(kids) != 1 or kids[0][0] not in ("sequence", "choice"):
            raise Fail(f"XSD: group {name} must hold exactly one xs:sequence or xs:choice")
        return kids[0][0]

    # ---- a group: ("seq", [particle...]) or ("choice", [(element, type)...])
    def group(self, name, seen=()):
        if name in self.group_cache:
            return self.group_cache[name]
        if name not in self.groups:
            raise Fail(f"XSD: group {name} not defined")
        if name in seen:
            raise Fail(f"XSD: cyclic group {name}")
        kids = _kids(self.groups[name])
        if len(kids) != 1:
            raise Fail(f"XSD: group {name} must hold exactly one model group")
        l, m = kids[0]
        if m.attrib:
            raise Fail(f"XSD: group {name}: occurrence on the model group")
        if l == "choice":
            alts = []
            for kl, k in _kids(m):
                if kl != "element" or set(k.attrib) != {"name", "type"}:
                    raise Fail(f"XSD: choice group {name}: unsupported alternative xs:{kl} {dict(k.attrib)}")
                alts.append((k.get("name"), self.elem_type(k, f"{name}/{k.get('name')}")))
            res = ("choice", alts)
        elif l == "sequence":
            res = ("seq", self.sequence(m, name, seen + (name,)))
        else:
            raise Fail(f"XSD: group {name}: xs:{l}")
        self.group_cache[name] = res
        return res

    def sequence(self, seq, where, seen=()):
        parts = []
        for l, k in _kids(seq):
            if l == "group":
                if set(k.attrib) != {"ref"}:
                    raise Fail(f"XSD: {where}: group reference with occurrence inside a sequence of a class")
                g = self.group(k.get("ref"), seen)
                if g[0] != "seq":
                    raise Fail(f"XSD: {where}: reference to choice group {k.get('ref')} in a class sequence")
                parts += g[1]
            elif l == "element":
                if set(k.attrib) - {"name", "type", "minOccurs", "maxOccurs"}:
                    raise Fail(f"XSD: {where}: element attributes {dict(k.attrib)}")
                mn, _ = self.occurs(k, {("0", "1"), ("1", "1")})
                parts.append((k.get("name"), mn == "0", self.elem_type(k, f"{where}/{k.get('name')}")))
            else:
                raise Fail(f"XSD: {where}: xs:{l} in a sequence")
        names = [p[0] for p in parts]
        if len(set(names)) != len(names):
            raise Fail(f"XSD: {where}: element names of the sequence are not distinct")
        return parts

    def simple(self, st, where):
        kids = _kids(st)
        if len(kids) != 1 or kids[0][0] != "restriction" or kids[0][1].get("base") != "xs:string":
            raise Fail(f"XSD: {where}: simpleType is not a restriction of xs:string")
        f = {"min": 0, "max": None, "pats": []}
        enum = []
        for l, k in _kids(kids[0][1]):
            v = k.get("value")
            if set(k.attrib) != {"value"}:
                raise Fail(f"XSD: {where}: facet attributes {dict(k.attrib)}")
            if l == "minLength":
                f["min"] = max(f["min"], int(v))
            elif l == "maxLength":
                f["max"] = int(v) if f["max"] is None else min(f["max"], int(v))
            elif l == "pattern":
                f["pats"].append(self.pat_id(v))
            elif l == "enumeration":
                enum.append(v)
            else:
                raise Fail(f"XSD: {where}: facet xs:{l}")
        if enum:
            if f["min"] or f["max"] is not None or f["pats"]:
                raise Fail(f"XSD: {where}: enumeration mixed with other facets")
            return ("enum", enum)
        return ("str", f)

    def named_type(self, t, where):
        if t == "xs:boolean":
            return ("bool",)
        if t == "xs:base64Binary":
            return ("b64",)
        if t == "xs:string":
            return ("str", {"min": 0, "max": None, "pats": []})
        if t.startswith("xs:"):
            raise Fail(f"XSD: {where}: built-in type {t} not supported")
        if t in self.stypes:
            return self.simple(self.stypes[t], t)
        if t in self.ctypes:
            kids = _kids(self.ctypes[t])
            if len(kids) != 1 or kids[0][0] != "sequence" or kids[0][1].attrib:
                raise Fail(f"XSD: complexType {t}")
            refs = _kids(kids[0][1])
            if len(refs) != 1 or refs[0][0] != "group" or set(refs[0][1].attrib) != {"ref"}:
                raise Fail(f"XSD: complexType {t} is not a sequence of one group reference")
            g = refs[0][1].get("ref")
            if self.group_shape(g) != "sequence":
                raise Fail(f"XSD: complexType {t} refers to a choice group")
            return ("cls", g)
        raise Fail(f"XSD: {where}: unknown type {t}")

    def elem_type(self, e, where):
        kids = _kids(e)
        if e.get("type") is not None:
            if kids:
                raise Fail(f"XSD: {where}: both type attribute and anonymous type")
            return self.named_type(e.get("type"), where)
        if len(kids) != 1:
            raise Fail(f"XSD: {where}: element without type")
        l, k = kids[0]
        if l == "simpleType":
            if k.attrib:
                raise Fail(f"XSD: {where}: attributes on anonymous simpleType")
            return self.simple(k, where)
        if l != "complexType" or k.attrib:
            raise Fail(f"XSD: {where}: xs:{l}")
        ck = _kids(k)
        if len(ck) != 1 or ck[0][0] != "sequence" or ck[0][1].attrib:
            raise Fail(f"XSD: {where}: anonymous complexType is not a plain sequence")
        items = _kids(ck[0][1])
        if len(items) != 1:
            raise Fail(f"XSD: {where}: wrapper sequence must hold exactly one particle")
        il, it = items[0]
        if il == "element":
            if set(it.attrib) != {"name", "type", "minOccurs", "maxOccurs"}:
                raise Fail(f"XSD: {where}: list item attributes {dict(it.attrib)}")
            self.occurs(it, {("1", "unbounded")})
            return ("list", it.get("name"), self.elem_type(it, where + "/" + it.get("name")))
        if il == "group":
            if self.group_shape(it.get("ref")) != "choice":
                raise Fail(f"XSD: {where}: wrapper around a non-choice group")
            if set(it.attrib) == {"ref"}:
                return ("one", it.get("ref"))
            if set(it.attrib) == {"ref", "minOccurs", "maxOccurs"}:
                self.occurs(it, {("1", "unbounded")})
                return ("many", it.get("ref"))
        raise Fail(f"XSD: {where}: unsupported wrapper content xs:{il} {dict(it.attrib)}")

    def flatten(self):
        classes, choices = {}, {}
        for g in self.groups:
            k, body = self.group(g)
            if k == "seq":
                classes[g] = body
            else:
                choices[g] = body
        for t in self.ctypes:
            self.named_type(t, t)
        for t in self.stypes:
            self.simple(self.stypes[t], t)
        if len(self.roots) != 1 or self.roots[0][0] != "environment":
            raise Fail(f"XSD: root elements {self.roots}")
        rt = self.named_type(self.roots[0][1], "environment")
        if rt[0] != "cls":
            raise Fail("XSD: root element is not of a class type")
        return dict(classes=classes, choices=choices, patterns=self.patterns, root=("environment", rt[1]))


def flatten_xsd():
    from lxml import etree
    tree = etree.parse(os.path.join(common.REPO, XSD_REL), etree.XMLParser(remove_comments=True, resolve_entities=False))
    return XsdFlat(tree.getroot()).flatten()


# =============================================================================================== specification side
# The metamodel constraint table and the mapping attribute -> member / element name, written from "Details of the
# Asset Administration Shell, Part 1, V3.0" (section 5.3.11 primitive and simple data types; 5.3.x class tables;
# section 9/10 mappings: the JSON member and the XML element carry the attribute's name in lower camel case, plural
# for attributes of cardinality *).  Attribute names on the left are the SDK's Python names (the value universe of
# the model is the SDK's objects); everything on the right is the specification's.
# constrained string types: name -> (minLength, maxLength, [lexical space names])
STRING_TYPES = {
    "Identifier": (1, 2000, []), "LabelType": (1, 64, []), "NameType": (1, 128, []),
    "IdShortType": (1, 128, ["idshort"]), "PathType": (1, 2000, ["fileuri"]), "ContentType": (1, 100, ["mime"]),
    "MessageTopicType": (1, 255, []), "VersionType": (1, 4, ["version"]), "RevisionType": (1, 4, ["version"]),
    "ValueTypeIec61360": (1, 2000, []), "NonEmptyString": (1, None, []), "BcpLangString": (1, None, ["bcp47"]),
    "Text128": (1, 128, []), "Text1023": (1, 1023, []), "Text255": (1, 255, []), "Text18": (1, 18, []),
    # typed literals computed by the SDK (xsd_repr / base64): hypotheses about that output, see props/C05.v
    "ValueDataType": (0, None, []), "DateTimeUtc": (0, None, ["datetimeutc"]), "Duration": (0, None, ["duration"]),
    "BlobType": (0, None, ["base64"]),
}
# lexical space name -> how to find the schema's pattern text that formalises it: (JSON prefix, XSD prefix)
LEXICAL = {
    "xmlchar": ("^([\\t\\n\\r -\ud7ff\ue000-\ufffd]|", None),                # AASd-130; implicit in XML 1.0
    "idshort": ("^[a-zA-Z][a-zA-Z0-9_]*$", "[a-zA-Z][a-zA-Z0-9_]*"),
    "version": ("^(0|[1-9][0-9]*)$", "(0|[1-9][0-9]*)"),
    "bcp47": ("^(([a-zA-Z]{2,3}(-[a-zA-Z]{3}(-[a-zA-Z]{3}){2})?|", "(([a-zA-Z]{2,3}(-[a-zA-Z]{3}(-[a-zA-Z]{3}){2})?|"),
    "mime": ("^([!#$%&'*+\\-.^_`|~0-9a-zA-Z])+/", "([!#$%&'*+\\-.^_`|~0-9a-zA-Z])+/"),
    "fileuri": ("^file:(//((localhost|", "file:(//((localhost|"),
    "datetimeutc": ("^-?(([1-9][0-9][0-9][0-9]+)|(0[0-9][0-9][0-9]))-", "-?(([1-9][0-9][0-9][0-9]+)|(0[0-9][0-9][0-9]))-"),
    "duration": ("^-?P(", "-?P("),
    "base64": (None, None),                                                  # xs:base64Binary (XSD built-in type)
}
MEMBER = {  # python attribute -> name in both serialisations
    "key": "keys", "referred_semantic_id": "referredSemanticId", "version": "version", "revision": "revision",
    "creator": "creator", "template_id": "templateId", "type": "type", "value_type": "valueType", "value": "value",
    "value_id": "valueId", "kind": "kind", "name": "name", "refers_to": "refersTo",
    "data_specification": "dataSpecification", "data_specification_content": "dataSpecificationContent",
    "preferred_name": "preferredName", "data_type": "dataType", "definition": "definition", "short_name": "shortName",
    "unit": "unit", "unit_id": "unitId", "source_of_definition": "sourceOfDefinition", "symbol": "symbol",
    "value_format": "valueFormat", "value_list": "valueList", "level_types": "levelType",
    "external_subject_id": "externalSubjectId", "path": "path", "content_type": "contentType",
    "asset_kind": "assetKind", "global_asset_id": "globalAssetId", "specific_asset_id": "specificAssetIds",
    "asset_type": "assetType", "default_thumbnail": "defaultThumbnail", "asset_information": "assetInformation",
    "submodel": "submodels", "derived_from": "derivedFrom", "submodel_element": "submodelElements",
    "is_case_of": "isCaseOf", "min": "min", "max": "max", "type_value_list_element": "typeValueListElement",
    "order_relevant": "orderRelevant", "semantic_id_list_element": "semanticIdListElement",
    "value_type_list_element": "valueTypeListElement", "first": "first", "second": "second",
    "annotation": "annotations", "input_variable": "inputVariables", "output_variable": "outputVariables",
    "in_output_variable": "inoutputVariables", "entity_type": "entityType", "statement": "statements",
    "observed": "observed", "direction": "direction", "state": "state", "message_topic": "messageTopic",
    "message_broker": "messageBroker", "last_update": "lastUpdate", "min_interval": "minInterval",
    "max_interval": "maxInterval", "language": "language", "text": "text", "id_short": "idShort",
    "display_name": "displayName", "category": "category", "description": "description", "extension": "extensions",
    "embedded_data_specifications": "embeddedDataSpecifications", "id": "id", "administration": "administration",
    "semantic_id": "semanticId", "supplemental_semantic_id": "supplementalSemanticIds", "qualifier": "qualifiers",
}
# (class, attribute) -> constrained string type; ("*", attribute) applies to every class having the attribute
STRING_OF = {
    ("*", "id_short"): "IdShortType", ("*", "category"): "NameType", ("*", "id"): "Identifier",
    ("Key", "value"): "Identifier",
    ("AdministrativeInformation", "version"): "VersionType", ("AdministrativeInformation", "revision"): "RevisionType",
    ("AdministrativeInformation", "template_id"): "Identifier",
    ("Qualifier", "type"): "NameType", ("Extension", "name"): "NameType",
    ("DataSpecificationIEC61360", "unit"): "NonEmptyString",
    ("DataSpecificationIEC61360", "source_of_definition"): "NonEmptyString",
    ("DataSpecificationIEC61360", "symbol"): "NonEmptyString",
    ("DataSpecificationIEC61360", "value_format"): "NonEmptyString",
    ("DataSpecificationIEC61360", "value"): "ValueTypeIec61360", ("ValueReferencePair", "value"): "ValueTypeIec61360",
    ("SpecificAssetId", "name"): "LabelType", ("SpecificAssetId", "value"): "Identifier",
    ("Resource", "path"): "PathType", ("Resource", "content_type"): "ContentType",
    ("AssetInformation", "global_asset_id"): "Identifier", ("AssetInformation", "asset_type"): "Identifier",
    ("Entity", "global_asset_id"): "Identifier",
    ("Blob", "content_type"): "ContentType", ("File", "content_type"): "ContentType", ("File", "value"): "PathType",
    ("BasicEventElement", "message_topic"): "MessageTopicType",
    ("LangString", "language"): "BcpLangString",
    # typed literals
    ("Qualifier", "value"): "ValueDataType", ("Extension", "value"): "ValueDataType",
    ("Property", "value"): "ValueDataType", ("Range", "min"): "ValueDataType", ("Range", "max"): "ValueDataType",
    ("Blob", "value"): "BlobType", ("BasicEventElement", "last_update"): "DateTimeUtc",
    ("BasicEventElement", "min_interval"): "Duration", ("BasicEventElement", "max_interval"): "Duration",
}
LANG_TEXT = {"MultiLanguageNameType": "Text128", "MultiLanguageTextType": "Text1023", "DefinitionTypeIEC61360": "Text1023",
             "PreferredNameTypeIEC61360": "Text255", "ShortNameTypeIEC61360": "Text18"}
# metamodel cardinality 1..* of collection attributes (every other collection is 0..*)
MIN_ONE = {("ExternalReference", "key"), ("ModelReference", "key"), ("DataSpecificationIEC61360", "value_list")}
# DataTypeDefXsd of Part 1 V3.0 (30 literals): the SDK additionally offers NormalizedString, which is no metamodel value
XSD_TYPES = ["relativedelta", "datetime", "Date", "time", "GYearMonth", "GYear", "GMonthDay", "GMonth", "GDay", "bool",
             "Base64Binary", "HexBinary", "Float", "float", "Decimal", "int", "Long", "Int", "Short", "Byte",
             "NonPositiveInteger", "NegativeInteger", "NonNegativeInteger", "PositiveInteger", "UnsignedLong",
             "UnsignedInt", "UnsignedShort", "UnsignedByte", "AnyURI", "str"]
DATA_ELEMENTS = ["Property", "MultiLanguageProperty", "Range", "Blob", "File", "ReferenceElement"]
SUBMODEL_ELEMENTS = DATA_ELEMENTS + ["SubmodelElementCollection", "SubmodelElementList", "RelationshipElement",
                                     "AnnotatedRelationshipElement", "Operation", "Capability", "Entity",
                                     "BasicEventElement"]
SME_CLASS_LITERALS = SUBMODEL_ELEMENTS + ["SubmodelElement", "DataElement", "EventElement"]
ENUMS = {  # metamodel enumerations by the SDK's member names (the value universe), in the specification's order
    "KeyTypes": ["ASSET_ADMINISTRATION_SHELL", "CONCEPT_DESCRIPTION", "SUBMODEL", "ANNOTATED_RELATIONSHIP_ELEMENT",
                 "BASIC_EVENT_ELEMENT", "BLOB", "CAPABILITY", "DATA_ELEMENT", "ENTITY", "EVENT_ELEMENT", "FILE",
                 "MULTI_LANGUAGE_PROPERTY", "OPERATION", "PROPERTY", "RANGE", "REFERENCE_ELEMENT",
                 "RELATIONSHIP_ELEMENT", "SUBMODEL_ELEMENT", "SUBMODEL_ELEMENT_COLLECTION", "SUBMODEL_ELEMENT_LIST",
                 "GLOBAL_REFERENCE", "FRAGMENT_REFERENCE"],
    "QualifierKind": ["CONCEPT_QUALIFIER", "TEMPLATE_QUALIFIER", "VALUE_QUALIFIER"],
    "AssetKind": ["TYPE", "INSTANCE", "NOT_APPLICABLE"], "ModellingKind": ["TEMPLATE", "INSTANCE"],
    "EntityType": ["CO_MANAGED_ENTITY", "SELF_MANAGED_ENTITY"], "Direction": ["INPUT", "OUTPUT"],
    "StateOfEvent": ["ON", "OFF"],
    "DataTypeIEC61360": ["DATE", "STRING", "STRING_TRANSLATABLE", "INTEGER_MEASURE", "INTEGER_COUNT", "INTEGER_CURRENCY",
                         "REAL_MEASURE", "REAL_COUNT", "REAL_CURRENCY", "BOOLEAN", "IRI", "IRDI", "RATIONAL",
                         "RATIONAL_MEASURE", "TIME", "TIMESTAMP", "HTML", "BLOB", "FILE"],
    "IEC61360LevelType": ["MIN", "NOM", "TYP", "MAX"],
}
# explicit defaults of the metamodel: the attribute may be absent from a document, the value is then this one
DEFAULTS = {("Submodel", "kind"): ("VStr", "INSTANCE"), ("SubmodelElementList", "order_relevant"): ("VBool", True),
            ("Qualifier", "kind"): ("VStr", "CONCEPT_QUALIFIER")}
REFS = ["ModelReference", "ExternalReference"]
# class of the value universe -> definition name in the schemas (XSD group = the same with a lower-case first letter)
CLASSMAP = {"ExternalReference": "Reference", "ModelReference": "Reference",
            "DataSpecificationIEC61360": "DataSpecificationIec61360",
            "MultiLanguageNameType": "LangStringNameType", "MultiLanguageTextType": "LangStringTextType",
            "DefinitionTypeIEC61360": "LangStringDefinitionTypeIec61360",
            "PreferredNameTypeIEC61360": "LangStringPreferredNameTypeIec61360",
            "ShortNameTypeIEC61360": "LangStringShortNameTypeIec61360"}
# XSD value types (Python class names of the value universe) -> DataTypeDefXsd literal; every other enumeration member
# is spelled like its name (MODEL_REFERENCE -> ModelReference, INPUT -> input): checked in Coq by [literal_ok]
XSD_NAME = {"int": "xs:integer", "float": "xs:double", "Float": "xs:float", "str": "xs:string",
            "relativedelta": "xs:duration", "datetime": "xs:dateTime", "time": "xs:time", "bool": "xs:boolean",
            "Decimal": "xs:decimal"}
# the SDK's name of the enum <-> string table of each metamodel enumeration (gen/Gen_JsonRules.v tbl_<name>)
ENUM_TABLE = {"KeyTypes": "KEY_TYPES", "QualifierKind": "QUALIFIER_KIND", "AssetKind": "ASSET_KIND",
              "ModellingKind": "MODELLING_KIND", "EntityType": "ENTITY_TYPES", "Direction": "DIRECTION",
              "StateOfEvent": "STATE_OF_EVENT", "DataTypeIEC61360": "IEC61360_DATA_TYPES",
              "IEC61360LevelType": "IEC61360_LEVEL_TYPES", "xsdtype": "XSD_TYPE_NAMES",
              "keytypeclass": "KEY_TYPE_OF_CLASS"}
# AASd-005: a revision exists only together with a version
UNDER = {("AdministrativeInformation", "revision"): "version"}


def xsd_literal(pyname):
    return XSD_NAME.get(pyname) or "xs:" + pyname[0].lower() + pyname[1:]


def spec_writer(j, explicit):
    """The mapping as *writer rule tables* (types of model/Codec.v), derived from the schema tables, aasgen.META and the
    mapping names only - not from the SDK's writer: class -> (constants, [(member, attr, cond, enc)]).
    explicit: write attributes that hold their metamodel default explicitly (else leave them out where expressible)."""
    import aasgen
    jc = {c: {m: (r, ty) for m, r, ty in ps} for c, ps in j["classes"].items()}
    out = {}

    def wrapper(scls):
        rows = j["classes"].get(scls, [])
        return rows[0] if len(rows) == 1 else None

    metas = dict(aasgen.META)
    metas["LangString"] = [("language", "str"), ("text", "str")]
    for cls, attrs in metas.items():
        scls = {"LangString": "LangStringTextType"}.get(cls) or CLASSMAP.get(cls, cls)
        if scls not in jc:
            raise Fail(f"spec writer: no schema definition for {cls}")
        consts = []
        if cls in REFS:
            consts.append(("type", cls))
        mt = jc[scls].get("modelType")
        if mt and mt[1][0] == "enum" and len(mt[1][1]) == 1:
            consts.append(("modelType", mt[1][1][0]))
        rules = []
        for attr, kind in attrs:
            member = MEMBER[attr]
            row = jc[scls].get(member)
            if row is None:
                raise Fail(f"spec writer: {scls} has no member {member} for {cls}.{attr}")
            ty = row[1]
            bare = kind.split(":", 1)[0]
            opt = kind[0] == "o" and bare not in ("obj",) or kind in ("leaf",)
            if bare in ("enum", "oenum"):
                enc = ("EEnum", ENUM_TABLE[kind.split(":", 1)[1]])
            elif kind in ("xsdtype", "oxsdtype"):
                enc = ("EEnum", ENUM_TABLE["xsdtype"])
            elif kind == "keytypeclass":
                enc = ("EEnum", ENUM_TABLE["keytypeclass"])
            elif kind in ("leaf", "odatetime", "oduration", "obytes"):
                enc = ("ELeaf",)
            elif kind == "set:enum:IEC61360LevelType":
                enc = ("ELevel", ENUM_TABLE["IEC61360LevelType"])
            elif ty[0] == "arr" and ty[1][0] == "obj" and wrapper(ty[1][1]) and not kind.endswith(ty[1][1]) \
                    and not kind.startswith(("olang", "lang")) and ty[1][1] not in CLASSMAP.values():
                enc = ("EListWrap", wrapper(ty[1][1])[0])
            elif ty[0] == "obj" and wrapper(ty[1]) and wrapper(ty[1])[2][0] == "arr" and bare in ("oset", "set", "list"):
                enc = ("EObjWrap", wrapper(ty[1])[0])
            else:
                enc = ("EAuto",)
            dflt = DEFAULTS.get((cls, attr))
            if (cls, attr) in UNDER:
                cond = ("WTruthyUnder", UNDER[(cls, attr)])
            elif any(u == attr and c == cls for (c, _), u in UNDER.items()):
                cond = ("WTruthy",)
            elif dflt is not None:
                members = ENUMS.get(kind.split(":", 1)[1], []) if ":" in kind else []
                if not explicit and dflt[0] == "VStr" and len(members) == 2:
                    cond = ("WEquals", [m for m in members if m != dflt[1]][0])
                else:
                    cond = ("WAlways",)
            elif opt:
                cond = ("WNotNone",)
            elif (cls, attr) in MIN_ONE:
                cond = ("WAlways",)
            elif bare in ("list", "set") or kind in ("reflist", "refset"):
                cond = ("WNonEmpty",)
            else:
                cond = ("WAlways",)
            rules.append((member, attr, cond, enc))
        out[cls] = (consts, rules)
    return out


def coq_spec_writer(name, sw):
    def cond(c):
        return c[0] if len(c) == 1 else f"{c[0]} {q(c[1])}"

    def enc(e):
        if e[0] in ("EEnum", "ELevel"):
            return f"{e[0]} tbl_{e[1]}"
        return e[0] if len(e) == 1 else f"{e[0]} {q(e[1])}"
    rows = []
    for cls, (consts, rules) in sw.items():
        rows.append(f"  ({q(cls)}, ([" + "; ".join(f"({q(a)}, {q(b)})" for a, b in consts) + "],\n     [" +
                    ";\n      ".join(f"mkW {q(m)} {q(a)} ({cond(c)}) ({enc(e)}) false" for m, a, c, e in rules) + "]))")
    return [f"Definition {name} : list (string * (list (string * string) * list wrule)) := [", ";\n".join(rows) + "]."]


def string_type(cls, attr):
    return STRING_OF.get((cls, attr)) or STRING_OF.get(("*", attr))


def spec_kind(cls, attr, kind):
    """aasgen.META kind -> (optional?, skind tuple) with the metamodel's constraints"""
    def S(name):
        if name is None:
            raise Fail(f"spec: no constrained string type for {cls}.{attr}")
        return ("KStr", name)
    mn1 = (cls, attr) in MIN_ONE
    if kind == "str":
        return False, S(string_type(cls, attr))
    if kind in ("ostr", "ostr0"):
        return True, S(string_type(cls, attr))
    if kind == "bool":
        return False, ("KBool",)
    if kind.startswith("enum:"):
        return False, ("KEnum", ENUMS[kind[5:]])
    if kind.startswith("oenum:"):
        return True, ("KEnum", ENUMS[kind[6:]])
    if kind == "xsdtype":
        return False, ("KEnum", XSD_TYPES)
    if kind == "oxsdtype":
        return True, ("KEnum", XSD_TYPES)
    if kind == "keytypeclass":
        return False, ("KEnum", SME_CLASS_LITERALS)
    if kind in ("leaf", "obytes", "odatetime", "oduration"):
        t = string_type(cls, attr)
        if t is None:
            raise Fail(f"spec: no literal type for {cls}.{attr}")
        return True, ("KLeaf", t)
    if kind in ("ref", "oref"):
        return kind[0] == "o", ("KObj", REFS, "")
    if kind in ("mref", "omref"):
        return kind[0] == "o", ("KObj", ["ModelReference"], "")
    if kind in ("reflist", "refset"):
        return False, ("KList", ("KObj", REFS, ""), mn1)

    def classes(c):
        return {"SubmodelElement": SUBMODEL_ELEMENTS, "DataElement": DATA_ELEMENTS}.get(c, [c])
    if kind.startswith("obj:") or kind.startswith("oobj:"):
        return kind[0] == "o" and kind[1] == "o", ("KObj", classes(kind.split(":", 1)[1]), "")
    if kind == "set:enum:IEC61360LevelType":
        return False, ("KEnumSet", ENUMS["IEC61360LevelType"])
    if kind.startswith("list:") or kind.startswith("set:"):
        return False, ("KList", ("KObj", classes(kind.split(":", 1)[1]), ""), mn1)
    if kind.startswith("oset:"):
        return True, ("KList", ("KObj", classes(kind[5:]), ""), mn1)
    if kind.startswith("olang:") or kind.startswith("lang:"):
        return kind[0] == "o", ("KList", ("KObj", ["LangString"], "@" + kind.split(":", 1)[1]), True)
    raise Fail(f"spec: kind {kind}")


def spec_meta():
    """class key (class or class@context) -> [(attr, member, optional, skind, default)]"""
    import aasgen
    out = {}
    for cls, attrs in aasgen.META.items():
        rows = []
        for attr, kind in attrs:
            if attr not in MEMBER:
                raise Fail(f"spec: no mapping name for attribute {cls}.{attr}")
            opt, k = spec_kind(cls, attr, kind)
            rows.append((attr, MEMBER[attr], opt, k, DEFAULTS.get((cls, attr))))
        out[cls] = rows
    for ctx, t in LANG_TEXT.items():
        out["LangString@" + ctx] = [("language", "language", False, ("KStr", "BcpLangString"), None),
                                    ("text", "text", False, ("KStr", t), None)]
    return out


def resolve_lexical(patterns, flavour):
    """lexical space name -> pattern id of the given schema ('J' / 'X')"""
    res = {}
    for name, (jp, xp) in LEXICAL.items():
        pre = jp if flavour == "J" else xp
        if pre is None:
            continue
        hits = [i for i, p in enumerate(patterns) if p.startswith(pre)]
        if len(hits) != 1:
            raise Fail(f"spec: lexical space {name}: {len(hits)} {flavour} patterns start with {pre!r}")
        res[name] = f"{flavour}{hits[0]}"
    return res


# =============================================================================================== top-level lists
def json_tops():
    """_create_dict of json_serialization.py: [(member, class)] in emission order (fail-closed on its shape)"""
    import ast
    src = open(os.path.join(common.REPO, "sdk/basyx/aas/adapter/json/json_serialization.py")).read()
    f = next((n for n in ast.parse(src).body if isinstance(n, ast.FunctionDef) and n.name == "_create_dict"), None)
    if f is None:
        raise Fail("json_serialization._create_dict not found")
    lists, tops = {}, []
    for st in f.body:
        u = ast.unparse(st)
        if isinstance(st, ast.AnnAssign) and isinstance(st.value, (ast.List, ast.Dict)):
            continue
        if isinstance(st, ast.For):
            m = re.findall(r"isinstance\(obj, model\.(\w+)\):\n\s+(\w+)\.append\(obj\)", u)
            if len(m) != 3 or u.count("isinstance") != 3:
                raise Fail("_create_dict: classification loop changed shape")
            lists = {var: cls for cls, var in m}
            continue
        if isinstance(st, ast.If):
            m = re.fullmatch(r"if (\w+):\n\s+dict_\['(\w+)'\] = (\w+)", u)
            if not m or m.group(1) != m.group(3) or m.group(1) not in lists:
                raise Fail(f"_create_dict: unsupported statement {u[:80]}")
            tops.append((m.group(2), lists[m.group(1)]))
            continue
        if isinstance(st, ast.Return) and u == "return dict_":
            continue
        raise Fail(f"_create_dict: unsupported statement {u[:80]}")
    if len(tops) != 3:
        raise Fail("_create_dict: expected three top-level lists")
    return tops


# =============================================================================================== emission
def q(s):
    b = s.encode("utf-8")
    if any(c < 32 or c == 127 for c in b):
        raise Fail(f"control character in a string for a Coq literal: {s!r}")
    return '"' + s.replace('"', '""') + '"'


def strs(l):
    return "[" + "; ".join(q(x) for x in l) + "]"


def coq_facets(f):
    mx = "None" if f["max"] is None else f"(Some {f['max']}%N)"
    return f"(mkF {f['min']}%N {mx} {strs(f['pats'])})"


def coq_sty(t):
    k = t[0]
    if k == "str":
        return f"SStr {coq_facets(t[1])}"
    if k == "bool":
        return "SBool"
    if k == "enum":
        return f"SEnum {strs(t[1])}"
    if k == "arr":
        return f"SArr ({coq_sty(t[1])}) {'true' if t[2] else 'false'}"
    if k == "obj":
        return f"SObj {q(t[1])}"
    if k == "one":
        return f"SOne {strs(t[1])}"
    raise Fail(f"emit: JSON type {t}")


def coq_xty(t):
    k = t[0]
    if k == "str":
        return f"XStr {coq_facets(t[1])}"
    if k == "bool":
        return "XBool"
    if k == "b64":
        return "XB64"
    if k == "enum":
        return f"XEnum {strs(t[1])}"
    if k == "cls":
        return f"XCls {q(t[1])}"
    if k == "list":
        return f"XList {q(t[1])} ({coq_xty(t[2])})"
    if k == "many":
        return f"XMany {q(t[1])}"
    if k == "one":
        return f"XOne {q(t[1])}"
    raise Fail(f"emit: XML type {t}")


def type_facets(name, lex):
    mn, mx, spaces = STRING_TYPES[name]
    pats = [lex[s] for s in spaces if s in lex]
    if "xmlchar" in lex:
        pats = [lex["xmlchar"]] + pats
    return {"min": mn, "max": mx, "pats": pats}


def coq_skind(k, lex):
    t = k[0]
    if t == "KStr":
        return f"KStr {coq_facets(type_facets(k[1], lex))}"
    if t == "KLeaf":
        f = type_facets(k[1], lex)      # a typed literal: only the lexical space of its type, no AASd-130 facet
        f["pats"] = [p for p in f["pats"] if p != lex.get("xmlchar")]
        return f"KLeaf {coq_facets(f)}"
    if t == "KBool":
        return "KBool"
    if t == "KEnum":
        return f"KEnum {strs(k[1])}"
    if t == "KEnumSet":
        return f"KEnumSet {strs(k[1])}"
    if t == "KObj":
        return f"KObj {strs(k[1])} {q(k[2])}"
    if t == "KList":
        return f"KList ({coq_skind(k[1], lex)}) {'true' if k[2] else 'false'}"
    raise Fail(f"emit: kind {k}")


def coq_default(d):
    if d is None:
        return "None"
    if d[0] == "VStr":
        return f"(Some (VStr {q(d[1])}))"
    return f"(Some (VBool {'true' if d[1] else 'false'}))"


def json_triples(rules, j, meta, tops):
    """(SDK class, context, schema class) triples reachable from the environment's lists, following the writer rules.
    Only a candidate set for the Coq check [conforms] (which re-checks every triple and every membership): nothing
    here is trusted."""
    jc = {c: {m: (r, ty) for m, r, ty in ps} for c, ps in j["classes"].items()}
    env = jc[j["root"]]
    todo, seen = [], []

    def add(tr):
        if tr not in seen:
            seen.append(tr)
            todo.append(tr)

    def mt_of(cls):
        return dict((m, v) for m, v in rules["classes"].get(cls, {}).get("consts", [])).get("modelType")

    def follow(k, enc, ty):
        if k[0] == "KObj":
            for c in k[1]:
                if ty[0] == "obj":
                    add((c, k[2], ty[1]))
                elif ty[0] == "one":
                    for a in ty[1]:
                        row = jc.get(a, {}).get("modelType")
                        if row and row[1] == ("enum", [mt_of(c)]):
                            add((c, k[2], a))
                            break
        elif k[0] == "KList":
            if enc[0] == "EAuto" and ty[0] == "arr":
                follow(k[1], ["EAuto"], ty[1])
            elif enc[0] == "EListWrap" and ty[0] == "arr" and ty[1][0] == "obj":
                row = jc.get(ty[1][1], {}).get(enc[1])
                if row:
                    follow(k[1], ["EAuto"], row[1])
            elif enc[0] == "EObjWrap" and ty[0] == "obj":
                row = jc.get(ty[1], {}).get(enc[1])
                if row and row[1][0] == "arr":
                    follow(k[1], ["EAuto"], row[1][1])

    for member, cls in tops:
        row = env.get(member)
        if row and row[1][0] == "arr" and row[1][1][0] == "obj":
            add((cls, "", row[1][1][1]))
    while todo:
        cls, ctx, scls = todo.pop(0)
        attrs = meta.get(cls + ctx)
        crules = rules["classes"].get(cls)
        if attrs is None or crules is None or scls not in jc:
            continue
        byattr = {}
        for w in crules["w"]:
            byattr.setdefault(w["attr"], w)
        for attr, member, opt, k, dflt in attrs:
            w = byattr.get(attr)
            if w is None:
                continue
            row = jc[scls].get(w["member"])
            if row:
                follow(k, w["enc"], row[1])
    return seen


def translate(strict=True):
    import py2coq.jsonrules as jsonrules
    j = flatten_json()
    x = flatten_xsd()
    for name, alts in x["choices"].items():
        for tag, t in alts:
            if t[0] != "cls":
                raise Fail(f"XSD: choice {name}: alternative {tag} is not of a class type")
    meta = spec_meta()
    jlex = resolve_lexical(j["patterns"], "J")
    xlex = resolve_lexical(x["patterns"], "X")
    tops = json_tops()
    rules_error = None
    try:
        rules = jsonrules.translate()
    except Exception as e:           # the schema tables stay usable by the model-independent oracles
        if strict:
            raise
        rules, rules_error = None, f"{type(e).__name__}: {e}"
    return dict(json=j, xsd=x, meta=meta, jlex=jlex, xlex=xlex, json_tops=tops, rules_error=rules_error,
                json_triples=json_triples(rules, j, meta, tops) if rules else [],
                spec_w_min=spec_writer(j, False), spec_w_explicit=spec_writer(j, True),
                string_types=STRING_TYPES, lang_text=LANG_TEXT)


def coq_smeta(name, meta, lex):
    out = [f"Definition {name} : smeta := ["]
    rows = []
    for c, attrs in meta.items():
        rows.append(f"  ({q(c)}, [" + ";\n     ".join(
            f"mkA {q(a)} {q(m)} {'true' if o else 'false'} ({coq_skind(k, lex)}) {coq_default(d)}"
            for a, m, o, k, d in attrs) + "])")
    out.append(";\n".join(rows) + "].")
    return out


def emit_json(t):
    j, meta = t["json"], t["meta"]
    out = ["(* GENERATED by tools/py2coq/schemas.py from compliance_tool/aas_compliance_tool/schemas/aasJSONSchema.json of the",
           "   current working tree (+ the specification-side metamodel table of that module).  Do not edit. *)",
           "From Coq Require Import List String NArith.",
           "From Basyx Require Import model.Codec model.SchemaBase model.Schema gen.Gen_JsonRules.",
           "Import ListNotations.", "Local Open Scope string_scope.", "",
           "(* pattern ids: J<n> = n-th distinct `pattern` text of the JSON schema (texts in build/schemas.json) *)",
           "Definition json_schema : jschema := ["]
    rows = []
    for c, ps in j["classes"].items():
        rows.append(f"  ({q(c)}, [" + ";\n     ".join(
            f"mkP {q(m)} {'true' if r else 'false'} ({coq_sty(ty)})" for m, r, ty in ps) + "])")
    out.append(";\n".join(rows) + "].")
    out.append(f"Definition json_root : string := {q(j['root'])}.")
    out.append("")
    out += coq_smeta("json_smeta", meta, t["jlex"])
    out.append("(* top-level lists of _create_dict: (member, class) in emission order *)")
    out.append("Definition json_tops : list (string * string) := [" +
               "; ".join(f"({q(m)}, {q(c)})" for m, c in t["json_tops"]) + "].")
    out.append("(* specification side: XSD value types by Python class name -> DataTypeDefXsd literal *)")
    out.append("Definition spec_xsd_names : table := [" +
               "; ".join(f"({q(n)}, {q(xsd_literal(n))})" for n in XSD_TYPES + ["NormalizedString"]) + "].")
    out.append("(* the mapping as writer rules, derived from the schema tables, META and the mapping names (the enum <-> string")
    out.append("   tables are the SDK's, checked against the schema literals and the mapping's spelling by [conforms]) *)")
    out += coq_spec_writer("spec_w_min", t["spec_w_min"])
    out += coq_spec_writer("spec_w_explicit", t["spec_w_explicit"])
    out.append("(* candidate set of (SDK class, context, schema class) triples; re-checked by [conforms] *)")
    out.append("Definition json_triples : list triple := [" +
               ";\n  ".join(f"({q(a)}, {q(b)}, {q(c)})" for a, b, c in t["json_triples"]) + "].")
    return "\n".join(out) + "\n"


def emit_xml(t):
    x, meta = t["xsd"], t["meta"]
    out = ["(* GENERATED by tools/py2coq/schemas.py from compliance_tool/aas_compliance_tool/schemas/aasXMLSchema.xsd of the",
           "   current working tree.  Do not edit. *)",
           "From Coq Require Import List String NArith.",
           "From Basyx Require Import model.SchemaBase model.SchemaXml.",
           "Import ListNotations.", "Local Open Scope string_scope.", "",
           "(* pattern ids: X<n> = n-th distinct xs:pattern value of the XML schema (texts in build/schemas.json) *)",
           "Definition xml_classes : list (string * list xpart) := ["]
    rows = []
    for c, ps in x["classes"].items():
        rows.append(f"  ({q(c)}, [" + ";\n     ".join(
            f"mkX {q(m)} {'true' if o else 'false'} ({coq_xty(ty)})" for m, o, ty in ps) + "])")
    out.append(";\n".join(rows) + "].")
    out.append("Definition xml_choices : list (string * list (string * string)) := [")
    out.append(";\n".join(f"  ({q(c)}, [" + "; ".join(f"({q(tag)}, {q(ty[1])})" for tag, ty in alts) + "])"
                          for c, alts in x["choices"].items()) + "].")
    out.append("Definition xml_schema : xschema := mkXS xml_classes xml_choices.")
    out.append(f"Definition xml_root : string * string := ({q(x['root'][0])}, {q(x['root'][1])}).")
    return "\n".join(out) + "\n"


def regenerate():
    t = translate()
    changed = common.write_if_changed(OUT, emit_json(t))
    changed2 = common.write_if_changed(OUT_XML, emit_xml(t))
    os.makedirs(common.BUILD, exist_ok=True)
    with open(os.path.join(common.BUILD, "schemas.json"), "w") as f:
        json.dump(t, f, indent=1, default=list)
    return (f"Gen_Schema.v {'rewritten' if changed else 'unchanged'}, Gen_SchemaXml.v "
            f"{'rewritten' if changed2 else 'unchanged'} ({len(t['json']['classes'])} JSON classes, "
            f"{len(t['xsd']['classes'])} XSD groups, {len(t['xsd']['choices'])} choice groups, "
            f"{len(t['json_triples'])} JSON triples)")
