"""Tie T for C05: translate the two official schema files shipped in the repository into Coq tables.

Reads (current working tree of common.REPO):
    compliance_tool/aas_compliance_tool/schemas/aasJSONSchema.json   (JSON Schema draft 2019-09)
    compliance_tool/aas_compliance_tool/schemas/aasXMLSchema.xsd     (XML Schema 1.0)
and writes coq/theories/gen/Gen_Schema.v (types of model/Schema.v) plus build/schemas.json for the harness.

The tables are *the specification's mapping*: per class the members / child elements, their order (XSD sequences),
cardinalities, required-ness, enum literal sets and leaf facets (minLength, maxLength, pattern as text).

Fail-closed: only the keyword subset enumerated below is accepted, anything else raises TranslationError.

JSON Schema subset (flatten_json):
    definitions/<X> ::= object-like | string-like | {"$ref"} alias | {"oneOf": [{"$ref"}...]}
    object-like     ::= {"type":"object"?, "properties":{name: T}, "required":[...]?} | {"allOf":[object-like | {"$ref"}]}
    T               ::= {"$ref"} | {"type":"string", facets..., "allOf":[facets...]?, "contentEncoding"?}
                      | {"type":"string","enum":[...]} | {"const": s} | {"type":"boolean"}
                      | {"type":"array","items":T,"minItems":1} | facets (in an allOf refinement of an inherited member)
    facets          ::= minLength | maxLength | pattern
  A member defined several times along allOf is the conjunction of its schemas (facets intersect, enum/const
  intersect).  oneOf is accepted only over classes that all require a `modelType` member fixed to pairwise distinct
  constants, so that oneOf = dispatch on modelType.  There is no additionalProperties keyword in the shipped schema:
  members outside `properties` are unconstrained by validation (the *mapping* check of C05 forbids them separately).

XSD subset (flatten_xsd):
    xs:group name=G     ::= xs:sequence of (xs:group ref | xs:element)  |  xs:choice of xs:element name type
    xs:complexType name ::= xs:sequence of xs:group ref
    xs:simpleType name  ::= xs:restriction base=xs:string with xs:enumeration* | without facets
    xs:element          ::= name, minOccurs in {0,1}?, maxOccurs=1?, and either type=<named type | xs:boolean |
                            xs:base64Binary | xs:string> or an anonymous xs:simpleType (restriction of xs:string with
                            minLength / maxLength / pattern) or an anonymous xs:complexType whose xs:sequence holds exactly
                            one of: an xs:element (min 1, max unbounded) = list; an xs:group ref to a choice group with
                            (1, unbounded) = list of alternatives, or with (1, 1) = exactly one alternative.
"""
import json
import os
import re

from . import TranslationError
import common

SCHEMA_DIR = "compliance_tool/aas_compliance_tool/schemas"
JSON_REL = SCHEMA_DIR + "/aasJSONSchema.json"
XSD_REL = SCHEMA_DIR + "/aasXMLSchema.xsd"
OUT = os.path.join(common.GEN, "Gen_Schema.v")
XS = "{http://www.w3.org/2001/XMLSchema}"
AAS_NS = "https://admin-shell.io/aas/3/0"


class Fail(TranslationError):
    pass


# =============================================================================================== JSON Schema
J_OBJ_KEYS = {"type", "properties", "required", "allOf"}
FACETS = ("minLength", "maxLength", "pattern")


def _ref(node):
    r = node["$ref"]
    if not r.startswith("#/definitions/") or len(node) != 1:
        raise Fail(f"JSON: unsupported $ref {node}")
    return r[len("#/definitions/"):]


class JsonFlat:
    def __init__(self, schema):
        self.s = schema
        extra = set(schema) - {"$schema", "title", "type", "allOf", "$id", "definitions"}
        if extra:
            raise Fail(f"JSON: unknown top-level keywords {sorted(extra)}")
        if schema.get("type") != "object" or [_ref(x) for x in schema.get("allOf", [])] != ["Environment"]:
            raise Fail("JSON: root is not allOf[$ref Environment]")
        self.d = schema["definitions"]
        self.patterns = []          # distinct pattern texts
        self.kind_cache = {}

    # ---- classification of a definition
    def kind(self, name):
        if name in self.kind_cache:
            return self.kind_cache[name]
        if name not in self.d:
            raise Fail(f"JSON: $ref to unknown definition {name}")
        n = self.d[name]
        if set(n) == {"$ref"}:
            k = self.kind(_ref(n))
        elif set(n) == {"oneOf"}:
            k = "oneof"
        elif n.get("type") == "string":
            k = "leaf"
        elif "properties" in n or "allOf" in n or n.get("type") == "object":
            k = "object"
        else:
            raise Fail(f"JSON: definition {name} has an unsupported shape: {sorted(n)}")
        self.kind_cache[name] = k
        return k

    def resolve_alias(self, name):
        n = self.d[name]
        while set(n) == {"$ref"}:
            name = _ref(n)
            n = self.d[name]
        return name

    # ---- object flattening: ordered member -> list of conjunct schemas, required set
    def flat_obj(self, node, where, seen=()):
        props, req = {}, []
        bad = set(node) - J_OBJ_KEYS - {"$ref"}
        if bad:
            raise Fail(f"JSON: {where}: unsupported keywords in an object schema: {sorted(bad)}")
        if "$ref" in node:
            name = _ref(node)
            if name in seen:
                raise Fail(f"JSON: cyclic allOf through {name}")
            return self.flat_obj(self.d[self.resolve_alias(name)], name, seen + (name,))
        if "type" in node and node["type"] != "object":
            raise Fail(f"JSON: {where}: type {node['type']} in an object schema")
        for sub in node.get("allOf", []):
            p, r = self.flat_obj(sub, where, seen)
            for k, v in p.items():
                props.setdefault(k, []).extend(v)
            req += [x for x in r if x not in req]
        for k, v in node.get("properties", {}).items():
            props.setdefault(k, []).append(v)
        for x in node.get("required", []):
            if x not in req:
                req.append(x)
        return props, req

    # ---- member types
    def pat_id(self, text):
        if text not in self.patterns:
            self.patterns.append(text)
        return "J%d" % self.patterns.index(text)

    def facets_of(self, node, where):
        f = {"min": 0, "max": None, "pats": []}
        for k, v in node.items():
            if k == "minLength":
                f["min"] = max(f["min"], int(v))
            elif k == "maxLength":
                f["max"] = int(v) if f["max"] is None else min(f["max"], int(v))
            elif k == "pattern":
                f["pats"].append(self.pat_id(v))
            elif k in ("type", "allOf", "contentEncoding"):
                pass
            else:
                raise Fail(f"JSON: {where}: unsupported string keyword {k}")
        for sub in node.get("allOf", []):
            if set(sub) - set(FACETS):
                raise Fail(f"JSON: {where}: allOf of a string may only hold facets, got {sorted(sub)}")
            g = self.facets_of(sub, where)
            f = merge_facets(f, g)
        return f

    def ty(self, node, where):
        keys = set(node)
        if "$ref" in keys:
            name = self.resolve_alias(_ref(node))
            k = self.kind(name)
            if k == "object":
                return ("obj", name)
            if k == "oneof":
                alts = [self.resolve_alias(_ref(x)) for x in self.d[name]["oneOf"]]
                return ("one", alts)
            return self.ty(self.d[name], name)
        if keys == {"const"}:
            if not isinstance(node["const"], str):
                raise Fail(f"JSON: {where}: non-string const")
            return ("enum", [node["const"]])
        t = node.get("type")
        if t == "string" and "enum" in keys:
            if keys - {"type", "enum"} or not all(isinstance(x, str) for x in node["enum"]):
                raise Fail(f"JSON: {where}: unsupported enum schema {sorted(keys)}")
            return ("enum", list(node["enum"]))
        if t == "string":
            if "contentEncoding" in keys and node["contentEncoding"] != "base64":
                raise Fail(f"JSON: {where}: contentEncoding {node['contentEncoding']}")
            return ("str", self.facets_of(node, where))
        if t == "boolean":
            if keys != {"type"}:
                raise Fail(f"JSON: {where}: unsupported boolean schema")
            return ("bool",)
        if t == "array":
            if keys - {"type", "items", "minItems"} or "items" not in keys:
                raise Fail(f"JSON: {where}: unsupported array schema {sorted(keys)}")
            mi = node.get("minItems", 0)
            if mi not in (0, 1):
                raise Fail(f"JSON: {where}: minItems {mi}")
            return ("arr", self.ty(node["items"], where + "[]"), mi == 1)
        if t is None and keys and keys <= set(FACETS):
            return ("facets", self.facets_of(node, where))
        raise Fail(f"JSON: {where}: unsupported member schema {sorted(keys)}")

    def merge(self, a, b, where):
        if a[0] == "str" and b[0] in ("str", "facets"):
            return ("str", merge_facets(a[1], b[1]))
        if a[0] == "facets" and b[0] == "str":
            return ("str", merge_facets(a[1], b[1]))
        if a[0] == "facets" and b[0] == "facets":
            return ("facets", merge_facets(a[1], b[1]))
        if a[0] == "enum" and b[0] == "enum":
            lits = [x for x in a[1] if x in b[1]]
            if not lits:
                raise Fail(f"JSON: {where}: empty intersection of enum / const")
            return ("enum", lits)
        if a == b:
            return a
        raise Fail(f"JSON: {where}: cannot intersect member schemas {a[0]} and {b[0]}")

    def flatten(self):
        classes = {}
        for name in self.d:
            if self.kind(name) != "object" or set(self.d[name]) == {"$ref"}:
                continue
            props, req = self.flat_obj(self.d[name], name)
            rows = []
            for m, conj in props.items():
                t = None
                for c in conj:
                    tc = self.ty(c, f"{name}.{m}")
                    t = tc if t is None else self.merge(t, tc, f"{name}.{m}")
                if t[0] == "facets":
                    raise Fail(f"JSON: {name}.{m}: facets without a type")
                rows.append((m, m in req, t))
            for r in req:
                if r not in props:
                    raise Fail(f"JSON: {name}: required member {r} has no schema")
            classes[name] = rows
        # oneOf = dispatch on modelType: every alternative requires modelType fixed to one distinct constant
        for name in self.d:
            if set(self.d[name]) == {"oneOf"}:
                alts = [self.resolve_alias(_ref(x)) for x in self.d[name]["oneOf"]]
                consts = []
                for a in alts:
                    row = next((r for r in classes.get(a, []) if r[0] == "modelType"), None)
                    if row is None or not row[1] or row[2][0] != "enum" or len(row[2][1]) != 1:
                        raise Fail(f"JSON: oneOf {name}: alternative {a} has no required constant modelType")
                    consts.append(row[2][1][0])
                if len(set(consts)) != len(consts):
                    raise Fail(f"JSON: oneOf {name}: modelType constants are not distinct")
        return classes


def merge_facets(f, g):
    mx = f["max"] if g["max"] is None else (g["max"] if f["max"] is None else min(f["max"], g["max"]))
    return {"min": max(f["min"], g["min"]), "max": mx, "pats": f["pats"] + [p for p in g["pats"] if p not in f["pats"]]}


def flatten_json():
    schema = json.load(open(os.path.join(common.REPO, JSON_REL), encoding="utf-8"))
    jf = JsonFlat(schema)
    classes = jf.flatten()
    return dict(classes=classes, patterns=jf.patterns, root="Environment")


# =============================================================================================== XML Schema
def _local(tag):
    return tag[len(XS):] if isinstance(tag, str) and tag.startswith(XS) else None


def _kids(e):
    out = []
    for k in e:
        if not isinstance(k.tag, str):
            continue                         # comments
        l = _local(k.tag)
        if l is None:
            raise Fail(f"XSD: foreign element {k.tag}")
        if l == "annotation":
            continue
        out.append((l, k))
    return out


class XsdFlat:
    def __init__(self, root):
        if _local(root.tag) != "schema" or root.get("targetNamespace") != AAS_NS or \
                root.get("elementFormDefault") != "qualified" or set(root.attrib) != {"targetNamespace", "elementFormDefault"}:
            raise Fail("XSD: unexpected xs:schema attributes")
        self.groups, self.ctypes, self.stypes, self.roots = {}, {}, {}, []
        for l, e in _kids(root):
            n = e.get("name")
            if l == "group" and set(e.attrib) == {"name"}:
                self.groups[n] = e
            elif l == "complexType" and set(e.attrib) == {"name"}:
                self.ctypes[n] = e
            elif l == "simpleType" and set(e.attrib) == {"name"}:
                self.stypes[n] = e
            elif l == "element" and set(e.attrib) == {"name", "type"}:
                self.roots.append((n, e.get("type")))
            else:
                raise Fail(f"XSD: unsupported top-level component xs:{l} {dict(e.attrib)}")
        self.patterns = []
        self.group_cache = {}

    def pat_id(self, text):
        if text not in self.patterns:
            self.patterns.append(text)
        return "X%d" % self.patterns.index(text)

    def occurs(self, e, allowed):
        mn, mx = e.get("minOccurs", "1"), e.get("maxOccurs", "1")
        if (mn, mx) not in allowed:
            raise Fail(f"XSD: occurrence ({mn},{mx}) not supported at {e.get('name') or e.get('ref')}")
        return mn, mx

    def group_shape(self, name):
        """'sequence' | 'choice' without flattening (types may be recursive: reference_t holds a reference_t)"""
        if name not in self.groups:
            raise Fail(f"XSD: group {name} not defined")
        kids = _kids(self.groups[name])
        if len(kids) != 1 or kids[0][0] not in ("sequence", "choice"):
            raise Fail(f"XSD: group {name} must hold exactly one xs:sequence or xs:choice")
        return kids[0][0]

    # ---- a group: ("seq", [particle...]) or ("choice", [(element, type)...])
    def group(self, name, seen=()):
        if name in self.group_cache:
            return self.group_cache[name]
        if name not in self.groups:
            raise Fail(f"XSD: group {name} not defined")
        if name in seen:
            raise Fail(f"XSD: cyclic group {name}")
        kids = _kids(self.groups[name])
        if len(kids) != 1:
            raise Fail(f"XSD: group {name} must hold exactly one model group")
        l, m = kids[0]
        if m.attrib:
            raise Fail(f"XSD: group {name}: occurrence on the model group")
        if l == "choice":
            alts = []
            for kl, k in _kids(m):
                if kl != "element" or set(k.attrib) != {"name", "type"}:
                    raise Fail(f"XSD: choice group {name}: unsupported alternative xs:{kl} {dict(k.attrib)}")
                alts.append((k.get("name"), self.elem_type(k, f"{name}/{k.get('name')}")))
            res = ("choice", alts)
        elif l == "sequence":
            res = ("seq", self.sequence(m, name, seen + (name,)))
        else:
            raise Fail(f"XSD: group {name}: xs:{l}")
        self.group_cache[name] = res
        return res

    def sequence(self, seq, where, seen=()):
        parts = []
        for l, k in _kids(seq):
            if l == "group":
                if set(k.attrib) != {"ref"}:
                    raise Fail(f"XSD: {where}: group reference with occurrence inside a sequence of a class")
                g = self.group(k.get("ref"), seen)
                if g[0] != "seq":
                    raise Fail(f"XSD: {where}: reference to choice group {k.get('ref')} in a class sequence")
                parts += g[1]
            elif l == "element":
                if set(k.attrib) - {"name", "type", "minOccurs", "maxOccurs"}:
                    raise Fail(f"XSD: {where}: element attributes {dict(k.attrib)}")
                mn, _ = self.occurs(k, {("0", "1"), ("1", "1")})
                parts.append((k.get("name"), mn == "0", self.elem_type(k, f"{where}/{k.get('name')}")))
            else:
                raise Fail(f"XSD: {where}: xs:{l} in a sequence")
        names = [p[0] for p in parts]
        if len(set(names)) != len(names):
            raise Fail(f"XSD: {where}: element names of the sequence are not distinct")
        return parts

    def simple(self, st, where):
        kids = _kids(st)
        if len(kids) != 1 or kids[0][0] != "restriction" or kids[0][1].get("base") != "xs:string":
            raise Fail(f"XSD: {where}: simpleType is not a restriction of xs:string")
        f = {"min": 0, "max": None, "pats": []}
        enum = []
        for l, k in _kids(kids[0][1]):
            v = k.get("value")
            if set(k.attrib) != {"value"}:
                raise Fail(f"XSD: {where}: facet attributes {dict(k.attrib)}")
            if l == "minLength":
                f["min"] = max(f["min"], int(v))
            elif l == "maxLength":
                f["max"] = int(v) if f["max"] is None else min(f["max"], int(v))
            elif l == "pattern":
                f["pats"].append(self.pat_id(v))
            elif l == "enumeration":
                enum.append(v)
            else:
                raise Fail(f"XSD: {where}: facet xs:{l}")
        if enum:
            if f["min"] or f["max"] is not None or f["pats"]:
                raise Fail(f"XSD: {where}: enumeration mixed with other facets")
            return ("enum", enum)
        return ("str", f)

    def named_type(self, t, where):
        if t == "xs:boolean":
            return ("bool",)
        if t == "xs:base64Binary":
            return ("b64",)
        if t == "xs:string":
            return ("str", {"min": 0, "max": None, "pats": []})
        if t.startswith("xs:"):
            raise Fail(f"XSD: {where}: built-in type {t} not supported")
        if t in self.stypes:
            return self.simple(self.stypes[t], t)
        if t in self.ctypes:
            kids = _kids(self.ctypes[t])
            if len(kids) != 1 or kids[0][0] != "sequence" or kids[0][1].attrib:
                raise Fail(f"XSD: complexType {t}")
            refs = _kids(kids[0][1])
            if len(refs) != 1 or refs[0][0] != "group" or set(refs[0][1].attrib) != {"ref"}:
                raise Fail(f"XSD: complexType {t} is not a sequence of one group reference")
            g = refs[0][1].get("ref")
            if self.group_shape(g) != "sequence":
                raise Fail(f"XSD: complexType {t} refers to a choice group")
            return ("cls", g)
        raise Fail(f"XSD: {where}: unknown type {t}")

    def elem_type(self, e, where):
        kids = _kids(e)
        if e.get("type") is not None:
            if kids:
                raise Fail(f"XSD: {where}: both type attribute and anonymous type")
            return self.named_type(e.get("type"), where)
        if len(kids) != 1:
            raise Fail(f"XSD: {where}: element without type")
        l, k = kids[0]
        if l == "simpleType":
            if k.attrib:
                raise Fail(f"XSD: {where}: attributes on anonymous simpleType")
            return self.simple(k, where)
        if l != "complexType" or k.attrib:
            raise Fail(f"XSD: {where}: xs:{l}")
        ck = _kids(k)
        if len(ck) != 1 or ck[0][0] != "sequence" or ck[0][1].attrib:
            raise Fail(f"XSD: {where}: anonymous complexType is not a plain sequence")
        items = _kids(ck[0][1])
        if len(items) != 1:
            raise Fail(f"XSD: {where}: wrapper sequence must hold exactly one particle")
        il, it = items[0]
        if il == "element":
            if set(it.attrib) != {"name", "type", "minOccurs", "maxOccurs"}:
                raise Fail(f"XSD: {where}: list item attributes {dict(it.attrib)}")
            self.occurs(it, {("1", "unbounded")})
            return ("list", it.get("name"), self.elem_type(it, where + "/" + it.get("name")))
        if il == "group":
            if self.group_shape(it.get("ref")) != "choice":
                raise Fail(f"XSD: {where}: wrapper around a non-choice group")
            if set(it.attrib) == {"ref"}:
                return ("one", it.get("ref"))
            if set(it.attrib) == {"ref", "minOccurs", "maxOccurs"}:
                self.occurs(it, {("1", "unbounded")})
                return ("many", it.get("ref"))
        raise Fail(f"XSD: {where}: unsupported wrapper content xs:{il} {dict(it.attrib)}")

    def flatten(self):
        classes, choices = {}, {}
        for g in self.groups:
            k, body = self.group(g)
            if k == "seq":
                classes[g] = body
            else:
                choices[g] = body
        for t in self.ctypes:
            self.named_type(t, t)
        for t in self.stypes:
            self.simple(self.stypes[t], t)
        if len(self.roots) != 1 or self.roots[0][0] != "environment":
            raise Fail(f"XSD: root elements {self.roots}")
        rt = self.named_type(self.roots[0][1], "environment")
        if rt[0] != "cls":
            raise Fail("XSD: root element is not of a class type")
        return dict(classes=classes, choices=choices, patterns=self.patterns, root=("environment", rt[1]))


def flatten_xsd():
    from lxml import etree
    tree = etree.parse(os.path.join(common.REPO, XSD_REL), etree.XMLParser(remove_comments=True, resolve_entities=False))
    return XsdFlat(tree.getroot()).flatten()
