"""Fail-closed translator  sdk/basyx/aas/adapter/http.py  ->  coq/theories/gen/Gen_HttpRoutes.v  (tie T of C10/C11).

Extracted (everything else in the file is modelled by hand in model/Http.v and tied by correspondence):
  * the route table of WSGIApp.__init__  (Submount / Rule(path, methods=[...], endpoint=self.h)), in source order;
  * per function/method: every `try` statement as (names of the calls in its body, [(caught classes, action)]),
    where the accepted grammar of an except-body is
        raise X(...) [from e] | raise | pass | return <name> | <name> = <constant> | `if e.constraint_id != N: <raise-stmt>` followed by a raise
  * per function: the ordered list of call names (used for `commit()` presence and for the model's call-site checks),
    the classes raised by plain `raise X(...)` statements, the `HTTPApiDecoder.request_body(request, model.T, S)` calls
    (expected type, stripped mode) and the `response_t(...)` calls (status, cursor?, stripped mode, Location?);
  * HTTPApiDecoder.type_constructables_map keys, valid_content_types, response_types, the `level` test of
    is_stripped_request, and which exception class handle_request converts.
Any construct outside this grammar raises TranslationError (reported as a broken tie, never skipped)."""
import ast
import os

import common
from py2coq import TranslationError

SRC = "sdk/basyx/aas/adapter/http.py"
OUT = os.path.join(common.GEN, "Gen_HttpRoutes.v")


def _name(node):
    try:
        return ast.unparse(node)
    except Exception as e:  # pragma: no cover
        raise TranslationError(f"cannot unparse {ast.dump(node)[:80]}: {e}")


def _cls(node):
    """exception class expression -> canonical short name"""
    s = _name(node)
    for p in ("werkzeug.exceptions.", "model.", "etree.", "json."):
        if s.startswith(p):
            s = s[len(p):]
    return s


def _raise_action(st):
    if st.exc is None:
        return ("reraise",)
    if isinstance(st.exc, ast.Call):
        return ("raise", _cls(st.exc.func))
    if isinstance(st.exc, (ast.Name, ast.Attribute)) and _cls(st.exc)[:1].isupper():
        return ("raise", _cls(st.exc))
    raise TranslationError(f"line {st.lineno}: unsupported raise operand {_name(st.exc)}")


def _handler_action(body, var):
    """except-body -> action"""
    if len(body) == 1 and isinstance(body[0], ast.Raise):
        return _raise_action(body[0])
    if len(body) == 1 and isinstance(body[0], ast.Pass):
        return ("swallow",)
    # undo a side effect, then raise:  <call expression>; raise X(...) from e
    if len(body) == 2 and isinstance(body[0], ast.Expr) and isinstance(body[0].value, ast.Call) and isinstance(body[1], ast.Raise):
        return _raise_action(body[1])
    if len(body) == 1 and isinstance(body[0], ast.Return) and isinstance(body[0].value, (ast.Name, ast.Attribute, ast.Call)):
        return ("swallow",)
    # `name = <constant>`: the handler continues with a default value
    if (len(body) == 1 and isinstance(body[0], (ast.Assign, ast.AnnAssign)) and isinstance(getattr(body[0], "value", None), ast.Constant)
            and all(isinstance(x, ast.Name) for x in (body[0].targets if isinstance(body[0], ast.Assign) else [body[0].target]))):
        return ("swallow",)
    # root-cause unwrapping loop of HTTPApiDecoder.xml:  f = e; while f.__cause__ ...: f = f.__cause__; raise X(str(f)) from e
    if (len(body) == 3 and isinstance(body[0], ast.AnnAssign) and isinstance(body[1], ast.While)
            and isinstance(body[2], ast.Raise) and "__cause__" in _name(body[1])):
        return _raise_action(body[2])
    if (len(body) == 2 and isinstance(body[0], ast.If) and isinstance(body[1], ast.Raise)
            and not body[0].orelse and len(body[0].body) == 1 and isinstance(body[0].body[0], ast.Raise)):
        t = body[0].test
        if (isinstance(t, ast.Compare) and len(t.ops) == 1 and isinstance(t.ops[0], ast.NotEq)
                and _name(t.left) == f"{var}.constraint_id" and isinstance(t.comparators[0], ast.Constant)
                and isinstance(t.comparators[0].value, int)):
            return ("if_constraint_ne", t.comparators[0].value, _raise_action(body[0].body[0]), _raise_action(body[1]))
    raise TranslationError(f"line {body[0].lineno}: except-body outside the accepted grammar: "
                           + "; ".join(_name(s)[:60] for s in body))


def _calls(nodes, assignments=False):
    """names of the calls (and, for try bodies, of the assignment targets as `set:<target>`: a property setter may raise)"""
    out = []
    for n in nodes:
        for c in ast.walk(n):
            if isinstance(c, ast.Call):
                out.append((c.lineno, c.col_offset, _name(c.func)))
            if assignments and isinstance(c, ast.Assign):
                for t in c.targets:
                    if isinstance(t, ast.Attribute):
                        out.append((c.lineno, c.col_offset - 1, "set:" + _name(t)))
    return [x[2] for x in sorted(out)]


def _stripped_mode(node):
    if node is None:
        return "no"
    s = _name(node)
    if s == "False":
        return "no"
    if s == "True":
        return "always"
    if s == "is_stripped_request(request)":
        return "level"
    raise TranslationError(f"line {node.lineno}: unsupported stripped argument {s}")


def _function(fn, qual):
    info = {"name": qual, "tries": [], "finallies": [], "calls": _calls(fn.body), "raises": [], "bodies": [], "responses": []}
    in_handler = set()
    for n in sorted((x for x in ast.walk(fn) if hasattr(x, "lineno")), key=lambda x: (x.lineno, x.col_offset)):
        if isinstance(n, ast.Try):
            if n.finalbody and not n.handlers and not n.orelse:
                # try/finally without except clauses: nothing is caught; the finally block may only make calls
                if not all(isinstance(st, ast.Expr) and isinstance(st.value, ast.Call) for st in n.finalbody):
                    raise TranslationError(f"line {n.lineno}: finally block with statements other than calls")
                info["finallies"].append((_calls(n.body, assignments=True), _calls(n.finalbody)))
                continue
            if n.finalbody or n.orelse:
                raise TranslationError(f"line {n.lineno}: try/else and try/except/finally not supported")
            hs = []
            for h in n.handlers:
                if h.type is None:
                    raise TranslationError(f"line {h.lineno}: bare except")
                classes = [_cls(e) for e in (h.type.elts if isinstance(h.type, ast.Tuple) else [h.type])]
                hs.append((classes, _handler_action(h.body, h.name)))
                for s in h.body:
                    for x in ast.walk(s):
                        in_handler.add(id(x))
            info["tries"].append((_calls(n.body, assignments=True), hs))
    for n in sorted((x for x in ast.walk(fn) if hasattr(x, "lineno")), key=lambda x: (x.lineno, x.col_offset)):
        if isinstance(n, ast.Raise) and id(n) not in in_handler and n.exc is not None:
            info["raises"].append(_raise_action(n)[1])
        if isinstance(n, ast.Call):
            f = _name(n.func)
            if f == "HTTPApiDecoder.request_body":
                if len(n.args) != 3 or n.keywords:
                    raise TranslationError(f"line {n.lineno}: request_body call shape")
                info["bodies"].append((_cls(n.args[1]), _stripped_mode(n.args[2])))
            if f == "response_t":
                kw = {k.arg: k.value for k in n.keywords}
                if set(kw) - {"cursor", "stripped", "status", "headers"} or len(n.args) > 1:
                    raise TranslationError(f"line {n.lineno}: response_t call shape")
                st = kw.get("status")
                if st is not None and not (isinstance(st, ast.Constant) and isinstance(st.value, int)):
                    raise TranslationError(f"line {n.lineno}: non-literal status")
                loc = False
                if "headers" in kw:
                    h = kw["headers"]
                    if not (isinstance(h, ast.Dict) and [_name(k) for k in h.keys] == ["'Location'"]):
                        raise TranslationError(f"line {n.lineno}: headers other than Location")
                    loc = True
                info["responses"].append((st.value if st is not None else (200 if n.args else 204),
                                          "cursor" in kw, _stripped_mode(kw.get("stripped")), loc))
    return info


def _routes(call, prefix, out):
    """Submount(prefix, [..]) / Rule(..) tree -> flat list"""
    for el in call:
        if not isinstance(el, ast.Call):
            raise TranslationError(f"line {el.lineno}: route list element is not a call")
        f = _name(el.func)
        if f == "Submount":
            if len(el.args) != 2 or not isinstance(el.args[1], ast.List) or el.keywords:
                raise TranslationError(f"line {el.lineno}: Submount shape")
            p = el.args[0]
            if isinstance(p, ast.Constant) and isinstance(p.value, str):
                sub = p.value
            elif isinstance(p, ast.Name) and p.id == "base_path":
                sub = ""        # the configurable mount point is not part of the route patterns
            else:
                raise TranslationError(f"line {el.lineno}: Submount prefix")
            _routes(el.args[1].elts, prefix + sub, out)
        elif f == "Rule":
            kw = {k.arg: k.value for k in el.keywords}
            if (len(el.args) != 1 or not isinstance(el.args[0], ast.Constant) or set(kw) - {"methods", "endpoint"}
                    or "endpoint" not in kw):
                raise TranslationError(f"line {el.lineno}: Rule shape")
            ep = kw["endpoint"]
            if not (isinstance(ep, ast.Attribute) and _name(ep.value) == "self"):
                raise TranslationError(f"line {el.lineno}: endpoint is not self.<method>")
            ms = []
            if "methods" in kw:
                if not isinstance(kw["methods"], ast.List) or not all(isinstance(m, ast.Constant) for m in kw["methods"].elts):
                    raise TranslationError(f"line {el.lineno}: methods")
                ms = [m.value for m in kw["methods"].elts]
            out.append((prefix + el.args[0].value, ms, ep.attr))
        else:
            raise TranslationError(f"line {el.lineno}: unexpected {f} in route table")


def extract(repo=None):
    path = os.path.join(repo or common.REPO, SRC)
    tree = ast.parse(open(path, encoding="utf-8").read())
    res = {"routes": [], "functions": {}, "constructables": [], "content_types": [], "response_types": [],
           "level_core": None, "converted": [], "converters": {}}
    for node in tree.body:
        if isinstance(node, ast.FunctionDef):
            res["functions"][node.name] = _function(node, node.name)
            if node.name == "is_stripped_request":
                r = node.body[-1]
                if not (isinstance(r, ast.Return) and _name(r.value) == "request.args.get('level') == 'core'"):
                    raise TranslationError("is_stripped_request changed shape")
                res["level_core"] = "core"
            if node.name == "get_response_type":
                for n in ast.walk(node):
                    if isinstance(n, ast.Dict) and n.keys and all(isinstance(k, ast.Constant) for k in n.keys):
                        res["response_types"] = [(k.value, _name(v)) for k, v in zip(n.keys, n.values)]
        elif isinstance(node, ast.ClassDef):
            for item in node.body:
                if isinstance(item, ast.FunctionDef):
                    q = item.name if node.name == "WSGIApp" else f"{node.name}.{item.name}"
                    res["functions"][q] = _function(item, q)
                if node.name == "HTTPApiDecoder" and isinstance(item, ast.Assign) \
                        and _name(item.targets[0]) == "type_constructables_map":
                    if not isinstance(item.value, ast.Dict):
                        raise TranslationError("type_constructables_map is not a dict literal")
                    res["constructables"] = [_cls(k) for k in item.value.keys]
            if node.name == "HTTPApiDecoder":
                for n in ast.walk(node):
                    if isinstance(n, ast.Assign) and _name(n.targets[0]) == "valid_content_types":
                        res["content_types"] = [e.value for e in n.value.elts]
            if node.name == "WSGIApp":
                init = [i for i in node.body if isinstance(i, ast.FunctionDef) and i.name == "__init__"][0]
                maps = [n for n in ast.walk(init) if isinstance(n, ast.Call) and _name(n.func) == "werkzeug.routing.Map"]
                if len(maps) != 1 or len(maps[0].args) != 1 or not isinstance(maps[0].args[0], ast.List):
                    raise TranslationError("url_map construction changed shape")
                kw = {k.arg: k.value for k in maps[0].keywords}
                if set(kw) != {"converters", "strict_slashes"} or _name(kw["strict_slashes"]) != "False":
                    raise TranslationError("Map keywords changed")
                res["converters"] = {k.value: _name(v) for k, v in zip(kw["converters"].keys, kw["converters"].values)}
                _routes(maps[0].args[0].elts, "", res["routes"])
    hr = res["functions"].get("handle_request")
    if hr is None or len(hr["tries"]) != 2:
        raise TranslationError("handle_request changed shape")
    (c1, h1), (c2, h2) = hr["tries"]
    if c1 != ["get_response_type"] or [h[0] for h in h1] != [["NotAcceptable"]] or h1[0][1] != ("swallow",):
        raise TranslationError("handle_request: Accept negotiation block changed")
    if c2 not in (["map_adapter.match", "endpoint"], ["self.url_map.bind_to_environ", "map_adapter.match", "endpoint"]) \
            or len(h2) != 1 or h2[0][1] != ("swallow",):
        raise TranslationError("handle_request: dispatch block changed")
    res["converted"] = h2[0][0]
    if not res["routes"] or not res["constructables"] or not res["content_types"] or not res["response_types"]:
        raise TranslationError("a table came out empty")
    eps = {r[2] for r in res["routes"]}
    for e in eps:
        if e not in res["functions"]:
            raise TranslationError(f"endpoint {e} has no method")
    return res


def cs(s):
    assert all(32 <= ord(c) < 127 for c in s), s
    return '"' + s.replace('"', '""') + '"'


def cl(items):
    return "[" + "; ".join(items) + "]"


def c_action(a):
    if a[0] == "raise":
        return f"(ARaise {cs(a[1])})"
    if a[0] == "reraise":
        return "AReraise"
    if a[0] == "swallow":
        return "ASwallow"
    if a[0] == "if_constraint_ne":
        return f"(AIfConstraintNe {a[1]} {c_action(a[2])} {c_action(a[3])})"
    raise TranslationError(str(a))


def render(res):
    eps = []
    for r in res["routes"]:
        if r[2] not in eps:
            eps.append(r[2])
    L = ["(* GENERATED by tools/py2coq/httproutes.py from " + SRC + " - do not edit *)",
         "From Coq Require Import List String ZArith.", "Import ListNotations.", "Local Open Scope string_scope.",
         "Local Open Scope Z_scope.", "",
         "Inductive action := ARaise (cls : string) | AReraise | ASwallow",
         "  | AIfConstraintNe (n : Z) (a_ne a_eq : action).", "",
         "Inductive endpoint :=", "  " + "\n  ".join(f"| ep_{e}" for e in eps) + ".", "",
         "Definition endpoint_name (e : endpoint) : string :=", "  match e with",
         "\n".join(f"  | ep_{e} => {cs(e)}" for e in eps), "  end.", "",
         "(* (path pattern below the mount point, methods ([] = any), endpoint), in source order *)",
         "Definition routes : list (string * list string * endpoint) :=",
         "  " + cl(f"({cs(p)}, {cl(cs(m) for m in ms)}, ep_{e})" for (p, ms, e) in res["routes"]).replace("; (", ";\n   (") + ".", "",
         "(* function -> its try statements: (calls inside the try body, [(caught classes, action)]) *)",
         "Definition try_table : list (string * list (list string * list (list string * action))) :="]
    rows = []
    for q, f in res["functions"].items():
        if f["tries"]:
            ts = cl("(" + cl(cs(c) for c in calls) + ", " + cl("(" + cl(cs(k) for k in ks) + ", " + c_action(a) + ")"
                                                              for ks, a in hs) + ")" for calls, hs in f["tries"])
            rows.append(f"({cs(q)}, {ts})")
    L.append("  " + cl(rows).replace("; (\"", ";\n   (\"") + ".")
    L += ["", "(* function -> its try/finally statements without except clauses: (calls inside the try body, calls of the finally block) *)",
          "Definition finally_table : list (string * list (list string * list string)) :=",
          "  " + cl(f"({cs(q)}, " + cl("(" + cl(cs(c) for c in b) + ", " + cl(cs(c) for c in fb) + ")" for b, fb in f["finallies"]) + ")"
                    for q, f in res["functions"].items() if f["finallies"]).replace("; (\"", ";\n   (\"") + "."]
    L += ["", "(* function -> names of all calls it makes, in source order *)",
          "Definition call_table : list (string * list string) :=",
          "  " + cl(f"({cs(q)}, {cl(cs(c) for c in f['calls'])})" for q, f in res["functions"].items()).replace("; (\"", ";\n   (\"") + ".",
          "", "(* function -> classes raised by its own raise statements (outside except-bodies) *)",
          "Definition raise_table : list (string * list string) :=",
          "  " + cl(f"({cs(q)}, {cl(cs(c) for c in f['raises'])})" for q, f in res["functions"].items() if f["raises"]).replace("; (\"", ";\n   (\"") + ".",
          "", "(* function -> request_body calls: (expected class, stripped mode: no | always | level) *)",
          "Definition body_table : list (string * list (string * string)) :=",
          "  " + cl(f"({cs(q)}, {cl(f'({cs(t)}, {cs(m)})' for t, m in f['bodies'])})" for q, f in res["functions"].items() if f["bodies"]).replace("; (\"", ";\n   (\"") + ".",
          "", "(* function -> response_t calls: (status, paging cursor?, stripped mode, Location header?) *)",
          "Definition response_table : list (string * list (Z * bool * string * bool)) :=",
          "  " + cl(f"({cs(q)}, " + cl(f"({s}, {str(c).lower()}, {cs(m)}, {str(l).lower()})" for s, c, m, l in f["responses"]) + ")"
                    for q, f in res["functions"].items() if f["responses"]).replace("; (\"", ";\n   (\"") + ".",
          "", f"Definition constructables : list string := {cl(cs(c) for c in res['constructables'])}.",
          f"Definition valid_content_types : list string := {cl(cs(c) for c in res['content_types'])}.",
          f"Definition response_types : list (string * string) := {cl(f'({cs(k)}, {cs(v)})' for k, v in res['response_types'])}.",
          f"Definition level_core : string := {cs(res['level_core'])}.",
          f"Definition converted_by_handle_request : list string := {cl(cs(c) for c in res['converted'])}.", ""]
    return "\n".join(L)


def regenerate(repo=None):
    txt = render(extract(repo))
    changed = common.write_if_changed(OUT, txt)
    return ("rewritten" if changed else "unchanged") + f" ({len(txt)} bytes)"
