"""Tie T for C07/C17: translate, fail-closed, from the current source
  * model/base.py  class KeyTypes (members + the boolean @property predicates),
  * model/__init__.py  KEY_TYPES_CLASSES (class -> KeyTypes member),
  * the class statements of model/{base,submodel,aas,concept}.py (bases -> C3 linearisation, abstract __init__,
    id_short-keyed NamespaceSets created in __init__)
into coq/theories/gen/Gen_RefKeys.v:
  Inductive cls (the concrete Referable classes), keytype, rtype (classes usable as ModelReference.type),
  key_type_of / ref_type_of (first class of the MRO that is a key of KEY_TYPES_CLASSES, else PROPERTY / Referable),
  instance_of, is_identifiable, is_namespace, is_list, n_idshort_sets, and the KeyTypes predicates.
Anything outside the accepted grammar raises TranslationError.  facts() returns the same tables as Python data
so that the harness can compare them with the live classes (inspect.getmro, Key.from_referable, isinstance)."""
import ast
import os

import common
from py2coq import TranslationError

FILES = ["base.py", "submodel.py", "aas.py", "concept.py"]
OUT = os.path.join(common.GEN, "Gen_RefKeys.v")


def _src(rel):
    p = os.path.join(common.REPO, "sdk", "basyx", "aas", "model", rel)
    with open(p) as f:
        return ast.parse(f.read(), p)


def _base_name(b):
    if isinstance(b, ast.Name):
        return b.id
    if isinstance(b, ast.Attribute) and isinstance(b.value, ast.Name) and b.value.id in ("base", "abc", "typing"):
        return b.attr
    if isinstance(b, ast.Subscript):      # Generic[_SE], MutableSet[_NSO] ...
        return _base_name(b.value)
    raise TranslationError(f"unsupported base class expression {ast.dump(b)}")


def _is_abstract_deco(d):
    return (isinstance(d, ast.Attribute) and d.attr == "abstractmethod") or \
           (isinstance(d, ast.Name) and d.id == "abstractmethod")


def _idshort_sets_in_init(fn):
    """number of [Ordered]NamespaceSet(self, [("id_short", ...)], ...) calls in an __init__ body"""
    n = 0
    for node in ast.walk(fn):
        if isinstance(node, ast.Call):
            f = node.func
            name = f.attr if isinstance(f, ast.Attribute) else (f.id if isinstance(f, ast.Name) else None)
            if name in ("NamespaceSet", "OrderedNamespaceSet"):
                if len(node.args) < 2 or not isinstance(node.args[1], ast.List):
                    raise TranslationError(f"line {node.lineno}: NamespaceSet call whose attribute list is not a literal")
                attrs = []
                for e in node.args[1].elts:
                    if not (isinstance(e, ast.Tuple) and len(e.elts) == 2 and isinstance(e.elts[0], ast.Constant)
                            and isinstance(e.elts[0].value, str)):
                        raise TranslationError(f"line {node.lineno}: unsupported NamespaceSet attribute entry")
                    attrs.append(e.elts[0].value)
                if "id_short" in attrs:
                    if attrs != ["id_short"]:
                        raise TranslationError(f"line {node.lineno}: id_short set with further key attributes")
                    n += 1
    return n


def _classes():
    """name -> dict(bases, abstract_init (True/False/None), sets) over the four model files"""
    res = {}
    for rel in FILES:
        for node in _src(rel).body:
            if isinstance(node, ast.ClassDef):
                if node.name in res:
                    raise TranslationError(f"class {node.name} defined twice")
                init = None
                sets = 0
                for st in node.body:
                    if isinstance(st, ast.FunctionDef) and st.name == "__init__":
                        init = any(_is_abstract_deco(d) for d in st.decorator_list)
                        sets = _idshort_sets_in_init(st)
                res[node.name] = {"bases": [_base_name(b) for b in node.bases], "abstract_init": init,
                                  "sets": sets, "file": rel}
    return res


def _c3(name, classes, memo):
    if name in memo:
        return memo[name]
    if name not in classes:              # external base (Enum, Generic, MutableSet, ...): a leaf
        memo[name] = [name]
        return memo[name]
    bases = classes[name]["bases"]
    seqs = [list(_c3(b, classes, memo)) for b in bases] + [list(bases)]
    out = [name]
    while any(seqs):
        seqs = [s for s in seqs if s]
        for s in seqs:
            cand = s[0]
            if not any(cand in t[1:] for t in seqs):
                break
        else:
            raise TranslationError(f"inconsistent class hierarchy at {name}")
        out.append(cand)
        seqs = [[x for x in s if x != cand] if s[0] == cand else s for s in seqs]
        for s in seqs:
            if cand in s:
                raise TranslationError(f"C3 bookkeeping failed at {name}")
    memo[name] = out
    return out


def _keytypes():
    cls = None
    for node in _src("base.py").body:
        if isinstance(node, ast.ClassDef) and node.name == "KeyTypes":
            cls = node
    if cls is None:
        raise TranslationError("class KeyTypes not found")
    members, preds = [], {}
    for st in cls.body:
        if isinstance(st, ast.Expr) and isinstance(st.value, ast.Constant) and isinstance(st.value.value, str):
            continue
        if isinstance(st, ast.Assign):
            if not (len(st.targets) == 1 and isinstance(st.targets[0], ast.Name) and isinstance(st.value, ast.Constant)
                    and isinstance(st.value.value, int)):
                raise TranslationError(f"KeyTypes line {st.lineno}: unsupported member definition")
            members.append((st.targets[0].id, st.value.value))
            continue
        if isinstance(st, ast.FunctionDef):
            if not (len(st.decorator_list) == 1 and isinstance(st.decorator_list[0], ast.Name)
                    and st.decorator_list[0].id == "property"):
                raise TranslationError(f"KeyTypes.{st.name}: not a plain @property")
            body = [b for b in st.body if not (isinstance(b, ast.Expr) and isinstance(b.value, ast.Constant))]
            if not (len(body) == 1 and isinstance(body[0], ast.Return)):
                raise TranslationError(f"KeyTypes.{st.name}: body is not a single return")
            preds[st.name] = body[0].value
            continue
        raise TranslationError(f"KeyTypes line {st.lineno}: unsupported statement {type(st).__name__}")
    names = [m for m, _ in members]
    if len(set(names)) != len(names) or len({v for _, v in members}) != len(members):
        raise TranslationError("KeyTypes members not unique")

    def member(e):
        if isinstance(e, ast.Attribute) and isinstance(e.value, ast.Name) and e.value.id == "self" and e.attr in names:
            return e.attr
        raise TranslationError(f"KeyTypes predicate: unsupported member expression {ast.dump(e)}")

    memo = {}

    def ev(e, pname):
        """set of member names for which the expression is true"""
        if isinstance(e, ast.Compare) and len(e.ops) == 1 and isinstance(e.left, ast.Name) and e.left.id == "self":
            if isinstance(e.ops[0], ast.In) and isinstance(e.comparators[0], ast.Tuple):
                return {member(x) for x in e.comparators[0].elts}
            if isinstance(e.ops[0], ast.Eq):
                return {member(e.comparators[0])}
        if isinstance(e, ast.BoolOp) and isinstance(e.op, ast.Or):
            s = set()
            for v in e.values:
                s |= ev(v, pname)
            return s
        if isinstance(e, ast.Attribute) and isinstance(e.value, ast.Name) and e.value.id == "self" and e.attr in preds:
            if e.attr == pname:
                raise TranslationError("recursive predicate")
            return pred(e.attr)
        raise TranslationError(f"KeyTypes.{pname}: unsupported expression {ast.dump(e)}")

    def pred(n):
        if n not in memo:
            memo[n] = None
            memo[n] = ev(preds[n], n)
        if memo[n] is None:
            raise TranslationError("recursive predicate")
        return memo[n]
    return members, {n: sorted(pred(n)) for n in preds}


def _key_types_classes():
    tree = _src("__init__.py")
    for node in tree.body:
        tgt = None
        if isinstance(node, ast.AnnAssign) and isinstance(node.target, ast.Name):
            tgt, val = node.target.id, node.value
        elif isinstance(node, ast.Assign) and len(node.targets) == 1 and isinstance(node.targets[0], ast.Name):
            tgt, val = node.targets[0].id, node.value
        if tgt == "KEY_TYPES_CLASSES":
            if not isinstance(val, ast.Dict):
                raise TranslationError("KEY_TYPES_CLASSES is not a dict literal")
            res = []
            for k, v in zip(val.keys, val.values):
                if not isinstance(k, ast.Name):
                    raise TranslationError("KEY_TYPES_CLASSES key is not a class name")
                if not (isinstance(v, ast.Attribute) and isinstance(v.value, ast.Name) and v.value.id == "KeyTypes"):
                    raise TranslationError("KEY_TYPES_CLASSES value is not KeyTypes.<member>")
                res.append((k.id, v.attr))
            if len({k for k, _ in res}) != len(res):
                raise TranslationError("duplicate key in KEY_TYPES_CLASSES")
            return res
    raise TranslationError("KEY_TYPES_CLASSES not found")


def facts():
    classes = _classes()
    memo = {}
    members, preds = _keytypes()
    ktc = _key_types_classes()
    mnames = [m for m, _ in members]
    for c, k in ktc:
        if c not in classes:
            raise TranslationError(f"KEY_TYPES_CLASSES names unknown class {c}")
        if k not in mnames:
            raise TranslationError(f"KEY_TYPES_CLASSES names unknown key type {k}")
    if "PROPERTY" not in mnames:
        raise TranslationError("KeyTypes.PROPERTY (fallback of Key.from_referable) missing")
    ktc_d = dict(ktc)
    concrete = []
    for name in classes:
        mro = _c3(name, classes, memo)
        if "Referable" not in mro:
            continue
        init_abs = None
        for m in mro:
            if m in classes and classes[m]["abstract_init"] is not None:
                init_abs = classes[m]["abstract_init"]
                break
        if init_abs is None:
            raise TranslationError(f"no __init__ found for {name}")
        if not init_abs:
            concrete.append(name)
    table = {}
    for name in concrete:
        mro = _c3(name, classes, memo)
        first = next((m for m in mro if m in ktc_d), None)
        table[name] = {
            "mro": [m for m in mro if m in classes],
            "key_type": ktc_d[first] if first else "PROPERTY",
            "ref_type": first if first else "Referable",
            "identifiable": "Identifiable" in mro,
            "namespace": "UniqueIdShortNamespace" in mro,
            "list": "SubmodelElementList" in mro,
            "sets": sum(classes[m]["sets"] for m in mro if m in classes),
        }
    rtypes = ["Referable"] + [c for c, _ in ktc]
    return {"members": members, "preds": preds, "ktc": ktc, "concrete": concrete, "table": table, "rtypes": rtypes}


def _match(arg, ty, rows, default=None):
    lines = [f"  match {arg} with"]
    for pat, val in rows:
        lines.append(f"  | {pat} => {val}")
    if default is not None:
        lines.append(f"  | {', '.join('_' for _ in arg.split(','))} => {default}")
    lines.append("  end.")
    return "\n".join(lines)


def render(f):
    o = ["(* GENERATED by tools/py2coq/refkeys.py from sdk/basyx/aas/model/{base,submodel,aas,concept,__init__}.py",
         "   on every run of the C07/C17 checks.  Do not edit. *)",
         "From Coq Require Import List ZArith Bool String.", "Import ListNotations.", ""]
    conc = f["concrete"]
    o.append("Inductive cls : Set :=\n" + "\n".join(f"  | C_{c}" for c in conc) + ".")
    o.append("Definition all_cls : list cls := [" + "; ".join(f"C_{c}" for c in conc) + "].")
    o.append("Lemma all_cls_complete : forall c, In c all_cls.\nProof. destruct c; simpl; tauto. Qed.")
    o.append("Definition cls_index (c : cls) : nat :=\n" + _match("c", "nat", [(f"C_{c}", f"{i}%nat") for i, c in enumerate(conc)]))
    o.append("Definition cls_name (c : cls) : string :=\n" + _match("c", "string", [(f"C_{c}", f'"{c}"%string') for c in conc]))
    o.append("")
    o.append("Inductive keytype : Set :=\n" + "\n".join(f"  | KT_{m}" for m, _ in f["members"]) + ".")
    o.append("Definition all_keytypes : list keytype := [" + "; ".join(f"KT_{m}" for m, _ in f["members"]) + "].")
    o.append("Lemma all_keytypes_complete : forall k, In k all_keytypes.\nProof. destruct k; simpl; tauto. Qed.")
    o.append("Definition keytype_code (k : keytype) : Z :=\n" + _match("k", "Z", [(f"KT_{m}", f"{v}%Z") for m, v in f["members"]]))
    o.append("Definition keytype_eqb (a b : keytype) : bool := Z.eqb (keytype_code a) (keytype_code b).")
    for p, ms in f["preds"].items():
        rows = [(" | ".join(f"KT_{m}" for m in ms), "true")] if ms else []
        o.append(f"Definition {p} (k : keytype) : bool :=\n" + _match("k", "bool", rows, "false" if len(ms) < len(f["members"]) else None))
    o.append("")
    o.append("(* classes that are keys of KEY_TYPES_CLASSES (+ Referable, the fallback of ModelReference.from_referable) *)")
    o.append("Inductive rtype : Set :=\n" + "\n".join(f"  | RT_{c}" for c in f["rtypes"]) + ".")
    o.append("Definition rtype_index (t : rtype) : nat :=\n" + _match("t", "nat", [(f"RT_{c}", f"{i}%nat") for i, c in enumerate(f["rtypes"])]))
    o.append("Definition all_rtypes : list rtype := [" + "; ".join(f"RT_{c}" for c in f["rtypes"]) + "].")
    t = f["table"]
    o.append("Definition key_type_of (c : cls) : keytype :=\n" + _match("c", "", [(f"C_{c}", f"KT_{t[c]['key_type']}") for c in conc]))
    o.append("Definition ref_type_of (c : cls) : rtype :=\n" + _match("c", "", [(f"C_{c}", f"RT_{t[c]['ref_type']}") for c in conc]))
    rows = []
    for c in conc:
        for r in f["rtypes"]:
            if r in t[c]["mro"]:
                rows.append((f"C_{c}, RT_{r}", "true"))
    o.append("Definition instance_of (c : cls) (t : rtype) : bool :=\n" + _match("c, t", "", rows, "false"))
    for nm, key in (("is_identifiable", "identifiable"), ("is_namespace", "namespace"), ("is_list", "list")):
        yes = [c for c in conc if t[c][key]]
        rows = [(" | ".join(f"C_{c}" for c in yes), "true")] if yes else []
        o.append(f"Definition {nm} (c : cls) : bool :=\n" + _match("c", "", rows, "false"))
    o.append("(* number of id_short-keyed NamespaceSets the class (and its bases) create in __init__ *)")
    o.append("Definition n_idshort_sets (c : cls) : nat :=\n" + _match("c", "", [(f"C_{c}", f"{t[c]['sets']}%nat") for c in conc]))
    return "\n".join(o) + "\n"


def regenerate():
    f = facts()
    changed = common.write_if_changed(OUT, render(f))
    return f"Gen_RefKeys.v {'rewritten' if changed else 'unchanged'}: {len(f['concrete'])} classes, {len(f['members'])} key types"
