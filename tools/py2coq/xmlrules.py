"""Tie T for C04 (and the stripped-guard list for C18): fail-closed `ast` translators of

  sdk/basyx/aas/adapter/xml/xml_serialization.py   -> coq/theories/gen/Gen_XmlWriter.v
  sdk/basyx/aas/adapter/xml/xml_deserialization.py -> coq/theories/gen/Gen_XmlReader.v
  sdk/basyx/aas/adapter/_generic.py (+ XSD_TYPE_NAMES, KEY_TYPES_CLASSES)  -> enum tables in both

Every `*_to_xml` function becomes a writer rule table (child tag, source attribute, emission
condition, value encoder, in emission order), every `construct_*` a reader rule table (child tag,
target attribute, helper used, decoder, `not cls.stripped` guard, how the value reaches the object).
`abstract_classes_to_xml` / `_amend_abstract_attributes` are flattened per concrete class with the
*live* class hierarchy (issubclass).  Irregular helper functions are pinned by a fingerprint of their
AST with the string constants masked; the constants themselves (tags) are extracted.  Anything outside
the accepted grammar raises TranslationError (never skipped).
"""
import ast
import hashlib
import inspect
import os

import common
from py2coq import TranslationError

SER = "sdk/basyx/aas/adapter/xml/xml_serialization.py"
DES = "sdk/basyx/aas/adapter/xml/xml_deserialization.py"
GENERIC = "sdk/basyx/aas/adapter/_generic.py"
DATATYPES = "sdk/basyx/aas/model/datatypes.py"
MODEL_INIT = "sdk/basyx/aas/model/__init__.py"

CONCRETE = ["Key", "ExternalReference", "ModelReference", "AdministrativeInformation", "Qualifier", "Extension",
            "ValueReferencePair", "SpecificAssetId", "AssetInformation", "Resource", "ConceptDescription",
            "EmbeddedDataSpecification", "DataSpecificationIEC61360", "AssetAdministrationShell", "Submodel",
            "Property", "MultiLanguageProperty", "Range", "Blob", "File", "ReferenceElement",
            "SubmodelElementCollection", "SubmodelElementList", "RelationshipElement",
            "AnnotatedRelationshipElement", "Operation", "Capability", "Entity", "BasicEventElement",
            "MultiLanguageNameType", "MultiLanguageTextType", "DefinitionTypeIEC61360",
            "PreferredNameTypeIEC61360", "ShortNameTypeIEC61360"]
PSEUDO = ["ValueList", "LangString"]          # a set alias and the (language, text) dict items


def err(node, msg):
    line = getattr(node, "lineno", "?")
    raise TranslationError(f"line {line}: {msg}: {ast.unparse(node)[:160] if isinstance(node, ast.AST) else node}")


# ------------------------------------------------------------------ generic helpers

def body_wo_doc(fn):
    b = fn.body
    if b and isinstance(b[0], ast.Expr) and isinstance(b[0].value, ast.Constant) and isinstance(b[0].value.value, str):
        return b[1:]
    return b


class _Mask(ast.NodeTransformer):
    def __init__(self):
        self.strings = []

    def visit_Constant(self, node):
        if isinstance(node.value, str):
            self.strings.append(node.value)
            return ast.copy_location(ast.Constant(value="?"), node)
        return node

    def visit_JoinedStr(self, node):         # f-strings only occur in messages
        return ast.copy_location(ast.Constant(value="?f"), node)


def masked(nodes):
    """(fingerprint, [string constants]) of a statement list / node, string constants masked,
    annotations and docstrings ignored."""
    import copy
    if isinstance(nodes, ast.AST):
        nodes = [nodes]
    m = _Mask()
    dumps = []
    for n in nodes:
        n = copy.deepcopy(n)
        if isinstance(n, (ast.FunctionDef,)):
            n.body = body_wo_doc(n)
            n.returns = None
            for a in n.args.args + n.args.kwonlyargs:
                a.annotation = None
            n.decorator_list = []
        for sub in ast.walk(n):
            if isinstance(sub, ast.AnnAssign):
                sub.annotation = ast.Constant(value=0)
        n = m.visit(n)
        dumps.append(ast.dump(n, annotate_fields=False, include_attributes=False))
    return hashlib.sha1("\n".join(dumps).encode()).hexdigest()[:12], m.strings


def pinned(fn, expect, what):
    fp, strs = masked(fn)
    if fp not in expect.split("|"):
        raise TranslationError(f"{what} `{fn.name}` changed (fingerprint {fp}, audited {expect}); "
                               f"its hand-audited translation is no longer valid")
    return strs


def is_name(n, s):
    return isinstance(n, ast.Name) and n.id == s


def dotted(n):
    """a.b.c -> 'a.b.c' or None"""
    parts = []
    while isinstance(n, ast.Attribute):
        parts.append(n.attr)
        n = n.value
    if isinstance(n, ast.Name):
        parts.append(n.id)
        return ".".join(reversed(parts))
    return None


def ns_tag(n, tagparam=None):
    """NS_AAS + "x" -> "x";  the name of the tag parameter -> tagparam marker"""
    if isinstance(n, ast.BinOp) and isinstance(n.op, ast.Add) and is_name(n.left, "NS_AAS") \
            and isinstance(n.right, ast.Constant) and isinstance(n.right.value, str):
        return n.right.value
    if tagparam is not None and is_name(n, "tag"):
        return tagparam
    err(n, "expected NS_AAS + \"<tag>\"")


def model_class(n):
    """model.X / model.base.X / model.datatypes.X -> 'X'"""
    d = dotted(n)
    if d and d.split(".")[0] == "model":
        return d.split(".")[-1]
    err(n, "expected model.<Class>")


def live_model():
    from basyx.aas import model
    return model


def live_class(name):
    model = live_model()
    if name == "ValueList":
        return None
    for mod in (model, model.base, model.datatypes):
        if hasattr(mod, name):
            return getattr(mod, name)
    raise TranslationError(f"unknown model class {name}")


def subclasses_of(name):
    """concrete (Meta) classes that are subclasses of the annotated class"""
    if name in PSEUDO:
        return [name]
    a = live_class(name)
    return [c for c in CONCRETE if issubclass(live_class(c), a)]


def parse_file(rel):
    path = os.path.join(common.REPO, rel)
    return ast.parse(open(path).read(), filename=path)


def functions(tree):
    fns = {}
    for n in tree.body:
        if isinstance(n, ast.FunctionDef):
            fns[n.name] = n
    return fns


# ------------------------------------------------------------------ enum tables

def enum_key(n):
    """model.KeyTypes.X -> X ; model.ExternalReference -> ExternalReference ; Name -> id"""
    if isinstance(n, ast.Name):
        return n.id
    d = dotted(n)
    if not d:
        err(n, "enum table key")
    parts = d.split(".")
    return parts[-1]


def translate_tables():
    """dict literals `Enum.member -> "str"` and their `{v: k for k, v in X.items()}` inverses."""
    tables = {}
    for rel, wanted in ((DATATYPES, {"XSD_TYPE_NAMES", "XSD_TYPE_CLASSES"}),
                        (MODEL_INIT, {"KEY_TYPES_CLASSES"}), (GENERIC, None)):
        tree = parse_file(rel)
        for st in tree.body:
            if not isinstance(st, ast.AnnAssign) or not isinstance(st.target, ast.Name) or st.value is None:
                continue
            name = st.target.id
            if wanted is not None and name not in wanted:
                continue
            v = st.value
            if isinstance(v, ast.Dict):
                if name in ("XML_NS_MAP",):
                    continue
                rows = []
                for k, x in zip(v.keys, v.values):
                    if isinstance(x, ast.Constant) and isinstance(x.value, str):
                        rows.append((enum_key(k), x.value))
                    else:
                        rows.append((enum_key(k), enum_key(x)))
                tables[name] = rows
            elif isinstance(v, ast.DictComp):
                g = v.generators[0]
                if len(v.generators) != 1 or g.ifs or not isinstance(g.target, ast.Tuple):
                    err(v, "dict comprehension shape")
                kn, vn = [t.id for t in g.target.elts]
                it = g.iter
                if not (isinstance(it, ast.Call) and isinstance(it.func, ast.Attribute) and it.func.attr == "items"
                        and not it.args):
                    err(v, "dict comprehension source")
                src = it.func.value
                if is_name(v.key, vn) and is_name(v.value, kn):           # inverse
                    sname = dotted(src).split(".")[-1]
                    if sname not in tables:
                        err(v, f"inverse of unknown table {sname}")
                    tables[name] = [(b, a) for a, b in tables[sname]]
                elif is_name(v.key, kn) and isinstance(v.value, ast.BinOp) and isinstance(v.value.op, ast.Add) \
                        and isinstance(v.value.left, ast.Constant) and is_name(v.value.right, vn) \
                        and isinstance(src, ast.Dict):                      # {k: "xs:" + v for k, v in {...}.items()}
                    pre = v.value.left.value
                    tables[name] = [(enum_key(k), pre + x.value) for k, x in zip(src.keys, src.values)]
                else:
                    err(v, "dict comprehension shape")
            elif name in ("XML_NS_AAS",):
                continue
            else:
                if wanted is not None:
                    err(st, "table shape")
    for need in ("MODELLING_KIND", "KEY_TYPES", "KEY_TYPES_INVERSE", "REFERENCE_TYPES", "XSD_TYPE_NAMES",
                 "XSD_TYPE_CLASSES", "KEY_TYPES_CLASSES", "KEY_TYPES_CLASSES_INVERSE", "IEC61360_LEVEL_TYPES"):
        if need not in tables:
            raise TranslationError(f"table {need} not found")
    return tables


# ------------------------------------------------------------------ Coq printing

def cs(s):
    if s is None:
        raise TranslationError("None string")
    if not all(32 <= ord(c) < 127 for c in s):
        raise TranslationError(f"non-ASCII tag/name {s!r}")
    return '"' + s.replace('"', '""') + '"'


def clist(items):
    return "[" + "; ".join(items) + "]"


def cbool(b):
    return "true" if b else "false"


def cenc(e):
    k = e[0]
    if k in ("WText", "WBool", "WXsd", "WB64Raw", "WB64"):
        return k
    if k == "WEnum":
        return f"(WEnum {clist(cs(t) for t in e[1])})"
    if k in ("WLevel", "WObj", "WDisp"):
        return f"({k} {cs(e[1])})"
    if k in ("WList", "WWrap"):
        return f"({k} {cenc(e[1])} {cs(e[2])})"
    raise TranslationError(f"encoder {e}")


def cdec(d):
    k = d[0]
    if k in ("RText", "RBool", "RB64"):
        return k
    if k == "REnum":
        return f"(REnum {clist(cs(t) for t in d[1])} {cbool(d[2])})"
    if k in ("RXsd", "RXsdFixed", "RLevel", "RObj", "RDisp"):
        return f"({k} {cs(d[1])})"
    if k == "RList":
        return f"(RList {cdec(d[1])} {cs(d[2])} {cbool(d[3])})"
    if k == "RChild":
        return f"(RChild {cs(d[1])} {cdec(d[2])})"
    if k == "RFirst":
        return f"(RFirst {cdec(d[1])})"
    raise TranslationError(f"decoder {d}")


def cvalue(v):
    if v is None:
        return "VNone"
    if isinstance(v, bool):
        return f"(VBool {cbool(v)})"
    if isinstance(v, tuple) and v[0] == "enum":
        return f"(VEnum {cs(v[1])})"
    if isinstance(v, (list, tuple)) and len(v) == 0:
        return "(VList [])"
    raise TranslationError(f"default value {v!r}")


def ctables(tables):
    rows = []
    for name in sorted(tables):
        rows.append(f"  ({cs(name)}, {clist('(' + cs(a) + ', ' + cs(b) + ')' for a, b in tables[name])})")
    return "[\n" + ";\n".join(rows) + "\n]"


HEADER = ("(* GENERATED by tools/py2coq/xmlrules.py from {src} - do not edit. *)\n"
          "From Coq Require Import List String.\nFrom Basyx Require Import model.XmlCodec.\n"
          "Import ListNotations.\nLocal Open Scope string_scope.\n\n")


# ================================================================== WRITER

W_PINNED = {   # helper -> audited masked fingerprint (filled from the pinned tree; see audit notes beside each use)
}


class Writer:
    def __init__(self):
        self.tree = parse_file(SER)
        self.fns = functions(self.tree)
        self.tables = None
        self.inline_tables = {}
        self.kinds = {}          # function -> 'class' | 'disp' | 'special'
        self.default_tag = {}
        self.classify()

    # ---- classification of the *_to_xml functions
    def classify(self):
        for name, fn in self.fns.items():
            if not name.endswith("_to_xml") or name in ("abstract_classes_to_xml", "boolean_to_xml", "_value_to_xml"):
                continue
            body = body_wo_doc(fn)
            args = fn.args
            dflts = dict(zip([a.arg for a in args.args][len(args.args) - len(args.defaults):], args.defaults))
            if "tag" in dflts:
                self.default_tag[name] = ns_tag(dflts["tag"])
            if all(isinstance(s, ast.If) for s in body[:-1]) and isinstance(body[-1], ast.Raise) and len(body) > 1:
                self.kinds[name] = "disp"
            elif name in ("lang_string_set_to_xml", "data_specification_content_to_xml",
                          "operation_variable_to_xml"):
                self.kinds[name] = "special"
            else:
                self.kinds[name] = "class"

    def ann_class(self, fn):
        a = fn.args.args[0]
        if a.arg != "obj" or a.annotation is None:
            err(fn, "first parameter must be `obj: model.X`")
        return model_class(a.annotation)

    # ---- expressions
    def obj_attr(self, n, var="obj"):
        if isinstance(n, ast.Attribute) and is_name(n.value, var):
            return n.attr
        return None

    def text_expr(self, n, var):
        """text=<expr> of _generate_element -> (attr, enc)"""
        a = self.obj_attr(n, var)
        if a is not None:
            return a, ("WText",)
        if isinstance(n, ast.Subscript):
            chain = []
            cur = n
            while isinstance(cur, ast.Subscript):
                d = dotted(cur.value)
                if not d or d.split(".")[0] not in ("_generic", "model"):
                    err(n, "table lookup")
                chain.append(d.split(".")[-1])
                cur = cur.slice
            a = self.obj_attr(cur, var)
            if a is None:
                err(n, "table lookup source")
            for t in chain:
                if t not in self.tables:
                    err(n, f"unknown table {t}")
            return a, ("WEnum", list(reversed(chain)))
        if isinstance(n, ast.Call):
            d = dotted(n.func)
            if d == "boolean_to_xml" and len(n.args) == 1 and not n.keywords:
                a = self.obj_attr(n.args[0], var)
                if a is not None:
                    return a, ("WBool",)
            if d == "model.datatypes.xsd_repr" and len(n.args) == 1 and not n.keywords:
                a = self.obj_attr(n.args[0], var)
                if a is not None:
                    return a, ("WXsd",)
            # base64.b64encode(obj.a).decode()
            if isinstance(n.func, ast.Attribute) and n.func.attr == "decode" and not n.args and not n.keywords \
                    and isinstance(n.func.value, ast.Call) and dotted(n.func.value.func) == "base64.b64encode" \
                    and len(n.func.value.args) == 1 and not n.func.value.keywords:
                a = self.obj_attr(n.func.value.args[0], var)
                if a is not None:
                    return a, ("WB64",)
        err(n, "text expression")

    def gen_call(self, n, tagparam=None):
        """_generate_element(name, text=None) -> (tag, textnode or None)"""
        if not (isinstance(n, ast.Call) and is_name(n.func, "_generate_element")):
            return None
        pos = list(n.args)
        kw = {k.arg: k.value for k in n.keywords}
        if set(kw) - {"name", "text"} or len(pos) > 2:
            err(n, "_generate_element arguments")
        name = pos[0] if pos else kw.get("name")
        text = pos[1] if len(pos) > 1 else kw.get("text")
        if name is None:
            err(n, "_generate_element without name")
        return ns_tag(name, tagparam), text

    def child_expr(self, n, var, tagparam=None):
        """expression yielding one child element built from `var` -> (tag, attr, enc).
        attr is '' when the expression consumes `var` itself (loop items)."""
        g = self.gen_call(n, tagparam)
        if g is not None:
            tag, text = g
            if text is None:
                err(n, "leaf element without text")
            a, e = self.text_expr(text, var)
            return tag, a, e
        if not isinstance(n, ast.Call) or not isinstance(n.func, ast.Name):
            err(n, "child expression")
        f = n.func.id
        pos = list(n.args)
        kw = {k.arg: k.value for k in n.keywords}
        if f == "_value_to_xml":
            if set(kw) - {"tag"} or len(pos) != 2 or self.obj_attr(pos[1], var) != "value_type":
                err(n, "_value_to_xml arguments")
            a = self.obj_attr(pos[0], var)
            if a is None:
                err(n, "_value_to_xml source")
            tag = ns_tag(kw["tag"]) if "tag" in kw else self.value_default_tag
            return tag, a, ("WXsd",)
        if f not in self.kinds:
            err(n, "unknown serialisation function")
        if not pos:
            err(n, "call without object")
        src = pos[0]
        a = "" if is_name(src, var) and var != "obj" else self.obj_attr(src, "obj" if var == "obj" else var)
        if is_name(src, "obj") and var == "obj":
            a = "__self__"
        if a is None:
            err(n, "call source")
        tagnode = pos[1] if len(pos) > 1 else kw.get("tag")
        if len(pos) > 2 or set(kw) - {"tag"}:
            err(n, "call arguments")
        kind = self.kinds[f]
        if kind == "disp":
            if tagnode is not None:
                err(n, "dispatcher with tag")
            return None, a, ("WDisp", f)
        tag = ns_tag(tagnode, tagparam) if tagnode is not None else self.default_tag.get(f)
        if tag is None:
            err(n, "no tag")
        if kind == "class" or f == "lang_string_set_to_xml":
            return tag, a, ("WObj", f)
        if f == "data_specification_content_to_xml":
            return tag, a, ("WWrap", ("WDisp", f), "")
        if f == "operation_variable_to_xml":
            return tag, a, self.opvar_enc
        err(n, "special function")

    def cond_expr(self, n):
        """if-condition over obj -> (attr, wcond)"""
        a = self.obj_attr(n, "obj")
        if a is not None:
            return a, "WTruthy"
        if isinstance(n, ast.Compare) and len(n.ops) == 1:
            l, op, r = n.left, n.ops[0], n.comparators[0]
            a = self.obj_attr(l, "obj")
            if a is not None and isinstance(op, ast.IsNot) and isinstance(r, ast.Constant) and r.value is None:
                return a, "WNotNone"
            if isinstance(l, ast.Call) and is_name(l.func, "len") and len(l.args) == 1 and isinstance(op, ast.Gt) \
                    and isinstance(r, ast.Constant) and r.value == 0:
                a = self.obj_attr(l.args[0], "obj")
                if a is not None:
                    return a, "WNonEmpty"
        if isinstance(n, ast.BoolOp) and isinstance(n.op, ast.And) and len(n.values) == 2:
            a = self.obj_attr(n.values[0], "obj")
            v = n.values[1]
            if a == "id_short" and isinstance(v, ast.UnaryOp) and isinstance(v.op, ast.Not) \
                    and ast.unparse(v.operand) == "isinstance(obj.parent, model.SubmodelElementList)":
                return a, "WTruthyNotInList"
        err(n, "condition")

    def is_append(self, st, target):
        if isinstance(st, ast.Expr) and isinstance(st.value, ast.Call) and isinstance(st.value.func, ast.Attribute) \
                and st.value.func.attr == "append" and is_name(st.value.func.value, target) \
                and len(st.value.args) == 1 and not st.value.keywords:
            return st.value.args[0]
        return None

    # ---- statements of a class writer
    def stmts(self, sts, elm, cond=None, tagparam=None):
        """-> list of rule dicts"""
        rules = []
        i = 0
        while i < len(sts):
            st = sts[i]
            ap = self.is_append(st, elm)
            if ap is not None and not isinstance(ap, ast.Name):
                tag, a, e = self.child_expr(ap, "obj", tagparam)
                if tag is None:
                    err(st, "dispatch directly under an object")
                rules.append(self.rule(st, tag, a, cond, e))
                i += 1
                continue
            # wrapper triple:  w = _generate_element(TAG); for x in obj.a: w.append(item(x)); elm.append(w)
            if isinstance(st, ast.Assign) and len(st.targets) == 1 and isinstance(st.targets[0], ast.Name) \
                    and i + 2 < len(sts) + 0 and isinstance(sts[i + 1], ast.For):
                w = st.targets[0].id
                g = self.gen_call(st.value)
                if g is None or g[1] is not None:
                    err(st, "wrapper element")
                wtag = g[0]
                loop = sts[i + 1]
                fin = self.is_append(sts[i + 2], elm)
                if not is_name(fin, w):
                    err(sts[i + 2], "wrapper not appended")
                if wtag == "levelType":
                    rules.append(self.level_rule(loop, w, wtag, cond))
                else:
                    a, item, itag = self.loop_items(loop, w)
                    rules.append(self.rule(st, wtag, a, cond, ("WList", item, itag)))
                i += 3
                continue
            # Blob:  et_value = etree.Element(NS_AAS + "value"); if obj.value is not None: et_value.text = b64; append
            if isinstance(st, ast.Assign) and isinstance(st.value, ast.Call) and dotted(st.value.func) == "etree.Element":
                fp, strs = masked(sts[i:i + 3])
                if fp != "e42ce6043ab0" or len(strs) != 1:
                    err(st, f"raw element block changed (fingerprint {fp})")
                if cond is not None:
                    err(st, "raw element block under a condition")
                rules.append(self.rule(st, strs[0], "value", None, ("WB64Raw",)))
                i += 3
                continue
            if isinstance(st, ast.If):
                rules.extend(self.if_stmt(st, elm, cond, tagparam))
                i += 1
                continue
            if isinstance(st, ast.For) and cond is None:
                rules.extend(self.tuple_loop(st, elm))
                i += 1
                continue
            err(st, "statement outside the writer grammar")
        return rules

    def rule(self, node, tag, attr, cond, enc, inline=False):
        if attr in ("", "__self__", None):
            err(node, "rule without source attribute")
        return {"tag": tag, "attr": attr, "cond": cond or (attr, "WAlways"), "enc": enc, "inline": inline,
                "line": node.lineno}

    def loop_items(self, loop, w):
        """for x in obj.a: w.append(item(x))   [optionally under `if isinstance(x, model.C):`]"""
        if not isinstance(loop.target, ast.Name) or loop.orelse:
            err(loop, "loop shape")
        x = loop.target.id
        a = self.obj_attr(loop.iter, "obj")
        if a is None and is_name(loop.iter, "obj"):
            a = "items"
        if a is None:
            err(loop, "loop source")
        body = loop.body
        if len(body) == 1 and isinstance(body[0], ast.If) and not body[0].orelse:
            t = body[0].test
            if not (isinstance(t, ast.Call) and is_name(t.func, "isinstance") and is_name(t.args[0], x)):
                err(loop, "loop filter")
            flt = model_class(t.args[1])
            body = body[0].body
        else:
            flt = None
        if len(body) != 1:
            err(loop, "loop body")
        ap = self.is_append(body[0], w)
        if ap is None:
            err(loop, "loop body")
        itag, ia, e = self.child_expr(ap, x)
        if ia != "":
            err(loop, "loop item source")
        if flt is not None and not (e[0] == "WObj" and self.ann_class(self.fns[e[1]]) == flt):
            err(loop, "loop filter class differs from the item writer's class")
        return a, e, (itag or "")

    def level_rule(self, loop, w, wtag, cond):
        fp, strs = masked(loop)
        if fp != "21dbf345ea87":
            err(loop, f"levelType loop changed (fingerprint {fp})")
        # for k, v in _generic.IEC61360_LEVEL_TYPES.items(): w.append(gen(NS_AAS + v, text=boolean_to_xml(k in obj.level_types)))
        return self.rule(loop, wtag, "level_types", cond, ("WLevel", "IEC61360_LEVEL_TYPES"))

    def if_stmt(self, st, elm, cond, tagparam):
        t = st.test
        # HasKind: if obj.kind is model.ModellingKind.TEMPLATE: append(gen(kind,"Template")) else: append(gen(kind,"Instance"))
        if st.orelse:
            if cond is not None or not (isinstance(t, ast.Compare) and isinstance(t.ops[0], ast.Is)):
                err(st, "if/else shape")
            a = self.obj_attr(t.left, "obj")
            d = dotted(t.comparators[0])
            if a is None or not d or len(st.body) != 1 or len(st.orelse) != 1:
                err(st, "if/else shape")
            enum_cls, member = d.split(".")[-2:]
            g1 = self.gen_call(self.is_append(st.body[0], elm))
            g2 = self.gen_call(self.is_append(st.orelse[0], elm))
            if not g1 or not g2 or g1[0] != g2[0] or not all(isinstance(x[1], ast.Constant) for x in (g1, g2)):
                err(st, "if/else branches")
            members = [m.name for m in live_class(enum_cls)]
            if member not in members:
                err(st, "unknown enum member")
            tname = f"inline:{enum_cls}:{st.lineno and a}"
            self.inline_tables[tname] = [(m, g1[1].value if m == member else g2[1].value) for m in members]
            return [self.rule(st, g1[0], a, None, ("WEnum", [tname]))]
        if cond is not None:
            err(st, "nested condition")
        c = self.cond_expr(t)
        rules = self.stmts(st.body, elm, cond=c, tagparam=tagparam)
        for r in rules:
            if r["cond"][0] != r["attr"]:
                err(st, f"condition on obj.{r['cond'][0]} guards a child built from obj.{r['attr']}")
        return rules

    def tuple_loop(self, st, elm):
        """for tag, nss in ((TAG, obj.a), ...): if nss: w = gen(tag); for x in nss: w.append(item(x)); elm.append(w)"""
        fp, strs = masked(st)
        if fp != "0e9c71369994":
            err(st, f"operation variable loop changed (fingerprint {fp})")
        rules = []
        for pair in st.iter.elts:
            tag = ns_tag(pair.elts[0])
            a = self.obj_attr(pair.elts[1], "obj")
            inner = st.body[0].body[1].body[0]          # w.append(item(x))
            x = st.body[0].body[1].target.id
            itag, ia, e = self.child_expr(inner.value.args[0], x)
            rules.append(self.rule(st, tag, a, (a, "WTruthy"), ("WList", e, itag or "")))
        return rules

    # ---- whole functions
    def class_fn(self, name):
        fn = self.fns[name]
        body = body_wo_doc(fn)
        first = body[0]
        has_tag = any(a.arg == "tag" for a in fn.args.args)
        tp = "$tag" if has_tag else None
        if isinstance(first, ast.Return):           # capability: return abstract_classes_to_xml(tag, obj)
            if ast.unparse(first.value) != "abstract_classes_to_xml(tag, obj)" or len(body) != 1:
                err(first, "return shape")
            return [("abstract",)]
        if not (isinstance(first, ast.Assign) and isinstance(first.targets[0], ast.Name)
                and isinstance(first.value, ast.Call)):
            err(first, "first statement must create the element")
        elm = first.targets[0].id
        src = ast.unparse(first.value)
        if src == "abstract_classes_to_xml(tag, obj)":
            pre = [("abstract",)]
        elif src == "_generate_element(tag)":
            pre = []
        elif isinstance(first.value.func, ast.Name) and first.value.func.id in self.kinds \
                and self.kinds[first.value.func.id] == "class" and src == f"{first.value.func.id}(obj, tag)":
            pre = [("inherit", first.value.func.id)]
        else:
            err(first, "element creation")
        last = body[-1]
        if not (isinstance(last, ast.Return) and is_name(last.value, elm)):
            err(last, "must return the element")
        return pre + self.stmts(body[1:-1], elm, tagparam=tp)

    def abstract_fn(self):
        fn = self.fns["abstract_classes_to_xml"]
        body = body_wo_doc(fn)
        if ast.unparse(body[0]) != "elm = _generate_element(tag)" or ast.unparse(body[-1]) != "return elm":
            err(fn, "abstract_classes_to_xml frame")
        out = []
        for st in body[1:-1]:
            if not (isinstance(st, ast.If) and not st.orelse and isinstance(st.test, ast.Call)
                    and is_name(st.test.func, "isinstance") and is_name(st.test.args[0], "obj")):
                err(st, "abstract_classes_to_xml block")
            out.append((model_class(st.test.args[1]), self.stmts(st.body, "elm")))
        return out

    def disp_fn(self, name):
        fn = self.fns[name]
        rows = []
        for st in body_wo_doc(fn)[:-1]:
            t = st.test
            if not (isinstance(t, ast.Call) and is_name(t.func, "isinstance") and is_name(t.args[0], "obj")
                    and len(st.body) == 1 and isinstance(st.body[0], ast.Return) and not st.orelse):
                err(st, "dispatcher branch")
            c = st.body[0].value
            if not (isinstance(c, ast.Call) and isinstance(c.func, ast.Name) and len(c.args) == 1
                    and is_name(c.args[0], "obj") and not c.keywords and c.func.id in self.kinds):
                err(st, "dispatcher call")
            rows.append((model_class(t.args[1]), c.func.id))
        return rows

    def resolve_disp(self, name, cls):
        """first matching isinstance branch, nested dispatchers followed -> (function, tag) or None"""
        for guard, f in self.disp_rows[name]:
            if issubclass(live_class(cls), live_class(guard)):
                if self.kinds[f] == "disp":
                    return self.resolve_disp(f, cls)
                return f, self.default_tag[f]
        return None

    def translate(self):
        self.tables = translate_tables()
        # pinned helpers (audited): _generate_element drops falsy text; boolean_to_xml; _value_to_xml
        pinned(self.fns["_generate_element"], "939c67d9da6f", "helper")
        if pinned(self.fns["boolean_to_xml"], "e3b9d1d19ab1", "helper") != ["true", "false"]:
            raise TranslationError("boolean_to_xml literals changed")
        pinned(self.fns["_value_to_xml"], "9f4d3d97397a", "helper")
        vd = self.fns["_value_to_xml"].args.defaults
        self.value_default_tag = ns_tag(vd[-1])
        # operation_variable_to_xml: <tag><value>SME</value></tag>
        strs = pinned(self.fns["operation_variable_to_xml"], "876cf0463446", "special writer")
        self.opvar_enc = ("WWrap", ("WWrap", ("WDisp", "submodel_element_to_xml"), ""), strs[-1])
        if strs != ["operationVariable", "value"]:
            raise TranslationError(f"operation_variable_to_xml constants {strs}")
        # data_specification_content_to_xml: abstract(tag, obj) + isinstance dispatch appended
        pinned(self.fns["data_specification_content_to_xml"], "3edb624f9e60", "special writer")
        self.disp_rows = {n: self.disp_fn(n) for n, k in self.kinds.items() if k == "disp"}
        dsc = self.fns["data_specification_content_to_xml"]
        br = body_wo_doc(dsc)[1]
        self.disp_rows["data_specification_content_to_xml"] = [(model_class(br.test.args[1]),
                                                               br.body[0].value.args[0].func.id)]
        # lang_string_set_to_xml
        lfn = self.fns["lang_string_set_to_xml"]
        lstrs = pinned(lfn, "c6ecbd930b56", "special writer")
        d = body_wo_doc(lfn)[0].value.generators[0].iter.func.value
        lang_tags = {model_class(k): v.value for k, v in zip(d.keys, d.values)}
        if lstrs[-2:] != ["language", "text"]:
            raise TranslationError(f"lang_string_set_to_xml constants {lstrs}")

        abstract = self.abstract_fn()
        raw = {n: self.class_fn(n) for n, k in self.kinds.items() if k == "class"}
        rules = {}
        for n in raw:
            ann = self.ann_class(self.fns[n])
            for c in subclasses_of(ann):
                rules.setdefault(n, {})[c] = self.flatten(raw, abstract, n, c)
        rules["lang_string_set_to_xml"] = {
            c: [{"tag": "", "attr": "items", "cond": ("items", "WAlways"), "inline": True,
                 "enc": ("WList", ("WObj", "lang_string_set_to_xml.item"), lang_tags[c]), "line": lfn.lineno}]
            for c in lang_tags}
        rules["lang_string_set_to_xml.item"] = {
            "LangString": [{"tag": t, "attr": t, "cond": (t, "WAlways"), "inline": False, "enc": ("WText",),
                            "line": lfn.lineno} for t in ("language", "text")]}
        disp = {}
        for d_, rows in self.disp_rows.items():
            disp[d_] = []
            for c in CONCRETE:
                r = self.resolve_disp(d_, c)
                if r is not None:
                    disp[d_].append((c, r))
        single = self.single_object()
        tops = self.store_fn()
        self.tables.update(self.inline_tables)
        return rules, disp, single, tops

    def flatten(self, raw, abstract, fn, cls):
        out = []
        for item in raw[fn]:
            if isinstance(item, tuple) and item[0] == "abstract":
                for guard, rs in abstract:
                    if cls not in PSEUDO and issubclass(live_class(cls), live_class(guard)):
                        out.extend(rs)
            elif isinstance(item, tuple) and item[0] == "inherit":
                out.extend(self.flatten(raw, abstract, item[1], cls))
            else:
                out.append(item)
        return out

    VALUE_LIST_TEST = "isinstance(obj, set) and all((isinstance(e, model.ValueReferencePair) for e in obj))"

    def lss_branch(self, st):
        """for lss_type, lss_tag in ((model.T, "tag"), ...):
               if isinstance(obj, lss_type): return lang_string_set_to_xml(obj, tag=NS_AAS + lss_tag)
           raise ValueError(...)                          -> [(class, tag), ...] in test order"""
        if len(st.body) != 2 or not isinstance(st.body[0], ast.For) or not isinstance(st.body[1], ast.Raise):
            err(st, "LangStringSet branch shape")
        loop, rs = st.body
        if not ast.unparse(rs.exc).startswith("ValueError("):
            err(rs, "LangStringSet branch must end in ValueError")
        if loop.orelse or not (isinstance(loop.target, ast.Tuple) and len(loop.target.elts) == 2
                               and all(isinstance(e, ast.Name) for e in loop.target.elts)):
            err(loop, "LangStringSet loop target")
        tv, gv = (e.id for e in loop.target.elts)
        if not isinstance(loop.iter, ast.Tuple):
            err(loop, "LangStringSet loop source")
        pairs = []
        for e in loop.iter.elts:
            if not (isinstance(e, ast.Tuple) and len(e.elts) == 2 and isinstance(e.elts[1], ast.Constant)
                    and isinstance(e.elts[1].value, str)):
                err(e, "LangStringSet (type, tag) pair")
            pairs.append((model_class(e.elts[0]), e.elts[1].value))
        if len(loop.body) != 1 or not isinstance(loop.body[0], ast.If) or loop.body[0].orelse:
            err(loop, "LangStringSet loop body")
        inner = loop.body[0]
        if ast.unparse(inner.test) != f"isinstance(obj, {tv})" or len(inner.body) != 1 \
                or not isinstance(inner.body[0], ast.Return) \
                or ast.unparse(inner.body[0].value) != f"lang_string_set_to_xml(obj, tag=NS_AAS + {gv})":
            err(inner, "LangStringSet loop body")
        return pairs

    def single_object(self):
        """object_to_xml_element: the if/elif chain, flattened per concrete class by the first matching test.
        -> [(class, function, tag the function is called with, the call raises TypeError)]"""
        fn = self.fns["object_to_xml_element"]
        body = body_wo_doc(fn)
        chain = [b for b in body if isinstance(b, ast.If)]
        if len(chain) != 1 or ast.unparse(body[-1]) != "return serialization_func(obj)":
            err(fn, "object_to_xml_element frame")
        rows = []          # (guard class | 'ValueList', kind, payload)
        st = chain[0]
        while True:
            t = st.test
            plain = (len(st.body) == 1 and isinstance(st.body[0], ast.Assign)
                     and is_name(st.body[0].targets[0], "serialization_func") and isinstance(st.body[0].value, ast.Name))
            is_inst = isinstance(t, ast.Call) and is_name(t.func, "isinstance") and len(t.args) == 2 \
                and is_name(t.args[0], "obj") and not t.keywords
            if is_inst and plain:
                guard = model_class(t.args[1])
                f = st.body[0].value.id
                if guard == "ValueList":
                    # isinstance() on the typing alias Set[ValueReferencePair]: TypeError for every object reaching it
                    rows.append(("ValueList", "alias", f))
                else:
                    rows.append((guard, "func", f))
            elif is_inst and model_class(t.args[1]) == "LangStringSet":
                rows.append(("LangStringSet", "lss", self.lss_branch(st)))
            elif plain and ast.unparse(t) == self.VALUE_LIST_TEST:
                rows.append(("ValueList", "set", st.body[0].value.id))
            else:
                err(st, "object_to_xml_element branch")
            if len(st.orelse) == 1 and isinstance(st.orelse[0], ast.If):
                st = st.orelse[0]
            elif len(st.orelse) == 1 and isinstance(st.orelse[0], ast.Raise) \
                    and ast.unparse(st.orelse[0].exc).startswith("ValueError("):
                break
            else:
                err(st, "object_to_xml_element chain")
        single = []
        for c in CONCRETE + ["ValueList"]:
            for guard, kind, payload in rows:
                if c == "ValueList":
                    # a Python set is an instance of no model class: only the ValueList tests can apply
                    if guard != "ValueList":
                        continue
                    f = payload
                    if f not in self.kinds or self.kinds[f] != "class" or self.ann_class(self.fns[f]) != "ValueList":
                        err(fn, f"value list writer {f}")
                    tag = self.default_tag.get(f)
                    single.append((c, f, tag or "", kind == "alias" or tag is None))
                    break
                if guard == "ValueList" or not issubclass(live_class(c), live_class(guard)):
                    continue
                if kind == "lss":
                    hit = [tg for (lc, tg) in payload if issubclass(live_class(c), live_class(lc))]
                    if hit:            # otherwise: ValueError, the class is not supported by the single-object writer
                        single.append((c, "lang_string_set_to_xml", hit[0], False))
                    break
                f = payload
                if f not in self.kinds:
                    err(fn, f"unknown function {f}")
                if self.kinds[f] == "disp":
                    r = self.resolve_disp(f, c)
                    f, tag, raises = r[0], r[1], False
                else:
                    # serialization_func(obj) is called without a tag: a function without a default raises TypeError
                    tag = self.default_tag.get(f)
                    raises = tag is None
                single.append((c, f, tag or "", raises))
                break
        return single

    def store_fn(self):
        fn = self.fns["object_store_to_xml_element"]
        strs = pinned(fn, "46aa56885f0d", "store writer")
        if strs != ["environment", "assetAdministrationShells", "submodels", "conceptDescriptions"]:
            raise TranslationError(f"object_store_to_xml_element constants {strs}")
        calls = [n for n in ast.walk(fn) if isinstance(n, ast.Call) and isinstance(n.func, ast.Name)
                 and n.func.id.endswith("_to_xml")]
        fnames = [c.func.id for c in sorted(calls, key=lambda c: c.lineno)]
        classes = [model_class(n.args[1]) for n in ast.walk(fn)
                   if isinstance(n, ast.Call) and is_name(n.func, "isinstance")]
        if len(fnames) != 3 or len(classes) != 3:
            err(fn, "object_store_to_xml_element shape")
        return [(strs[i + 1], self.default_tag[fnames[i]], fnames[i], classes[i]) for i in range(3)]


def crule_w(r):
    return (f"mkW {cs(r['tag'])} {cs(r['attr'])} {r['cond'][1]} {cenc(r['enc'])} {cbool(r['inline'])}")


def emit_writer(rules, disp, single, tops, tables):
    out = [HEADER.format(src=SER + ", " + GENERIC)]
    out.append("Definition xml_enum_tables : tables := " + ctables(tables) + ".\n")
    rows = []
    for fn in sorted(rules):
        byc = []
        for c in sorted(rules[fn]):
            byc.append(f"    ({cs(c)}, [\n      " + ";\n      ".join(crule_w(r) for r in rules[fn][c]) + "])")
        rows.append(f"  ({cs(fn)}, [\n" + ";\n".join(byc) + "])")
    out.append("Definition xml_w_rules : list (string * list (string * list wrule)) := [\n" + ";\n".join(rows) + "\n].\n")
    drows = []
    for d in sorted(disp):
        drows.append(f"  ({cs(d)}, " + clist(f"({cs(c)}, ({cs(f)}, {cs(t)}))" for c, (f, t) in disp[d]) + ")")
    out.append("Definition xml_w_disp : list (string * list (string * (string * string))) := [\n"
               + ";\n".join(drows) + "\n].\n")
    out.append("Definition gen_xml_w : wtables := mkWT xml_w_rules xml_w_disp xml_enum_tables.\n")
    out.append("(* object_to_xml_element: class -> (function, tag it is called with, the call raises TypeError) *)")
    out.append("Definition xml_w_single : list (string * (string * string * bool)) := [\n  "
               + ";\n  ".join(f"({cs(c)}, ({cs(f)}, {cs(t)}, {cbool(nt)}))" for c, f, t, nt in single) + "\n].\n")
    out.append("(* object_store_to_xml_element: (list tag, item tag, writer function, class) *)")
    out.append("Definition xml_w_tops : list (string * string * string * string) := [\n  "
               + ";\n  ".join(f"({cs(a)}, {cs(b)}, {cs(c)}, {cs(d)})" for a, b, c, d in tops) + "\n].\n")
    return "\n".join(out)


# ================================================================== READER

def attr_of_param(p):
    return p[:-1] if p.endswith("_") else p


class Reader:
    HELPERS = {   # text / child helpers interpreted by model/XmlCodec.v (dec_leaf_elem, dec_c): audited fingerprints
        "_str_to_bool": "cd0e5ed5e9bf", "_get_child_mandatory": "6590f40ea8df", "_get_all_children_expect_tag": "120c6101bfb9",
        "_get_text_or_none": "a91fdf654bd6", "_get_text_or_empty_string_or_none": "e831e8183f80", "_get_text_mapped_or_none": "f91e62c9ccc5",
        "_get_text_mandatory": "f842d4184b05", "_get_text_mandatory_mapped": "628bfe3ddf41", "_failsafe_construct": "217da3c5d661|de1d4906e28f",
        "_failsafe_construct_mandatory": "08310a99d36d", "_failsafe_construct_multiple": "1051f725148e",
        "_child_construct_mandatory": "65ccee6711e1", "_child_construct_multiple": "91f8da1e3937", "_child_text_mandatory": "ae5c0b7ae7eb",
        "_child_text_mandatory_mapped": "37e9f2832e0d", "_get_kind": "ce88a12f9b15", "_expect_reference_type": "a0afb6890a07",
        "_select_decoder": "ccf12ebe8a06", "read_aas_xml_file_into": "06470c4dd1e4", "read_aas_xml_file": "eedfe8506067", "_parse_xml_document": "6e5c3194a573",
    }
    METHODS = {   # irregular constructor methods with a hand-audited translation
        "_construct_key_tuple": "478fb9c14cf9", "_construct_operation_variable": "c6e21cee4b2a", "construct_reference": "ddf350d55a49",
        "construct_external_reference": "8a7b82021d11", "construct_model_reference": "f3c80625ab01",
        "construct_model_reference_expect_type": "23a38f3fab13", "construct_lang_string_set": "1dd5c05ea60c",
        "_construct_submodel_reference": "86dc559c15a7", "_construct_asset_administration_shell_reference": "1dec49a6b5cd",
        "_construct_referable_reference": "5b13d761147f", "construct_submodel_element": "54708baa888a", "construct_data_element": "1d6b5cc8d354",
        "construct_data_specification_content": "ac4a0c6d9d4c",
    }
    BLOCKS = {"level_type": "54798843d229", "operation_loop": "5c5450eda480"}

    def __init__(self, tables):
        self.tree = parse_file(DES)
        self.fns = functions(self.tree)
        self.tables = tables
        self.dec = None
        for n in self.tree.body:
            if isinstance(n, ast.ClassDef) and n.name == "AASFromXmlDecoder":
                self.dec = n
        if self.dec is None:
            raise TranslationError("class AASFromXmlDecoder not found")
        self.methods = {}
        for n in self.dec.body:
            if isinstance(n, ast.FunctionDef):
                self.methods[n.name] = n
            elif isinstance(n, ast.Assign) and ast.unparse(n) in ("failsafe = True", "stripped = False"):
                pass
            elif isinstance(n, ast.Expr) and isinstance(n.value, ast.Constant):
                pass
            else:
                err(n, "unexpected member of AASFromXmlDecoder")
        self.strs = {}
        self.fingerprints = {}

    # ---- pinned parts
    def pin_all(self):
        for name, fp in self.HELPERS.items():
            if name not in self.fns:
                raise TranslationError(f"helper {name} missing")
            self.strs[name] = self._pin(self.fns[name], fp, "helper")
        # _str_to_bool (audited 4767718): literal = string.strip(" \t\n\r"); ValueError unless literal in
        # ("true", "false", "1", "0"); result literal in ("true", "1")  ==  model/XmlCodec.v xs_bool
        if self.strs["_str_to_bool"] != [" \t\n\r", "true", "false", "1", "0", "true", "1"]:
            raise TranslationError(f"_str_to_bool literals changed: {self.strs['_str_to_bool']!r} "
                                   f"(model/XmlCodec.v xs_bool interprets the audited set)")
        for name, fp in self.METHODS.items():
            if name not in self.methods:
                raise TranslationError(f"method {name} missing")
            self.strs[name] = self._pin(self.methods[name], fp, "constructor")

    def _pin(self, fn, expect, what):
        fp, strs = masked(fn)
        self.fingerprints[fn.name] = fp
        if expect != "@" and fp not in expect.split("|"):
            raise TranslationError(f"{what} `{fn.name}` changed (fingerprint {fp}, audited {expect}); "
                                   f"its hand-audited translation is no longer valid")
        return strs

    # ---- expression helpers
    def find_tag(self, n, elem="element"):
        """element.find(NS_AAS + "x") -> "x" """
        if isinstance(n, ast.Call) and isinstance(n.func, ast.Attribute) and n.func.attr == "find" \
                and is_name(n.func.value, elem) and len(n.args) == 1 and not n.keywords:
            return ns_tag(n.args[0])
        return None

    def ctor_ref(self, n):
        """cls.construct_x -> ('RObj'|'RDisp', name) or the audited expansion of an irregular helper"""
        if not (isinstance(n, ast.Attribute) and is_name(n.value, "cls")):
            err(n, "constructor reference")
        name = n.attr
        if name in ("construct_submodel_element", "construct_data_element", "construct_data_specification_content",
                    "construct_reference"):
            return ("RDisp", name)
        if name == "_construct_operation_variable":
            # value = _get_child_mandatory(element, "value"); len checks; construct_submodel_element(value[0])
            return ("RChild", self.strs[name][0], ("RFirst", ("RDisp", "construct_submodel_element")))
        if name in ("_construct_submodel_reference", "_construct_asset_administration_shell_reference",
                    "_construct_referable_reference"):
            return ("RObj", "construct_model_reference_expect_type")
        if name not in self.methods:
            err(n, "unknown constructor")
        return ("RObj", name)

    def table_name(self, n):
        d = dotted(n)
        if not d:
            err(n, "table")
        t = d.split(".")[-1]
        if t not in self.tables:
            err(n, f"unknown table {t}")
        return t

    def failsafe_arg(self, n):
        if ast.unparse(n) != "cls.failsafe":
            err(n, "failsafe argument")

    def rexpr(self, n, env):
        """value expression -> symbolic dict"""
        if isinstance(n, ast.Constant) and n.value is None:
            return {"k": "none"}
        if isinstance(n, ast.Name):
            if n.id in env:
                return env[n.id]
            err(n, "unknown local")
        t = self.find_tag(n)
        if t is not None:
            return {"k": "elem", "tag": t}
        if isinstance(n, ast.Subscript) and isinstance(n.value, ast.Name) and n.value.id in self.tables:
            inner = self.rexpr(n.slice, env)
            if inner["k"] != "leaf" or inner["dec"][0] != "REnum" or not inner["dec"][2]:
                err(n, "table lookup of a non-mandatory value")
            inner = dict(inner)
            inner["dec"] = ("REnum", inner["dec"][1] + [n.value.id], True)
            return inner
        if isinstance(n, ast.IfExp):
            # _str_to_bool(_get_text_mandatory(x)) if x is not None else True
            c = n.test
            if not (isinstance(c, ast.Compare) and isinstance(c.left, ast.Name) and isinstance(c.ops[0], ast.IsNot)
                    and isinstance(c.comparators[0], ast.Constant) and c.comparators[0].value is None
                    and isinstance(n.orelse, ast.Constant) and isinstance(n.orelse.value, bool)):
                err(n, "conditional expression")
            x = c.left.id
            if env.get(x, {}).get("k") != "elem":
                err(n, "conditional expression source")
            if ast.unparse(n.body) != f"_str_to_bool(_get_text_mandatory({x}))":
                err(n, "conditional expression body")
            return {"k": "leaf", "tag": env[x]["tag"], "mand": False, "tmode": "TMandatory", "dec": ("RBool",),
                    "default": n.orelse.value}
        if not isinstance(n, ast.Call):
            err(n, "reader expression")
        f = dotted(n.func)
        a = n.args
        kw = {k.arg: k.value for k in n.keywords}

        def elem_arg(x):
            t = self.find_tag(x)
            if t is not None:
                return t
            if isinstance(x, ast.Name) and env.get(x.id, {}).get("k") == "elem":
                return env[x.id]["tag"]
            err(x, "element argument")

        def is_element(x):
            if not is_name(x, "element"):
                err(x, "expected `element`")

        if f in ("_get_text_or_none", "_get_text_or_empty_string_or_none") and len(a) == 1 and not kw:
            return {"k": "leaf", "tag": elem_arg(a[0]), "mand": False,
                    "tmode": "TOrNone" if f == "_get_text_or_none" else "TOrEmpty", "dec": ("RText",)}
        if f == "_get_text_mapped_or_none" and len(a) == 2 and not kw:
            return {"k": "leaf", "tag": elem_arg(a[0]), "mand": False, "tmode": "TOrNone",
                    "dec": ("REnum", [self.table_name(a[1])], False)}
        if f == "_child_text_mandatory" and len(a) == 2 and not kw:
            is_element(a[0])
            return {"k": "leaf", "tag": ns_tag(a[1]), "mand": True, "tmode": "TMandatory", "dec": ("RText",)}
        if f == "_child_text_mandatory_mapped" and len(a) == 3 and not kw:
            is_element(a[0])
            return {"k": "leaf", "tag": ns_tag(a[1]), "mand": True, "tmode": "TMandatory",
                    "dec": ("REnum", [self.table_name(a[2])], True)}
        if f == "_get_kind" and len(a) == 1 and not kw:
            is_element(a[0])
            # _get_text_mapped_or_none(element.find(NS_AAS + "kind"), MODELLING_KIND_INVERSE), default INSTANCE
            return {"k": "leaf", "tag": self.strs["_get_kind"][0], "mand": False, "tmode": "TOrNone",
                    "dec": ("REnum", ["MODELLING_KIND_INVERSE"], False), "default": ("enum", "INSTANCE")}
        if f == "_child_construct_mandatory" and len(a) == 3 and not kw:
            is_element(a[0])
            return {"k": "obj", "tag": ns_tag(a[1]), "mand": True, "dec": self.ctor_ref(a[2])}
        if f == "_failsafe_construct" and len(a) == 3 and set(kw) <= {"namespace"}:
            self.failsafe_arg(a[2])
            return {"k": "obj", "tag": elem_arg(a[0]), "mand": False, "dec": self.ctor_ref(a[1])}
        if f == "_get_child_mandatory" and len(a) == 2 and not kw:
            is_element(a[0])
            return {"k": "elem", "tag": ns_tag(a[1]), "mand": True}
        if f == "_failsafe_construct_mandatory" and len(a) == 2 and not kw:
            # _failsafe_construct_mandatory(x[0], cls.C)
            x = a[0]
            if isinstance(x, ast.Subscript) and isinstance(x.value, ast.Name) and isinstance(x.slice, ast.Constant) \
                    and x.slice.value == 0 and env.get(x.value.id, {}).get("k") == "elem" \
                    and env[x.value.id].get("mand") and env[x.value.id].get("len_checked"):
                return {"k": "obj", "tag": env[x.value.id]["tag"], "mand": True,
                        "dec": ("RFirst", self.ctor_ref(a[1]))}
            err(n, "_failsafe_construct_mandatory argument")
        if f == "cls._construct_key_tuple" and len(a) == 1 and set(kw) <= {"namespace"}:
            is_element(a[0])
            s = self.strs["_construct_key_tuple"]
            return {"k": "list", "tag": s[0], "mand": True,
                    "dec": ("RList", ("RObj", "construct_key"), s[1], True)}
        if f == "set" and len(a) == 1 and not kw:
            inner = self.multi(a[0], env)
            if inner is None:
                err(n, "set(...) argument")
            return inner
        err(n, "reader expression")

    def multi(self, n, env):
        """_child_construct_multiple(w, ITAG, cls.C, cls.failsafe) / _failsafe_construct_multiple(w, cls.C, cls.failsafe)
        -> list expr over wrapper w"""
        if not isinstance(n, ast.Call):
            return None
        f = dotted(n.func)
        a = n.args
        if n.keywords:
            return None

        def wrapper(x):
            if isinstance(x, ast.Name) and env.get(x.id, {}).get("k") == "elem":
                return env[x.id]
            if isinstance(x, ast.Call):
                e = self.rexpr(x, env)
                if e["k"] == "elem":
                    return e
            err(x, "wrapper element")
        if f == "_child_construct_multiple" and len(a) == 4:
            self.failsafe_arg(a[3])
            w = wrapper(a[0])
            return {"k": "list", "tag": w["tag"], "mand": bool(w.get("mand")),
                    "dec": ("RList", self.ctor_ref(a[2]), ns_tag(a[1]), True)}
        if f == "_failsafe_construct_multiple" and len(a) == 3:
            self.failsafe_arg(a[2])
            w = wrapper(a[0])
            return {"k": "list", "tag": w["tag"], "mand": bool(w.get("mand")),
                    "dec": ("RList", self.ctor_ref(a[1]), "", False)}
        return None

    # ---- rules
    def mk(self, node, sym, attr, via, stripped=False, nonempty=False, requires=(), default="ctor", wrap=None):
        dec = sym["dec"]
        if wrap is not None:
            if sym["k"] != "leaf" or sym["dec"][0] != "RText":
                err(node, "decoder applied to a non-text value")
            dec = wrap
        d = sym.get("default", default)
        return {"tag": sym["tag"], "attr": attr, "mand": bool(sym.get("mand")), "tmode": sym.get("tmode", "TOrNone"),
                "dec": dec, "nonempty": nonempty, "inline": False, "requires": list(requires),
                "default": d, "stripped": stripped, "via": via, "line": node.lineno}

    def setter_value(self, n, x, objvar):
        """right-hand side of `obj.a = <expr(x)>` -> decoder wrapper or None (x itself)"""
        if is_name(n, x):
            return None
        if isinstance(n, ast.Call) and dotted(n.func) == "model.datatypes.from_xsd" and len(n.args) == 2 \
                and is_name(n.args[0], x) and not n.keywords:
            t = n.args[1]
            if isinstance(t, ast.Attribute) and is_name(t.value, objvar):
                return ("RXsd", t.attr)
            d = dotted(t)
            if d and d.startswith("model.datatypes."):
                return ("RXsdFixed", d.split(".")[-1])
        if isinstance(n, ast.Call) and dotted(n.func) == "base64.b64decode" and len(n.args) == 1 \
                and is_name(n.args[0], x) and not n.keywords:
            return ("RB64",)
        if isinstance(n, ast.Subscript) and dotted(n.value) == "model.datatypes.XSD_TYPE_CLASSES" and is_name(n.slice, x):
            return ("REnum", ["XSD_TYPE_CLASSES"], True)
        err(n, "setter value")

    def none_test(self, t):
        """`x is not None` -> x ; `x` -> x (truthy) ; returns (name, truthy) or None"""
        if isinstance(t, ast.Compare) and len(t.ops) == 1 and isinstance(t.ops[0], ast.IsNot) \
                and isinstance(t.left, ast.Name) and isinstance(t.comparators[0], ast.Constant) \
                and t.comparators[0].value is None:
            return t.left.id, False
        if isinstance(t, ast.Name):
            return t.id, True
        return None

    def body_rules(self, sts, env, objvar, ctx):
        """statements (after the object exists, or before for local sets) -> rules; ctx: dict(cls=..., stripped=bool)"""
        rules = []
        for st in sts:
            rules.extend(self.stmt(st, env, objvar, ctx))
        return rules

    def add_loop(self, loop, env, objvar, ctx, wname, nonempty, node):
        """for y in multi(w, ...): <target>.add(y) -> rule"""
        if not isinstance(loop, ast.For) or loop.orelse or not isinstance(loop.target, ast.Name) or len(loop.body) != 1:
            err(loop, "loop shape")
        m = self.multi(loop.iter, env)
        if m is None:
            err(loop, "loop source")
        if wname is not None and m["tag"] != env[wname]["tag"]:
            err(loop, "loop over a different element than the one tested")
        y = loop.target.id
        b = loop.body[0]
        if not (isinstance(b, ast.Expr) and isinstance(b.value, ast.Call) and isinstance(b.value.func, ast.Attribute)
                and b.value.func.attr in ("add", "append") and len(b.value.args) == 1 and is_name(b.value.args[0], y)):
            err(b, "loop body")
        tgt = b.value.func.value
        if isinstance(tgt, ast.Attribute) and is_name(tgt.value, objvar):
            return [self.mk(node, m, tgt.attr, "add", stripped=ctx["stripped"], nonempty=nonempty, default=[])]
        if isinstance(tgt, ast.Name) and env.get(tgt.id, {}).get("k") == "localset":
            env[tgt.id] = {"k": "localset", "rule": dict(m, nonempty=nonempty)}
            return []
        if isinstance(tgt, ast.Name) and env.get(tgt.id, {}).get("k") == "target":
            return [self.mk(node, m, env[tgt.id]["attr"], "add", stripped=ctx["stripped"], nonempty=nonempty, default=[])]
        err(b, "loop target")

    def stmt(self, st, env, objvar, ctx):
        # x = <rexpr>  /  x = set()
        if isinstance(st, (ast.Assign, ast.AnnAssign)):
            tg = st.targets[0] if isinstance(st, ast.Assign) else st.target
            if not isinstance(tg, ast.Name):
                err(st, "assignment target")
            if ast.unparse(st.value) in ("set()", "[]"):
                env[tg.id] = {"k": "localset"}
            else:
                env[tg.id] = self.rexpr(st.value, env)
            return []
        if isinstance(st, ast.Expr) and ast.unparse(st) == f"cls._amend_abstract_attributes({objvar}, element)":
            return [("abstract",)]
        if isinstance(st, ast.Expr) and isinstance(st.value, ast.Call):
            # list_.value.extend(_failsafe_construct_multiple(value, ...))
            c = st.value
            if isinstance(c.func, ast.Attribute) and c.func.attr == "extend" and len(c.args) == 1 \
                    and isinstance(c.func.value, ast.Attribute) and is_name(c.func.value.value, objvar):
                m = self.multi(c.args[0], env)
                if m is not None:
                    return [self.mk(st, m, c.func.value.attr, "add", stripped=ctx["stripped"], default=[])]
            err(st, "expression statement")
        if isinstance(st, ast.For):
            if isinstance(st.target, ast.Tuple):
                return self.tuple_loop(st, env, objvar, ctx)
            return self.add_loop(st, env, objvar, ctx, None, False, st)
        if isinstance(st, ast.If) and not st.orelse:
            t = st.test
            if ast.unparse(t) == "not cls.stripped":
                if ctx["stripped"]:
                    err(st, "nested stripped guard")
                return self.body_rules(st.body, env, objvar, dict(ctx, stripped=True))
            # len checks on a mandatory child (embedded data specification)
            if isinstance(t, ast.Compare) and isinstance(t.left, ast.Call) and is_name(t.left.func, "len") \
                    and isinstance(t.left.args[0], ast.Name) and env.get(t.left.args[0].id, {}).get("k") == "elem":
                x = t.left.args[0].id
                if isinstance(t.ops[0], ast.Eq) and t.comparators[0].value == 0 and len(st.body) == 1 \
                        and isinstance(st.body[0], ast.Raise) and ast.unparse(st.body[0].exc).startswith("KeyError("):
                    env[x] = dict(env[x], len_checked=True)
                    return []
                if isinstance(t.ops[0], ast.Gt) and t.comparators[0].value == 1 and len(st.body) == 1 \
                        and ast.unparse(st.body[0]).startswith("logger.warning("):
                    return []
                err(st, "length check")
            # if not issubclass(type_value_list_element, model.SubmodelElement): raise ValueError
            if isinstance(t, ast.UnaryOp) and isinstance(t.op, ast.Not) and isinstance(t.operand, ast.Call) \
                    and is_name(t.operand.func, "issubclass") and isinstance(t.operand.args[0], ast.Name) \
                    and len(st.body) == 1 and isinstance(st.body[0], ast.Raise) \
                    and ast.unparse(st.body[0].exc).startswith("ValueError("):
                x = t.operand.args[0].id
                sym = env.get(x)
                base = model_class(t.operand.args[1])
                if not sym or sym["k"] != "leaf" or sym["dec"][0] != "REnum":
                    err(st, "issubclass check")
                last = sym["dec"][1][-1]
                rname = f"{last}|{base}"
                self.tables[rname] = [(a, b) for a, b in self.tables[last]
                                      if issubclass(live_class(b), live_class(base))]
                env[x] = dict(sym, dec=("REnum", sym["dec"][1][:-1] + [rname], True))
                return []
            # compound: x is not None and y is not None / and len(x) > 0
            requires = []
            nonempty = False
            if isinstance(t, ast.BoolOp) and isinstance(t.op, ast.And) and len(t.values) == 2:
                second = t.values[1]
                first = self.none_test(t.values[0])
                if first is None:
                    err(st, "condition")
                if ast.unparse(second) == f"len({first[0]}) > 0":
                    nonempty = True
                else:
                    s2 = self.none_test(second)
                    if s2 is None or s2[1] or env.get(s2[0], {}).get("k") != "leaf":
                        err(st, "condition")
                    requires = [env[s2[0]]["tag"]]
                t = t.values[0]
            nt = self.none_test(t)
            if nt is None:
                err(st, "condition")
            x, truthy = nt
            sym = env.get(x)
            if sym is None:
                err(st, "condition on unknown local")
            if sym["k"] == "elem":
                if truthy:
                    err(st, "truthiness test of an element")
                body = st.body
                if len(body) == 1 and isinstance(body[0], ast.For):
                    if ast.unparse(body[0]).startswith("for child in level_type:"):
                        fp, _ = masked(body[0])
                        self.fingerprints["level_type"] = fp
                        if self.BLOCKS["level_type"] not in ("@", fp):
                            err(st, f"levelType block changed (fingerprint {fp})")
                        return [self.mk(st, {"k": "obj", "tag": sym["tag"], "dec": ("RLevel", "IEC61360_LEVEL_TYPES_INVERSE")},
                                        "level_types", "add", stripped=ctx["stripped"], default=[])]
                    return self.add_loop(body[0], env, objvar, ctx, x, nonempty, st)
                if len(body) == 1 and isinstance(body[0], ast.Expr):
                    return self.stmt(body[0], env, objvar, ctx)       # .extend(...)
                if len(body) == 1 and isinstance(body[0], ast.Assign):
                    # obj.a = _failsafe_construct(x, cls.C, cls.failsafe)
                    tg = body[0].targets[0]
                    if isinstance(tg, ast.Attribute) and is_name(tg.value, objvar):
                        v = self.rexpr(body[0].value, env)
                        if v["k"] == "obj" and v["tag"] == sym["tag"]:
                            return [self.mk(st, v, tg.attr, "set", stripped=ctx["stripped"])]
                err(st, "element block")
            if sym["k"] in ("leaf", "obj"):
                if nonempty:
                    err(st, "length test of a value")
                if truthy and sym["k"] != "obj":
                    err(st, "truthiness test of a text value")
                if len(st.body) != 1 or not isinstance(st.body[0], ast.Assign):
                    err(st, "setter block")
                tg = st.body[0].targets[0]
                if not (isinstance(tg, ast.Attribute) and is_name(tg.value, objvar)):
                    err(st, "setter target")
                wrap = self.setter_value(st.body[0].value, x, objvar)
                return [self.mk(st, sym, tg.attr, "set", stripped=ctx["stripped"], requires=requires, wrap=wrap)]
            err(st, "condition")
        err(st, "statement outside the reader grammar")

    def tuple_loop(self, st, env, objvar, ctx):
        """for tag, target in ((TAG, operation.a), ...): variables = element.find(tag); if ... : for var in multi: target.add(var)"""
        fp, strs = masked(st)
        self.fingerprints["operation_loop"] = fp
        if self.BLOCKS["operation_loop"] not in ("@", fp):
            err(st, f"operation variable loop changed (fingerprint {fp})")
        rules = []
        for pair in st.iter.elts:
            tag = ns_tag(pair.elts[0])
            tg = pair.elts[1]
            if not (isinstance(tg, ast.Attribute) and is_name(tg.value, objvar)):
                err(st, "tuple loop target")
            env2 = dict(env)
            env2["variables"] = {"k": "elem", "tag": tag}
            env2["target"] = {"k": "target", "attr": tg.attr}
            if not (len(st.body) == 2 and ast.unparse(st.body[0]) == "variables = element.find(tag)"):
                err(st, "tuple loop body")
            rules.extend(self.stmt(st.body[1], env2, objvar, ctx))
        return rules

    def ctor_call(self, call, env, cls_name):
        """object_class(args) -> rules via constructor parameters"""
        if not (isinstance(call, ast.Call) and is_name(call.func, "object_class")):
            err(call, "expected object_class(...)")
        if cls_name == "ValueList":
            err(call, "ValueList has no constructor")
        sig = inspect.signature(live_class(cls_name).__init__)
        params = [p for p in sig.parameters.values()][1:]
        bound = {}
        for i, a in enumerate(call.args):
            bound[params[i].name] = a
        for k in call.keywords:
            if k.arg is None or k.arg in bound:
                err(call, "constructor arguments")
            bound[k.arg] = k.value
        names = {p.name for p in params}
        rules = []
        for p, a in bound.items():
            if p not in names:
                err(call, f"unknown constructor parameter {p}")
            sym = self.rexpr(a, env)
            attr = attr_of_param(p)
            if sym["k"] == "none":
                continue
            if sym["k"] == "localset":
                if "rule" in sym:
                    r = sym["rule"]
                    rules.append(self.mk(call, r, attr, "ctor", nonempty=r.get("nonempty", False), default=[]))
                continue
            if sym["k"] == "elem":
                err(a, "element passed to the constructor")
            rules.append(self.mk(call, sym, attr, "ctor", default=None if sym["k"] != "list" else []))
        return rules

    def ctor_defaults(self, cls_name):
        if cls_name in PSEUDO:
            return {}
        sig = inspect.signature(live_class(cls_name).__init__)
        out = {}
        for p in list(sig.parameters.values())[1:]:
            if p.default is inspect._empty:
                continue
            d = p.default
            import enum
            if d is None or isinstance(d, bool):
                out[attr_of_param(p.name)] = d
            elif isinstance(d, enum.Enum):
                out[attr_of_param(p.name)] = ("enum", d.name)
            elif isinstance(d, (tuple, list, set, frozenset)) and len(d) == 0:
                out[attr_of_param(p.name)] = []
            else:
                raise TranslationError(f"default of {cls_name}.{p.name}: {d!r}")
        return out

    def object_class_of(self, fn):
        args = fn.args
        dflts = dict(zip([a.arg for a in args.args][len(args.args) - len(args.defaults):], args.defaults))
        if "object_class" not in dflts:
            return None
        return model_class(dflts["object_class"])

    def regular(self, name, fn=None, cls_name=None, body=None):
        """regular constructor -> list of rules (with ('abstract',) markers)"""
        fn = fn or self.methods[name]
        cls_name = cls_name or self.object_class_of(fn)
        if cls_name is None:
            err(fn, "constructor without object_class default")
        body = body if body is not None else body_wo_doc(fn)
        env = {}
        rules = []
        objvar = None
        i = 0
        while i < len(body):
            st = body[i]
            if isinstance(st, ast.Return):
                if i != len(body) - 1:
                    err(st, "return before the end")
                if objvar is None:
                    rules.extend(self.ctor_call(st.value, env, cls_name))
                elif not is_name(st.value, objvar):
                    err(st, "must return the constructed object")
                i += 1
                continue
            if objvar is None and isinstance(st, ast.Assign) and isinstance(st.value, ast.Call) \
                    and is_name(st.value.func, "object_class"):
                objvar = st.targets[0].id
                rules.extend(self.ctor_call(st.value, env, cls_name))
                i += 1
                continue
            if objvar is None and isinstance(st, ast.Assign) and isinstance(st.value, ast.Call) \
                    and ast.unparse(st.value) == "cls._construct_relationship_element_internal(element, object_class)":
                objvar = st.targets[0].id
                rules.extend(self.regular("_construct_relationship_element_internal", cls_name=cls_name))
                i += 1
                continue
            rules.extend(self.stmt(st, env, objvar or "$none", {"stripped": False}))
            i += 1
        return rules

    def abstract(self):
        fn = self.methods["_amend_abstract_attributes"]
        out = []
        for st in body_wo_doc(fn):
            if not (isinstance(st, ast.If) and not st.orelse):
                err(st, "_amend_abstract_attributes block")
            t = st.test
            stripped = False
            if isinstance(t, ast.BoolOp) and isinstance(t.op, ast.And) and len(t.values) == 2 \
                    and ast.unparse(t.values[1]) == "not cls.stripped":
                stripped = True
                t = t.values[0]
            if not (isinstance(t, ast.Call) and is_name(t.func, "isinstance") and is_name(t.args[0], "obj")):
                err(st, "_amend_abstract_attributes guard")
            rs = self.body_rules(st.body, {}, "obj", {"stripped": stripped})
            out.append((model_class(t.args[1]), rs))
        return out

    def flatten(self, rules, abstract, cls_name):
        out = []
        for r in rules:
            if isinstance(r, tuple) and r[0] == "abstract":
                for guard, rs in abstract:
                    if cls_name not in PSEUDO and issubclass(live_class(cls_name), live_class(guard)):
                        out.extend(rs)
            else:
                out.append(r)
        return out

    def dispatcher(self, name):
        """dict literal {"tag": cls.construct_x, ...}; unknown tags fall through"""
        fn = self.methods[name]
        d = None
        for n in ast.walk(fn):
            if isinstance(n, ast.Dict) and n.keys and all(isinstance(k, ast.Constant) for k in n.keys):
                d = n
        if d is None:
            err(fn, "dispatcher without dict literal")
        rows = []
        for k, v in zip(d.keys, d.values):
            if not (isinstance(v, ast.Attribute) and is_name(v.value, "cls")):
                err(v, "dispatcher entry")
            rows.append((k.value, v.attr))
        return rows

    def translate(self):
        self.pin_all()
        abstract = self.abstract()
        ctors = {}
        skip = set(self.METHODS) | {"_amend_abstract_attributes", "_construct_relationship_element_internal",
                                    "construct_value_list"}
        lss = {}
        for name, fn in self.methods.items():
            if name in skip:
                continue
            body = body_wo_doc(fn)
            if len(body) == 1 and isinstance(body[0], ast.Return) and isinstance(body[0].value, ast.Call) \
                    and dotted(body[0].value.func) == "cls.construct_lang_string_set":
                c = body[0].value
                if len(c.args) != 3 or not is_name(c.args[0], "element") or not is_name(c.args[2], "object_class"):
                    err(c, "lang string set constructor")
                lss[name] = (self.object_class_of(fn), ns_tag(c.args[1]))
                continue
            if len(body) == 1 and isinstance(body[0], ast.Return) and ast.unparse(body[0].value) == \
                    "cls._construct_relationship_element_internal(element, object_class=object_class, **_kwargs)":
                cls_name = self.object_class_of(fn)
                ctors[name] = (cls_name, self.flatten(self.regular("_construct_relationship_element_internal",
                                                                   cls_name=cls_name), abstract, cls_name))
                continue
            cls_name = self.object_class_of(fn)
            ctors[name] = (cls_name, self.flatten(self.regular(name), abstract, cls_name))
        # construct_value_list: return set(_child_construct_multiple(_get_child_mandatory(element, W), I, cls.C, cls.failsafe))
        vl = body_wo_doc(self.methods["construct_value_list"])
        if len(vl) != 1 or not isinstance(vl[0], ast.Return):
            err(self.methods["construct_value_list"], "construct_value_list shape")
        sym = self.rexpr(vl[0].value, {})
        ctors["construct_value_list"] = ("ValueList", [self.mk(vl[0], sym, "items", "ctor", default=[])])
        # lang string sets (construct_lang_string_set audited: all children must carry expected_tag; each has
        # mandatory texts "language" and "text"; dict insertion keeps document order)
        ls = self.strs["construct_lang_string_set"]
        if ls != ["language", "text"]:
            raise TranslationError(f"construct_lang_string_set constants {ls}")
        for name, (cls_name, itag) in lss.items():
            ctors[name] = (cls_name, [{"tag": "", "attr": "items", "mand": True, "tmode": "TOrNone",
                                       "dec": ("RList", ("RObj", "construct_lang_string_set.item"), itag, True),
                                       "nonempty": False, "inline": True, "requires": [], "default": [],
                                       "stripped": False, "via": "ctor", "line": self.methods[name].lineno}])
        ctors["construct_lang_string_set.item"] = ("LangString", [
            {"tag": t, "attr": t, "mand": True, "tmode": "TMandatory", "dec": ("RText",), "nonempty": False,
             "inline": False, "requires": [], "default": None, "stripped": False, "via": "ctor",
             "line": self.methods["construct_lang_string_set"].lineno} for t in ls])
        # references (audited): _expect_reference_type(element, model.X) = mandatory mapped child "type" must be X;
        # keys via _construct_key_tuple; referredSemanticId via _failsafe_construct(find, construct_reference)
        tstr = self.strs["_expect_reference_type"]
        if tstr != ["type"]:
            raise TranslationError(f"_expect_reference_type constants {tstr}")
        kt = self.strs["_construct_key_tuple"]
        for name, cls_name in (("construct_external_reference", "ExternalReference"),
                               ("construct_model_reference", "ModelReference"),
                               ("construct_model_reference_expect_type", "ModelReference")):
            rs = self.strs[name]
            if rs[-1] != "referredSemanticId" and "referredSemanticId" not in rs:
                raise TranslationError(f"{name} constants {rs}")
            base = {"nonempty": False, "inline": False, "requires": [], "stripped": False,
                    "line": self.methods[name].lineno}
            ctors[name] = (cls_name, [
                dict(base, tag="type", attr="__class__", mand=True, tmode="TMandatory",
                     dec=("REnum", ["REFERENCE_TYPES_INVERSE"], True), default=None, via="check"),
                dict(base, tag=kt[0], attr="key", mand=True, tmode="TOrNone",
                     dec=("RList", ("RObj", "construct_key"), kt[1], True), default=[], via="ctor"),
                dict(base, tag="referredSemanticId", attr="referred_semantic_id", mand=False, tmode="TOrNone",
                     dec=("RDisp", "construct_reference"), default=None, via="ctor")])
        # dispatchers
        disp = {}
        for name in ("construct_submodel_element", "construct_data_element", "construct_data_specification_content"):
            disp[name] = ("tag", self.dispatcher(name))
        # construct_submodel_element falls through to construct_data_element for every other tag (audited)
        disp["construct_submodel_element"] = ("tag", disp["construct_submodel_element"][1]
                                              + disp["construct_data_element"][1])
        fnr = self.methods["construct_reference"]
        dd = [n for n in ast.walk(fnr) if isinstance(n, ast.Dict)][0]
        disp["construct_reference"] = ("text", self.strs["construct_reference"][0], ["REFERENCE_TYPES_INVERSE"],
                                       [(model_class(k), v.attr) for k, v in zip(dd.keys, dd.values)])
        # fill defaults for setter-style rules from the live constructor signature
        for name, (cls_name, rs) in ctors.items():
            dfl = self.ctor_defaults(cls_name)
            for r in rs:
                if r["default"] == "ctor":
                    r["default"] = dfl.get(r["attr"], None)
        single = self.single_object(ctors, disp)
        tops = self.store_fn()
        return ctors, disp, single, tops

    def single_object(self, ctors, disp):
        fn = self.fns["read_aas_xml_element"]
        members = []
        for n in self.tree.body:
            if isinstance(n, ast.ClassDef) and n.name == "XMLConstructables":
                for st in n.body:
                    if isinstance(st, ast.Assign) and ast.unparse(st.value) == "enum.auto()":
                        members.append(st.targets[0].id)
        rows = {}
        chain = [b for b in body_wo_doc(fn) if isinstance(b, ast.If)]
        if len(chain) != 1:
            err(fn, "read_aas_xml_element frame")
        st = chain[0]
        while True:
            t = st.test
            if not (isinstance(t, ast.Compare) and is_name(t.left, "construct") and isinstance(t.ops[0], ast.Eq)
                    and dotted(t.comparators[0]).startswith("XMLConstructables.") and len(st.body) == 1
                    and isinstance(st.body[0], ast.Assign) and is_name(st.body[0].targets[0], "constructor")
                    and isinstance(st.body[0].value, ast.Attribute) and is_name(st.body[0].value.value, "decoder_")):
                err(st, "read_aas_xml_element branch")
            m = dotted(t.comparators[0]).split(".")[1]
            if m not in rows:
                rows[m] = st.body[0].value.attr
            if len(st.orelse) == 1 and isinstance(st.orelse[0], ast.If):
                st = st.orelse[0]
            elif len(st.orelse) == 1 and isinstance(st.orelse[0], ast.Raise):
                break
            else:
                err(st, "read_aas_xml_element chain")
        tail = [ast.unparse(s) for s in body_wo_doc(fn)[-2:]]
        if tail != ["element = _parse_xml_document(file, failsafe=decoder_.failsafe)",
                    "return _failsafe_construct(element, constructor, decoder_.failsafe, **constructor_kwargs)"]:
            err(fn, "read_aas_xml_element tail")
        out = []
        for m in members:
            c = rows.get(m, "")
            if c and c not in ctors and c not in disp:
                err(fn, f"unknown constructor {c}")
            out.append((m, c, c in disp))
        return out

    def store_fn(self):
        fn = self.fns["read_aas_xml_file_into"]
        d = [n for n in ast.walk(fn) if isinstance(n, ast.Dict)][0]
        rows = []
        for k, v in zip(d.keys, d.values):
            if not (isinstance(k, ast.Constant) and isinstance(v, ast.Attribute) and is_name(v.value, "decoder_")):
                err(d, "element_constructors")
            rows.append((k.value, v.attr))
        return rows


def crule_r(r):
    d = r["default"]
    dv = "None" if d is None and r["via"] != "ctor!" else None
    if d is None:
        dv = "None"
    else:
        dv = f"(Some {cvalue(d)})"
    return (f"mkR {cs(r['tag'])} {cs(r['attr'])} {cbool(r['mand'])} {r['tmode']} {cdec(r['dec'])} "
            f"{cbool(r['nonempty'])} {cbool(r['inline'])} {clist(cs(x) for x in r['requires'])} {dv} "
            f"{cbool(r['stripped'])} {cs(r['via'])}")


def emit_reader(ctors, disp, single, tops, tables):
    out = [HEADER.format(src=DES + ", " + GENERIC)]
    out.append("Definition xml_r_enum_tables : tables := " + ctables(tables) + ".\n")
    rows = []
    for name in sorted(ctors):
        cls_name, rs = ctors[name]
        rows.append(f"  ({cs(name)}, ({cs(cls_name)}, [\n      " + ";\n      ".join(crule_r(r) for r in rs) + "]))")
    out.append("Definition xml_r_ctors : list (string * (string * list rrule)) := [\n" + ";\n".join(rows) + "\n].\n")
    drows = []
    for d in sorted(disp):
        v = disp[d]
        if v[0] == "tag":
            drows.append(f"  ({cs(d)}, RDTag " + clist(f"({cs(a)}, {cs(b)})" for a, b in v[1]) + ")")
        else:
            drows.append(f"  ({cs(d)}, RDText {cs(v[1])} {clist(cs(t) for t in v[2])} "
                         + clist(f"({cs(a)}, {cs(b)})" for a, b in v[3]) + ")")
    out.append("Definition xml_r_disp : list (string * rdisp) := [\n" + ";\n".join(drows) + "\n].\n")
    out.append("Definition gen_xml_r : rtables := mkRT xml_r_ctors xml_r_disp xml_r_enum_tables.\n")
    guards = [(name, r["attr"]) for name in sorted(ctors) for r in ctors[name][1] if r["stripped"]]
    out.append("(* members read only under `not cls.stripped` (consumed by C18): (constructor, attribute) *)")
    out.append("Definition xml_reader_stripped_guards : list (string * string) := [\n  "
               + ";\n  ".join(f"({cs(a)}, {cs(b)})" for a, b in guards) + "\n].\n")
    out.append("(* read_aas_xml_element: XMLConstructables member -> (constructor, is a dispatcher) *)")
    out.append("Definition xml_r_single : list (string * (string * bool)) := [\n  "
               + ";\n  ".join(f"({cs(m)}, ({cs(c)}, {cbool(b)}))" for m, c, b in single) + "\n].\n")
    out.append("(* read_aas_xml_file_into: item tag -> constructor; a list element is the item tag + \"s\" *)")
    out.append("Definition xml_r_tops : list (string * string) := [\n  "
               + ";\n  ".join(f"({cs(a)}, {cs(b)})" for a, b in tops) + "\n].\n")
    return "\n".join(out)


# ================================================================== entry point

def translate_all():
    w = Writer()
    wres = w.translate()
    r = Reader(dict(w.tables))
    rres = r.translate()
    return w, wres, r, rres


def regenerate():
    w, (rules, disp, single, tops), r, (ctors, rdisp, rsingle, rtops) = translate_all()
    c1 = common.write_if_changed(os.path.join(common.GEN, "Gen_XmlWriter.v"),
                                 emit_writer(rules, disp, single, tops, w.tables))
    c2 = common.write_if_changed(os.path.join(common.GEN, "Gen_XmlReader.v"),
                                 emit_reader(ctors, rdisp, rsingle, rtops, r.tables))
    nw = sum(len(v) for byc in rules.values() for v in byc.values())
    nr = sum(len(v[1]) for v in ctors.values())
    return (f"writer: {len(rules)} functions / {nw} flattened rules; reader: {len(ctors)} constructors / {nr} rules; "
            f"{len(r.tables)} enum tables; changed={c1 or c2}")
